"""E6 -- constant folder over repo source (no repo code is executed).

Evaluates the constant sub-language the repo uses for its tables and format
strings: literals, + and *, f-strings, str.join / strip family / startswith,
slices, len, list comprehensions over folded lists, NamedTuple records with
defaults and single-return methods, module-level constants, regex *match of a
folded constant pattern against a folded constant string* (stdlib ``re`` applied
to constants).
"""

from __future__ import annotations

import ast
import re
from typing import Any, Optional

from .model import ClassInfo, Def, Module, Repo, dotted


class Unfoldable(Exception):
    def __init__(self, node, why=""):
        self.node = node
        self.why = why
        try:
            s = ast.unparse(node) if isinstance(node, ast.AST) else str(node)
        except Exception:
            s = repr(node)
        super().__init__(f"cannot fold `{s[:80]}`" + (f": {why}" if why else ""))


class Record:
    """Instance of a NamedTuple-like repo class with folded field values."""

    def __init__(self, cls: ClassInfo, fields: dict):
        self.cls = cls
        self.fields = fields

    def __repr__(self):
        return f"Record({self.cls.name}, {self.fields})"


class Sym:
    """An opaque symbolic value (e.g. a numpy dtype / builtin type name)."""

    def __init__(self, name: str):
        self.name = name

    def __repr__(self):
        return f"Sym({self.name})"

    def __eq__(self, o):
        return isinstance(o, Sym) and o.name == self.name

    def __hash__(self):
        return hash(("Sym", self.name))


class ReMatch:
    def __init__(self, m):
        self.m = m


def namedtuple_fields(c: ClassInfo) -> list[tuple[str, Optional[ast.AST]]]:
    """Declared fields (annotation order) with default expressions."""
    out = []
    for st in c.node.body:
        if isinstance(st, ast.AnnAssign) and isinstance(st.target, ast.Name):
            out.append((st.target.id, st.value))
    return out


class Folder:
    def __init__(self, repo: Repo, module: Module, scope: Optional[Def] = None,
                 env: Optional[dict] = None):
        self.repo = repo
        self.module = module
        self.scope = scope
        self.env = dict(env or {})
        self._depth = 0

    # ---------------------------------------------------------------- records
    def default_record(self, c: ClassInfo) -> Record:
        fields = {}
        sub = Folder(self.repo, c.module)
        for name, default in namedtuple_fields(c):
            if default is None:
                raise Unfoldable(c.node, f"field {name} has no default")
            fields[name] = sub.eval(default)
        return Record(c, fields)

    # ---------------------------------------------------------------- eval
    def eval(self, e: ast.AST) -> Any:
        self._depth += 1
        if self._depth > 60:
            raise Unfoldable(e, "too deep")
        try:
            return self._eval(e)
        finally:
            self._depth -= 1

    def _name(self, e: ast.Name):
        if e.id in self.env:
            v = self.env[e.id]
            if isinstance(v, ast.AST):
                v = self.eval(v)
                self.env[e.id] = v
            return v
        r = self.repo.lookup_name(e.id, self.module, self.scope)
        return self._entity(r, e)

    def _entity(self, r, e):
        if isinstance(r, tuple):
            if r[0] == "const":
                return Folder(self.repo, r[2]).eval(r[1])
            if r[0] == "ext":
                return Sym(r[1])
            if r[0] == "builtin":
                return Sym(r[1])
            if r[0] == "local":
                raise Unfoldable(e, "local variable without folded value")
        if isinstance(r, (ClassInfo, Def, Module)):
            return r
        raise Unfoldable(e, "unresolved name")

    def _eval(self, e: ast.AST) -> Any:
        if isinstance(e, ast.Constant):
            return e.value
        if isinstance(e, ast.Name):
            return self._name(e)
        if isinstance(e, ast.JoinedStr):
            out = []
            for v in e.values:
                if isinstance(v, ast.Constant):
                    out.append(str(v.value))
                elif isinstance(v, ast.FormattedValue):
                    val = self.eval(v.value)
                    if v.format_spec is not None:
                        spec = self.eval(v.format_spec)
                        out.append(format(val, spec))
                    else:
                        if not isinstance(val, (str, int)):
                            raise Unfoldable(v, "non-string in f-string")
                        out.append(str(val))
            return "".join(out)
        if isinstance(e, (ast.List, ast.Tuple)):
            vals = []
            for x in e.elts:
                if isinstance(x, ast.Starred):
                    vals.extend(self.eval(x.value))
                else:
                    vals.append(self.eval(x))
            return vals if isinstance(e, ast.List) else tuple(vals)
        if isinstance(e, ast.Dict):
            return {self.eval(k): self.eval(v) for k, v in zip(e.keys, e.values)}
        if isinstance(e, ast.BinOp):
            a, b = self.eval(e.left), self.eval(e.right)
            try:
                if isinstance(e.op, ast.Add):
                    return a + b
                if isinstance(e.op, ast.Mult):
                    return a * b
                if isinstance(e.op, ast.Sub):
                    return a - b
                if isinstance(e.op, ast.Pow):
                    return a ** b
                if isinstance(e.op, ast.FloorDiv):
                    return a // b
                if isinstance(e.op, ast.Div):
                    return a / b
                if isinstance(e.op, ast.Mod):
                    return a % b
            except Exception as ex:  # noqa: BLE001
                raise Unfoldable(e, str(ex))
            raise Unfoldable(e, "operator")
        if isinstance(e, ast.UnaryOp):
            v = self.eval(e.operand)
            if isinstance(e.op, ast.USub):
                return -v
            if isinstance(e.op, ast.Not):
                return not v
            raise Unfoldable(e)
        if isinstance(e, ast.BoolOp):
            vals = [self.eval(v) for v in e.values]
            if isinstance(e.op, ast.And):
                r = True
                for v in vals:
                    r = v
                    if not v:
                        break
                return r
            r = False
            for v in vals:
                r = v
                if v:
                    break
            return r
        if isinstance(e, ast.Compare) and len(e.ops) > 1:
            left = e.left
            for op, right in zip(e.ops, e.comparators):
                if not self.eval(ast.Compare(left=left, ops=[op], comparators=[right])):
                    return False
                left = right
            return True
        if isinstance(e, ast.Compare) and len(e.ops) == 1:
            a, b = self.eval(e.left), self.eval(e.comparators[0])
            op = e.ops[0]
            try:
                if isinstance(op, ast.Lt):
                    return a < b
                if isinstance(op, ast.LtE):
                    return a <= b
                if isinstance(op, ast.Gt):
                    return a > b
                if isinstance(op, ast.GtE):
                    return a >= b
            except TypeError as ex:
                raise Unfoldable(e, str(ex))
            if isinstance(op, ast.Eq):
                return a == b
            if isinstance(op, ast.NotEq):
                return a != b
            if isinstance(op, ast.In):
                return a in b
            if isinstance(op, ast.NotIn):
                return a not in b
            if isinstance(op, ast.Is):
                return a is b
            if isinstance(op, ast.IsNot):
                return a is not b
            raise Unfoldable(e)
        if isinstance(e, ast.IfExp):
            return self.eval(e.body) if self.eval(e.test) else self.eval(e.orelse)
        if isinstance(e, ast.Attribute):
            # module / class attribute chains first
            base = self.eval(e.value)
            return self._getattr(base, e.attr, e)
        if isinstance(e, ast.Subscript):
            base = self.eval(e.value)
            if isinstance(e.slice, ast.Slice):
                lo = self.eval(e.slice.lower) if e.slice.lower else None
                hi = self.eval(e.slice.upper) if e.slice.upper else None
                st = self.eval(e.slice.step) if e.slice.step else None
                return base[lo:hi:st]
            idx = self.eval(e.slice)
            try:
                return base[idx]
            except Exception as ex:  # noqa: BLE001
                raise Unfoldable(e, str(ex))
        if isinstance(e, ast.ListComp) and len(e.generators) == 1:
            g = e.generators[0]
            seq = self.eval(g.iter)
            out = []
            for item in seq:
                sub = Folder(self.repo, self.module, self.scope, self.env)
                _bind(sub.env, g.target, item)
                if all(sub.eval(c) for c in g.ifs):
                    out.append(sub.eval(e.elt))
            return out
        if isinstance(e, ast.GeneratorExp) and len(e.generators) == 1:
            return self._eval(ast.ListComp(elt=e.elt, generators=e.generators))
        if isinstance(e, ast.DictComp) and len(e.generators) == 1:
            g = e.generators[0]
            out = {}
            for item in self.eval(g.iter):
                sub = Folder(self.repo, self.module, self.scope, self.env)
                _bind(sub.env, g.target, item)
                out[sub.eval(e.key)] = sub.eval(e.value)
            return out
        if isinstance(e, ast.Call):
            return self._call(e)
        if isinstance(e, ast.NamedExpr):
            v = self.eval(e.value)
            self.env[e.target.id] = v
            return v
        raise Unfoldable(e, "unsupported expression")

    def _getattr(self, base, attr: str, e):
        if isinstance(base, Record):
            if attr in base.fields:
                return base.fields[attr]
            m = base.cls.lookup_method(attr)
            if m is not None:
                return ("bound", base, m)
            raise Unfoldable(e, "no such field")
        if isinstance(base, Module):
            return self._entity(self.repo.module_attr(base.name, attr), e)
        if isinstance(base, ClassInfo):
            r = self.repo.attr_of(base, attr)
            return self._entity(r, e)
        if isinstance(base, Sym):
            return Sym(f"{base.name}.{attr}")
        if isinstance(base, (str, list, tuple, dict)):
            return ("pymethod", base, attr)
        if isinstance(base, ReMatch):
            return ("pymethod", base, attr)
        if isinstance(base, re.Pattern):
            return ("pymethod", base, attr)
        raise Unfoldable(e, "attribute of unknown value")

    _STR_METHODS = {"join", "lstrip", "rstrip", "strip", "startswith", "endswith",
                    "removesuffix", "removeprefix", "upper", "lower", "split", "isspace",
                    "replace", "format", "title"}

    def _call(self, e: ast.Call):
        if e.keywords and any(k.arg is None for k in e.keywords):
            raise Unfoldable(e, "**kwargs")
        fname = dotted(e.func)
        args = None
        if fname == "len":
            return len(self.eval(e.args[0]))
        if fname in ("list", "tuple") and len(e.args) == 1:
            v = self.eval(e.args[0])
            return list(v) if fname == "list" else tuple(v)
        if fname == "str" and len(e.args) == 1:
            v = self.eval(e.args[0])
            if isinstance(v, (str, int)):
                return str(v)
            raise Unfoldable(e)
        if fname == "set" and len(e.args) == 1:
            return set(self.eval(e.args[0]))
        if fname in ("abs", "min", "max", "int", "float", "bool", "round", "sum", "sorted", "range", "divmod") and e.args and not e.keywords:
            vals = [self.eval(a) for a in e.args]
            if all(isinstance(v, (int, float, bool)) or (isinstance(v, (list, tuple)) and all(isinstance(x, (int, float, bool)) for x in v)) for v in vals):
                r = {"abs": abs, "min": min, "max": max, "int": int, "float": float, "bool": bool, "round": round, "sum": sum, "sorted": sorted,
                     "range": lambda *a: list(range(*a)), "divmod": divmod}[fname](*vals)
                return r
        if fname in ("re.compile",) and e.args:
            return re.compile(self.eval(e.args[0]))
        f = self.eval(e.func)
        args = [self.eval(a) for a in e.args]
        kwargs = {k.arg: self.eval(k.value) for k in e.keywords}
        if isinstance(f, tuple) and f[0] == "pymethod":
            _, recv, name = f
            if isinstance(recv, str) and name in self._STR_METHODS:
                return getattr(recv, name)(*args, **kwargs)
            if isinstance(recv, (list, tuple)) and name in ("index", "count", "copy"):
                return getattr(recv, name)(*args)
            if isinstance(recv, dict) and name in ("keys", "values", "items", "get"):
                r = getattr(recv, name)(*args)
                return list(r) if name != "get" else r
            if isinstance(recv, re.Pattern) and name in ("match", "search", "fullmatch"):
                m = getattr(recv, name)(*args)
                return ReMatch(m) if m is not None else None
            if isinstance(recv, ReMatch) and name == "group":
                return recv.m.group(*args)
            raise Unfoldable(e, f"method {name}")
        if isinstance(f, tuple) and f[0] == "bound":
            _, rec, m = f
            return self._call_def(m, [rec] + args, kwargs, e)
        if isinstance(f, Def):
            return self._call_def(f, args, kwargs, e)
        if isinstance(f, ClassInfo):
            fields = namedtuple_fields(f)
            if fields and "NamedTuple" in " ".join(f.ext_bases):
                rec = self.default_record(f) if all(d is not None for _, d in fields) else Record(f, {})
                for (n, _), a in zip(fields, args):
                    rec.fields[n] = a
                rec.fields.update(kwargs)
                return rec
            raise Unfoldable(e, "constructor")
        if isinstance(f, Sym):
            if f.name in ("re.compile",):
                return re.compile(*args)
            return Sym(f"{f.name}({', '.join(map(repr, args))})")
        raise Unfoldable(e, "call")

    def _call_def(self, d: Def, args, kwargs, e):
        """Inline a def whose body is (assignments; return expr), all foldable."""
        if d.is_lambda:
            body = d.body
        else:
            body = [s for s in d.node.body
                    if not (isinstance(s, ast.Expr) and isinstance(s.value, ast.Constant))]
        env = {}
        a = d.node.args
        params = [x.arg for x in a.posonlyargs + a.args]
        defaults = a.defaults
        for p, v in zip(params, args):
            env[p] = v
        ndef = len(defaults)
        for i, p in enumerate(params):
            if p not in env:
                j = i - (len(params) - ndef)
                if p in kwargs:
                    env[p] = kwargs[p]
                elif j >= 0:
                    env[p] = Folder(self.repo, d.module, d.parent).eval(defaults[j])
                else:
                    raise Unfoldable(e, f"missing argument {p}")
        for k, dflt in zip(a.kwonlyargs, a.kw_defaults):
            if k.arg in kwargs:
                env[k.arg] = kwargs[k.arg]
            elif dflt is not None:
                env[k.arg] = Folder(self.repo, d.module, d.parent).eval(dflt)
        sub = Folder(self.repo, d.module, d, env)
        sub._depth = self._depth
        for s in body:
            if isinstance(s, ast.Assign) and len(s.targets) == 1:
                _bind(sub.env, s.targets[0], sub.eval(s.value))
            elif isinstance(s, ast.Return):
                return sub.eval(s.value) if s.value is not None else None
            else:
                raise Unfoldable(s, "statement kind in inlined def")
        return None


def _bind(env: dict, target: ast.AST, value) -> None:
    if isinstance(target, ast.Name):
        env[target.id] = value
    elif isinstance(target, (ast.Tuple, ast.List)):
        vals = list(value)
        if len(vals) != len(target.elts):
            raise Unfoldable(target, "unpack length")
        for t, v in zip(target.elts, vals):
            _bind(env, t, v)
    else:
        raise Unfoldable(target, "target")
