"""E2 -- call graph with strong / weak edges (see DESIGN 2.2)."""

from __future__ import annotations

import ast
from dataclasses import dataclass
from typing import Optional

from .model import ClassInfo, Def, Repo, calls_in, dotted, own_nodes
from .types import Typer


@dataclass(eq=False)
class Edge:
    caller: Def
    call: ast.AST  # ast.Call or the expression performing a protocol call
    callee: Optional[Def]
    strength: str  # 'strong' | 'weak' | 'ext' | 'local' | 'unknown'
    kind: str  # 'call' | 'init' | 'callback' | 'protocol' | 'virtual'
    ext: Optional[str] = None
    recv: Optional[ClassInfo] = None  # static class of the receiver (method calls)
    via_self: bool = False  # receiver is the caller's own `self`/`cls`
    method: Optional[str] = None

    def __repr__(self) -> str:
        c = self.callee.qualname if self.callee else (self.ext or "?")
        return f"<{self.caller.qualname} -> {c} [{self.strength}/{self.kind}] L{getattr(self.call, 'lineno', 0)}>"


class CallGraph:
    def __init__(self, repo: Repo, typer: Optional[Typer] = None):
        self.repo = repo
        self.typer = typer or Typer(repo)
        self.edges: list[Edge] = []
        self.out: dict[Def, list[Edge]] = {}
        self.inc: dict[Def, list[Edge]] = {}
        self._methods_by_name: dict[str, list[Def]] = {}
        for d in repo.defs.values():
            if d.cls is not None:
                self._methods_by_name.setdefault(d.name, []).append(d)
        for d in list(repo.defs.values()):
            self._scan(d)

    # -------------------------------------------------------------- building
    def _add(self, e: Edge) -> None:
        self._annotate(e)
        self.edges.append(e)
        self.out.setdefault(e.caller, []).append(e)
        if e.callee is not None:
            self.inc.setdefault(e.callee, []).append(e)

    def _annotate(self, e: Edge) -> None:
        """Record receiver class / self-ness for method and protocol calls."""
        if e.callee is None or e.callee.cls is None or e.kind in ("init", "callback"):
            return
        n = e.call
        recv_expr = None
        if isinstance(n, ast.Call) and isinstance(n.func, ast.Attribute):
            recv_expr = n.func.value
            e.method = n.func.attr
            if isinstance(n.func.value, ast.Call) and isinstance(n.func.value.func, ast.Name) \
                    and n.func.value.func.id == "super":
                return
        elif isinstance(n, ast.Call) and isinstance(n.func, ast.Name) and n.func.id == "len" and n.args:
            recv_expr, e.method = n.args[0], "__len__"
        elif isinstance(n, ast.Subscript):
            recv_expr = n.value
            e.method = "__getitem__" if isinstance(n.ctx, ast.Load) else "__setitem__"
        elif isinstance(n, (ast.For, ast.comprehension)):
            recv_expr, e.method = n.iter, "__iter__"
        elif isinstance(n, ast.Attribute):
            recv_expr, e.method = n.value, e.callee.name
        else:
            return
        if e.method is None:
            e.method = e.callee.name
        t = self.typer.type_of(recv_expr, e.caller)
        if isinstance(t, tuple) and t[0] == "class":
            t = t[1]
        if isinstance(t, ClassInfo):
            e.recv = t
        c = e.caller
        if isinstance(recv_expr, ast.Name) and c.cls is not None and c.params \
                and recv_expr.id == c.params[0] and not c.is_staticmethod():
            e.via_self = True

    def reachable_cs(self, entries, exclude_kinds=("callback",)):
        """Receiver-class-sensitive reachability over strong edges.

        entries: iterable of (Def, ClassInfo|None).  A call through the caller's own
        `self` is dispatched against the *context* class (the class of the object the
        entry was invoked on) and its subclasses only, not against every subclass of
        the class that happens to define the calling method.
        Returns (list of (Def, ctx), adjacency dict)."""
        seen = {}
        order = []
        adj = {}
        stack = [(d, k if k is not None else d.cls) for d, k in entries]
        while stack:
            node = stack.pop()
            if node in seen:
                continue
            seen[node] = True
            order.append(node)
            d, K = node
            outs = []
            for e in self.out.get(d, []):
                if e.callee is None or e.strength != "strong" or e.kind in exclude_kinds:
                    continue
                cal = e.callee
                if e.method is not None and cal.cls is not None and e.kind != "init":
                    ctx_cls = K if (e.via_self and K is not None) else e.recv
                    if ctx_cls is not None:
                        valid = {id(m) for m, _ in self._method_targets(ctx_cls, e.method)}
                        if id(cal) not in valid and valid:
                            continue
                        nk = ctx_cls if ctx_cls.is_subclass_of(cal.cls) else cal.cls
                    else:
                        nk = cal.cls
                else:
                    nk = cal.cls if cal.cls is not None else (K if cal.parent is not None else None)
                    # nested defs keep the context of their enclosing method
                    if cal.cls is None and cal.parent is not None:
                        nk = K
                outs.append((cal, nk))
            adj[node] = outs
            stack.extend(outs)
        return order, adj

    def cycles_cs(self, entries, exclude_kinds=("callback",)):
        order, adj = self.reachable_cs(entries, exclude_kinds)
        index, low, onst, st, res = {}, {}, set(), [], []
        counter = [0]
        for root in order:
            if root in index:
                continue
            work = [(root, iter(adj.get(root, [])))]
            index[root] = low[root] = counter[0]
            counter[0] += 1
            st.append(root)
            onst.add(root)
            while work:
                v, it = work[-1]
                adv = False
                for w in it:
                    if w not in index:
                        index[w] = low[w] = counter[0]
                        counter[0] += 1
                        st.append(w)
                        onst.add(w)
                        work.append((w, iter(adj.get(w, []))))
                        adv = True
                        break
                    elif w in onst:
                        low[v] = min(low[v], index[w])
                if adv:
                    continue
                work.pop()
                if work:
                    u = work[-1][0]
                    low[u] = min(low[u], low[v])
                if low[v] == index[v]:
                    comp = []
                    while True:
                        w = st.pop()
                        onst.discard(w)
                        comp.append(w)
                        if w is v:
                            break
                    if len(comp) > 1 or v in adj.get(v, []):
                        res.append([d for d, _ in comp])
        return order, res

    def _method_targets(self, recv: ClassInfo, name: str, virtual: bool = True) -> list[tuple[Def, str]]:
        out = []
        m = recv.lookup_method(name)
        if m is not None:
            out.append((m, "call"))
        if virtual:
            for sub in self.repo.subclasses(recv):
                sm = sub.methods.get(name)
                if sm is not None and sm is not m:
                    out.append((sm, "virtual"))
        return out

    def resolve_callable(self, f: ast.AST, d: Def) -> list[tuple[Optional[Def], str, str, Optional[str]]]:
        """Resolve a callable expression to [(callee, strength, kind, ext)]."""
        repo, ty = self.repo, self.typer
        if isinstance(f, ast.Lambda):
            ld = repo.def_of_node.get(id(f))
            return [(ld, "strong", "call", None)] if ld else []
        if isinstance(f, ast.Name):
            r = repo.lookup_name(f.id, d.module, d)
            if isinstance(r, Def):
                return [(r, "strong", "call", None)]
            if isinstance(r, ClassInfo):
                return self._ctor(r)
            if isinstance(r, tuple):
                if r[0] == "ext":
                    return [(None, "ext", "call", r[1])]
                if r[0] == "builtin":
                    return [(None, "ext", "call", "builtins." + r[1])]
                if r[0] == "local":
                    t = ty.lookup_var(f.id, d)
                    if isinstance(t, tuple) and t[0] == "class":
                        return self._ctor(t[1])
                    if isinstance(t, tuple) and t[0] == "method":
                        return [(t[2], "strong", "call", None)]
                    if isinstance(t, ClassInfo):
                        c = t.lookup_method("__call__")
                        if c is not None:
                            return [(m, "strong", k, None)
                                    for m, k in self._method_targets(t, "__call__")]
                    # single-assignment alias to a def?  fn = self.m / nested
                    tgt = self._local_alias(f.id, d)
                    if tgt:
                        return tgt
                    return [(None, "local", "call", None)]
            return [(None, "unknown", "call", None)]
        if isinstance(f, ast.Attribute):
            # super().m
            v = f.value
            if isinstance(v, ast.Call) and isinstance(v.func, ast.Name) and v.func.id == "super":
                c = repo.enclosing_class(d)
                if c is not None:
                    for k in c.mro()[1:]:
                        if f.attr in k.methods:
                            return [(k.methods[f.attr], "strong", "call", None)]
                    return [(None, "ext", "call", "super()." + f.attr)]
            r = repo.resolve_expr(f, d.module, d)
            # a bare module / class path (not through a local variable)
            base_is_local = isinstance(_root_name(f), str) and _is_local(repo, _root_name(f), d)
            if not base_is_local:
                if isinstance(r, Def):
                    return [(r, "strong", "call", None)]
                if isinstance(r, ClassInfo):
                    return self._ctor(r)
                if isinstance(r, tuple) and r[0] == "ext":
                    return [(None, "ext", "call", r[1])]
            bt = ty.type_of(v, d)
            if isinstance(bt, ClassInfo):
                ts = self._method_targets(bt, f.attr)
                if ts:
                    return [(m, "strong", k, None) for m, k in ts]
                # attribute holding a callable object
                at = ty.attr_type(bt, f.attr)
                if isinstance(at, ClassInfo):
                    return [(m, "strong", k, None)
                            for m, k in self._method_targets(at, "__call__")]
                if isinstance(at, tuple) and at[0] == "class":
                    return self._ctor(at[1])
                return [(None, "unknown", "call", None)]
            if isinstance(bt, tuple) and bt[0] == "class":
                m = bt[1].lookup(f.attr)
                if isinstance(m, Def):
                    out = [(m, "strong", "call", None)]
                    for sub in self.repo.subclasses(bt[1]):
                        sm = sub.methods.get(f.attr)
                        if sm is not None and sm is not m:
                            out.append((sm, "strong", "virtual", None))
                    return out
                if isinstance(m, ClassInfo):
                    return self._ctor(m)
            if isinstance(bt, tuple) and bt[0] in ("ext", "list", "tuple", "dict", "iter"):
                return [(None, "ext", "call", f"<{bt[0]}>.{f.attr}")]
            # unknown receiver: class-hierarchy analysis by name
            cands = self._methods_by_name.get(f.attr, [])
            if cands:
                return [(m, "weak", "call", None) for m in cands]
            return [(None, "ext", "call", "?." + f.attr)]
        if isinstance(f, ast.Call):
            return [(None, "unknown", "call", None)]
        return [(None, "unknown", "call", None)]

    def _ctor(self, c: ClassInfo):
        out = []
        for name in ("__init__", "__new__", "__post_init__"):
            m = c.lookup_method(name)
            if m is not None:
                out.append((m, "strong", "init", None))
        if not out:
            out.append((None, "ext", "init", c.qualname))
        return out

    def _local_alias(self, name: str, d: Def, _depth=[0]):
        if _depth[0] > 4:
            return None
        _depth[0] += 1
        try:
            return self._local_alias_impl(name, d)
        finally:
            _depth[0] -= 1

    def _local_alias_impl(self, name: str, d: Def):
        vals = []
        x = d
        while x is not None:
            for n in own_nodes(x):
                if isinstance(n, ast.Assign):
                    for t in n.targets:
                        if isinstance(t, ast.Name) and t.id == name:
                            vals.append((n.value, x))
            if vals or name in x.params:
                break
            x = x.parent
        if len(vals) != 1:
            return None
        v, owner = vals[0]
        if isinstance(v, ast.Name) and v.id == name:
            return None
        if isinstance(v, (ast.Name, ast.Attribute, ast.Lambda)):
            r = self.resolve_callable(v, owner)
            if r and all(t[1] == "strong" for t in r):
                return r
        return None

    def _scan(self, d: Def) -> None:
        repo, ty = self.repo, self.typer
        for call in calls_in(d):
            targets = self.resolve_callable(call.func, d)
            for callee, strength, kind, ext in targets:
                self._add(Edge(d, call, callee, strength, kind, ext))
            # callbacks handed over as arguments
            for a in list(call.args) + [k.value for k in call.keywords]:
                if isinstance(a, (ast.Name, ast.Attribute, ast.Lambda)):
                    if isinstance(a, ast.Name) and not (
                        a.id in _nested_names(d) or isinstance(
                            repo.lookup_name(a.id, d.module, d), Def)):
                        alias = self._local_alias(a.id, d) if _is_local(repo, a.id, d) else None
                        if not alias:
                            continue
                        for callee, strength, kind, ext in alias:
                            if callee is not None:
                                self._add(Edge(d, call, callee, strength, "callback", None))
                        continue
                    for callee, strength, kind, ext in self.resolve_callable(a, d):
                        if callee is not None and strength == "strong" and kind in ("call", "virtual"):
                            if isinstance(a, ast.Attribute):
                                # only bound methods / functions, not data attributes
                                bt = ty.type_of(a, d)
                                if not (isinstance(bt, tuple) and bt[0] == "method") and \
                                        not isinstance(repo.resolve_expr(a, d.module, d), Def):
                                    continue
                            self._add(Edge(d, call, callee, strength, "callback", None))
        # protocol calls: x[i] -> __getitem__, for .. in x -> __iter__, len(x), with
        for n in own_nodes(d):
            if isinstance(n, ast.Subscript) and isinstance(n.ctx, ast.Load):
                bt = ty.type_of(n.value, d)
                if isinstance(bt, ClassInfo):
                    for m, k in self._method_targets(bt, "__getitem__"):
                        self._add(Edge(d, n, m, "strong", "protocol", None))
            elif isinstance(n, ast.Subscript) and isinstance(n.ctx, ast.Store):
                bt = ty.type_of(n.value, d)
                if isinstance(bt, ClassInfo):
                    for m, k in self._method_targets(bt, "__setitem__"):
                        self._add(Edge(d, n, m, "strong", "protocol", None))
            elif isinstance(n, (ast.For, ast.comprehension)):
                bt = ty.type_of(n.iter, d)
                if isinstance(bt, ClassInfo):
                    for m, k in self._method_targets(bt, "__iter__"):
                        self._add(Edge(d, n, m, "strong", "protocol", None))
            elif isinstance(n, ast.With):
                for item in n.items:
                    bt = ty.type_of(item.context_expr, d)
                    if isinstance(bt, ClassInfo):
                        for nm in ("__enter__", "__exit__"):
                            for m, k in self._method_targets(bt, nm):
                                self._add(Edge(d, item.context_expr, m, "strong", "protocol", None))
            elif isinstance(n, ast.Attribute) and isinstance(n.ctx, ast.Load):
                # property access
                bt = ty.type_of(n.value, d)
                if isinstance(bt, ClassInfo):
                    m = bt.lookup_method(n.attr)
                    if m is not None and m.is_property():
                        self._add(Edge(d, n, m, "strong", "protocol", None))
            elif isinstance(n, ast.Attribute) and isinstance(n.ctx, ast.Store):
                bt = ty.type_of(n.value, d)
                if isinstance(bt, ClassInfo):
                    m = bt.lookup(n.attr + ".setter")
                    if isinstance(m, Def):
                        self._add(Edge(d, n, m, "strong", "protocol", None))
            elif isinstance(n, ast.Call) and isinstance(n.func, ast.Name) and n.func.id == "len" and n.args:
                bt = ty.type_of(n.args[0], d)
                if isinstance(bt, ClassInfo):
                    for m, k in self._method_targets(bt, "__len__"):
                        self._add(Edge(d, n, m, "strong", "protocol", None))

    # -------------------------------------------------------------- queries
    def callees(self, d: Def, strengths=("strong",), kinds=None) -> list[Edge]:
        return [e for e in self.out.get(d, []) if e.strength in strengths
                and (kinds is None or e.kind in kinds)]

    def callers(self, d: Def, strengths=("strong",)) -> list[Edge]:
        return [e for e in self.inc.get(d, []) if e.strength in strengths]

    def reachable(self, entries, strengths=("strong",), exclude_kinds=(), include_nested=True):
        """Defs reachable from entries.  Nested defs of a reachable def are *not*
        automatically reachable unless called / passed (callback edges)."""
        seen, order = set(), []
        stack = list(entries)
        while stack:
            d = stack.pop()
            if d in seen:
                continue
            seen.add(d)
            order.append(d)
            for e in self.out.get(d, []):
                if e.callee is None or e.strength not in strengths or e.kind in exclude_kinds:
                    continue
                stack.append(e.callee)
        return order

    def cycles(self, nodes, strengths=("strong",), exclude_kinds=()):
        """Strongly connected components (size>1 or self-loop) within nodes."""
        nodes = list(nodes)
        idx = {d: i for i, d in enumerate(nodes)}
        adj = {d: [] for d in nodes}
        for d in nodes:
            for e in self.out.get(d, []):
                if e.callee in idx and e.strength in strengths and e.kind not in exclude_kinds:
                    adj[d].append(e.callee)
        # Tarjan (iterative)
        index, low, onst, st, res = {}, {}, set(), [], []
        counter = [0]
        for root in nodes:
            if root in index:
                continue
            work = [(root, iter(adj[root]))]
            index[root] = low[root] = counter[0]
            counter[0] += 1
            st.append(root)
            onst.add(root)
            while work:
                v, it = work[-1]
                adv = False
                for w in it:
                    if w not in index:
                        index[w] = low[w] = counter[0]
                        counter[0] += 1
                        st.append(w)
                        onst.add(w)
                        work.append((w, iter(adj[w])))
                        adv = True
                        break
                    elif w in onst:
                        low[v] = min(low[v], index[w])
                if adv:
                    continue
                work.pop()
                if work:
                    u = work[-1][0]
                    low[u] = min(low[u], low[v])
                if low[v] == index[v]:
                    comp = []
                    while True:
                        w = st.pop()
                        onst.discard(w)
                        comp.append(w)
                        if w is v:
                            break
                    if len(comp) > 1 or v in adj[v]:
                        res.append(comp)
        return res


def _root_name(e: ast.AST):
    while isinstance(e, ast.Attribute):
        e = e.value
    return e.id if isinstance(e, ast.Name) else None


def _is_local(repo: Repo, name: str, d: Def) -> bool:
    r = repo.lookup_name(name, d.module, d)
    return isinstance(r, tuple) and r[0] == "local"


def _nested_names(d: Def) -> set:
    out = set()
    x = d
    while x is not None:
        out.update(x.nested)
        x = x.parent
    return out
