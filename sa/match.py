"""Three-way comparison of a statement/expression of the repository with the form a rule expects.

    same      identical up to a consistent renaming of plain names, or up to the listed
              value-preserving spellings (`x >= 2` ~ `x > 1` on integers, `2 <= x` ~ `x >= 2`)
    leaf      same syntactic skeleton, but a *leaf* differs: a numeric / boolean / None constant,
              an attribute name, an operator, a keyword name, or names that cannot be mapped
              one-to-one.  The statement the rule is about is there, and it says something else.
    other     different skeleton: another way of writing it, or something else altogether --
              the rule cannot tell, so this is never a verdict.

The expected forms are written in the rule as source text with the *current* local names; they
are not compared as text but as trees, so renaming locals in the repository keeps `same`.
String constants inside `raise` / `warn` calls and docstrings are ignored.
"""

from __future__ import annotations

import ast
from typing import Iterable, Optional, Union

SAME, LEAF, OTHER = "same", "leaf", "other"
_GLOBALS = ("np", "numpy", "math", "self", "cls", "len", "range", "zip", "enumerate", "list", "dict", "set", "tuple", "int",
            "float", "str", "bool", "min", "max", "abs", "sum", "sorted", "reversed", "isinstance", "any", "all", "map",
            "True", "False", "None", "super", "ValueError", "TypeError", "IndexError", "KeyError", "warnings", "itertools")


def _parse(src: str) -> ast.AST:
    try:
        m = ast.parse(src)
    except SyntaxError:
        m = ast.parse("(" + src + ")")
    from . import normal
    # the form a rule expects is brought to the same canonical spelling as the repository's code (sa/normal.py);
    # wrapped in a function so that the function-level steps (annotations, temporaries) apply
    if m.body and all(isinstance(x, ast.stmt) for x in m.body):
        try:
            w = ast.parse("def _f_():\n    pass")
            w.body[0].body = m.body
            w = normal.normalise(w)
            m.body = w.body[0].body
        except Exception:  # noqa: BLE001 -- a form with `return`/`continue` outside its context etc.: leave as written
            pass
    if len(m.body) == 1:
        s = m.body[0]
        return s.value if isinstance(s, ast.Expr) else s
    return m


_REDUCTIONS = ("min", "max", "sum", "mean", "argmax", "argmin", "any", "all", "cumsum", "prod")


class _Canon(ast.NodeTransformer):
    """value-preserving spellings brought to one form"""

    def visit_Compare(self, n: ast.Compare):
        self.generic_visit(n)
        if len(n.ops) == 1:
            a, op, b = n.left, n.ops[0], n.comparators[0]
            # constant on the right
            if _int(a) is not None and _int(b) is None:
                flip = {ast.Lt: ast.Gt, ast.Gt: ast.Lt, ast.LtE: ast.GtE, ast.GtE: ast.LtE, ast.Eq: ast.Eq, ast.NotEq: ast.NotEq}
                if type(op) in flip:
                    a, b, op = b, a, flip[type(op)]()
            k = _int(b)
            if k is not None and _is_count(a):
                if isinstance(op, ast.GtE):
                    op, b = ast.Gt(), ast.Constant(k - 1)
                elif isinstance(op, ast.LtE):
                    op, b = ast.Lt(), ast.Constant(k + 1)
            return ast.Compare(left=a, ops=[op], comparators=[b])
        return n

    def visit_UnaryOp(self, n: ast.UnaryOp):
        self.generic_visit(n)
        if isinstance(n.op, ast.USub) and isinstance(n.operand, ast.Constant) and isinstance(n.operand.value, (int, float)):
            return ast.Constant(-n.operand.value)
        return n

    def visit_Expr(self, n: ast.Expr):
        self.generic_visit(n)
        return n

    @staticmethod
    def _truth(t):
        """`len(x) != 0`, `len(x) > 0`, `len(x) >= 1`, `len(x)` in a boolean position -> `x`; `len(x) == 0` -> `not x`"""
        if isinstance(t, ast.Call) and isinstance(t.func, ast.Name) and t.func.id == "len" and len(t.args) == 1 and not t.keywords:
            return t.args[0]
        if isinstance(t, ast.Compare) and len(t.ops) == 1 and isinstance(t.left, ast.Call) and isinstance(t.left.func, ast.Name) \
                and t.left.func.id == "len" and len(t.left.args) == 1 and isinstance(t.comparators[0], ast.Constant):
            k, op = t.comparators[0].value, t.ops[0]
            if (isinstance(op, (ast.NotEq, ast.Gt)) and k == 0) or (isinstance(op, ast.GtE) and k == 1):
                return t.left.args[0]
            if (isinstance(op, ast.Eq) and k == 0) or (isinstance(op, ast.Lt) and k == 1):
                return ast.UnaryOp(op=ast.Not(), operand=t.left.args[0])
        return t

    def visit_While(self, n: ast.While):
        self.generic_visit(n)
        n.test = self._truth(n.test)
        return n

    def visit_If(self, n: ast.If):
        self.generic_visit(n)
        n.test = self._truth(n.test)
        return n

    def visit_For(self, n: ast.For):
        self.generic_visit(n)
        # `for x in it: seq.append(e)`  ==  `seq.extend(e for x in it)`
        if len(n.body) == 1 and not n.orelse and isinstance(n.body[0], ast.Expr) and isinstance(n.body[0].value, ast.Call):
            c = n.body[0].value
            if isinstance(c.func, ast.Attribute) and c.func.attr == "append" and len(c.args) == 1 and not c.keywords:
                gen = ast.GeneratorExp(elt=c.args[0], generators=[ast.comprehension(target=n.target, iter=n.iter, ifs=[], is_async=0)])
                return ast.Expr(value=ast.Call(func=ast.Attribute(value=c.func.value, attr="extend", ctx=ast.Load()), args=[gen], keywords=[]))
        return n

    def visit_Slice(self, n: ast.Slice):
        self.generic_visit(n)
        lo = None if (isinstance(n.lower, ast.Constant) and n.lower.value == 0) else n.lower
        st = None if (isinstance(n.step, ast.Constant) and n.step.value == 1) else n.step
        return ast.Slice(lower=lo, upper=n.upper, step=st)

    def visit_AnnAssign(self, n: ast.AnnAssign):
        self.generic_visit(n)
        if n.value is not None:
            return ast.Assign(targets=[n.target], value=n.value)  # the annotation says nothing at run time
        return n

    def visit_Call(self, n: ast.Call):
        self.generic_visit(n)
        # dict(zip(a, range(len(a))))  ==  {k: i for i, k in enumerate(a)}
        if isinstance(n.func, ast.Name) and n.func.id == "dict" and len(n.args) == 1 and not n.keywords and isinstance(n.args[0], ast.Call) \
                and isinstance(n.args[0].func, ast.Name) and n.args[0].func.id == "zip" and len(n.args[0].args) == 2:
            ks, vs = n.args[0].args
            if isinstance(vs, ast.Call) and isinstance(vs.func, ast.Name) and vs.func.id == "range" and len(vs.args) == 1 \
                    and isinstance(vs.args[0], ast.Call) and isinstance(vs.args[0].func, ast.Name) and vs.args[0].func.id == "len" \
                    and len(vs.args[0].args) == 1 and ast.dump(vs.args[0].args[0]) == ast.dump(ks):
                return ast.DictComp(key=ast.Name(id="_k", ctx=ast.Load()), value=ast.Name(id="_i", ctx=ast.Load()),
                                    generators=[ast.comprehension(target=ast.Tuple(elts=[ast.Name(id="_i", ctx=ast.Store()), ast.Name(id="_k", ctx=ast.Store())], ctx=ast.Store()),
                                                                  iter=ast.Call(func=ast.Name(id="enumerate", ctx=ast.Load()), args=[ks], keywords=[]), ifs=[], is_async=0)])
        # np.min(x, axis=0) and x.min(axis=0) are the same reduction
        if isinstance(n.func, ast.Attribute) and isinstance(n.func.value, ast.Name) and n.func.value.id in ("np", "numpy") \
                and n.func.attr in _REDUCTIONS and n.args and not isinstance(n.args[0], (ast.List, ast.Tuple, ast.ListComp, ast.GeneratorExp, ast.Starred)):
            return ast.Call(func=ast.Attribute(value=n.args[0], attr=n.func.attr, ctx=ast.Load()), args=n.args[1:], keywords=n.keywords)
        return n


def _int(e) -> Optional[int]:
    if isinstance(e, ast.Constant) and isinstance(e.value, int) and not isinstance(e.value, bool):
        return e.value
    if isinstance(e, ast.UnaryOp) and isinstance(e.op, ast.USub):
        v = _int(e.operand)
        return -v if v is not None else None
    return None


def _is_count(e) -> bool:
    if isinstance(e, ast.Call):
        f = e.func
        name = f.id if isinstance(f, ast.Name) else (f.attr if isinstance(f, ast.Attribute) else "")
        return name in ("len", "count_nonzero", "count", "number_of_nodes", "number_of_edges")
    return False


def canon(n: ast.AST) -> ast.AST:
    import copy
    return ast.fix_missing_locations(_Canon().visit(copy.deepcopy(n)))


_IGNORED_STR_CALLS = ("warn", "warning", "error", "info", "debug")


_CTX = {"count": 0, "strict_names": True}


def _is_new(name: str) -> bool:
    import re
    return re.match(r"_n\d+_", name) is not None


def _diff(a, b, names: dict, rnames: dict, out: list, in_msg=False) -> bool:
    """False if the skeletons differ.  Leaf differences are appended to out."""
    if (isinstance(a, ast.Call) and _is_count(a)) or (isinstance(a, ast.Attribute) and a.attr in ("shape", "size")):
        if not getattr(a, "_cnt", False):
            a._cnt = True
            _CTX["count"] += 1
            try:
                return _diff(a, b, names, rnames, out, in_msg)
            finally:
                _CTX["count"] -= 1
                a._cnt = False
    if isinstance(b, ast.Name) and b.id.startswith("_any"):
        return True  # wildcard in the expected form: anything may stand here
    # `np.sort(e)` / `sorted(e)` / `reversed(e)` / `np.unique(e)` where `e` is expected (or the other way round): the same values in
    # another order (or without repetitions) -- a leaf, not another shape
    for wrapped, plain, flip in ((a, b, False), (b, a, True)):
        if isinstance(wrapped, ast.Call) and len(wrapped.args) >= 1 and not isinstance(plain, ast.Call) or \
                (isinstance(wrapped, ast.Call) and isinstance(plain, ast.Call) and len(wrapped.args) >= 1 and ast.dump(wrapped.func) != ast.dump(plain.func)):
            f = wrapped.func
            nm = f.attr if isinstance(f, ast.Attribute) else (f.id if isinstance(f, ast.Name) else "")
            if nm in ("sort", "sorted", "reversed", "flip", "unique", "flipud", "fliplr") and len(wrapped.args) == 1 and not wrapped.keywords:
                n1, r1, o1 = dict(names), dict(rnames), []
                ok = _diff(plain, wrapped.args[0], n1, r1, o1, in_msg) if flip else _diff(wrapped.args[0], plain, n1, r1, o1, in_msg)
                if ok and not o1:
                    names.update(n1); rnames.update(r1)
                    out.append(("order", ast.unparse(a)[:60], ast.unparse(b)[:60]))
                    return True
    if type(a) is not type(b):
        # operator nodes are leaves
        if isinstance(a, (ast.operator, ast.cmpop, ast.unaryop, ast.boolop)) and isinstance(b, type(a).__mro__[1]):
            out.append(("operator", type(a).__name__, type(b).__name__))
            return True
        # `x` against `x - 1` / `x + 1`: the same operand with a constant offset is a leaf (an off-by-one), not another shape
        # `x[:, :3]` against `x`: a literal index / slice more or less on the same thing
        for sub, plain, flip in ((a, b, False), (b, a, True)):
            if isinstance(sub, ast.Subscript) and _literal_index(sub.slice) and isinstance(plain, (ast.Name, ast.Attribute, ast.Call)) \
                    and not (isinstance(sub.slice, ast.Slice) and sub.slice.lower is None and sub.slice.upper is None and sub.slice.step is None):
                n1, r1, o1 = dict(names), dict(rnames), []
                ok = _diff(plain, sub.value, n1, r1, o1, in_msg) if flip else _diff(sub.value, plain, n1, r1, o1, in_msg)
                if ok and not o1:
                    names.update(n1); rnames.update(r1)
                    out.append(("subscript", ast.unparse(a)[:60], ast.unparse(b)[:60]))
                    return True
        # `x is None` against `not x` (and `x is not None` against `x`): they differ for every falsy x that is not None
        for none_t, truth_t in ((a, b), (b, a)):
            if isinstance(none_t, ast.Compare) and len(none_t.ops) == 1 and isinstance(none_t.ops[0], (ast.Is, ast.IsNot)) \
                    and isinstance(none_t.comparators[0], ast.Constant) and none_t.comparators[0].value is None:
                want_not = isinstance(none_t.ops[0], ast.Is)
                t = truth_t
                if want_not and isinstance(t, ast.UnaryOp) and isinstance(t.op, ast.Not):
                    t = t.operand
                elif want_not:
                    continue
                n1, r1, o1 = dict(names), dict(rnames), []
                ok = _diff(none_t.left, t, n1, r1, o1, in_msg) if none_t is a else _diff(t, none_t.left, n1, r1, o1, in_msg)
                if ok and not o1:
                    names.update(n1); rnames.update(r1)
                    out.append(("none-test", ast.unparse(a)[:60], ast.unparse(b)[:60]))
                    return True
        # a term more or less: `x + e` / `x - e` against `x` differ unless e is zero
        for with_off, plain, flip in ((a, b, False), (b, a, True)):
            if isinstance(with_off, ast.BinOp) and isinstance(with_off.op, (ast.Add, ast.Sub)) \
                    and not (isinstance(with_off.right, ast.Constant) and with_off.right.value == 0) \
                    and isinstance(plain, (ast.Name, ast.Attribute, ast.Subscript, ast.Call)):
                n1, r1, o1 = dict(names), dict(rnames), []
                ok = _diff(plain, with_off.left, n1, r1, o1, in_msg) if flip else _diff(with_off.left, plain, n1, r1, o1, in_msg)
                if ok and not o1:
                    names.update(n1); rnames.update(r1)
                    out.append(("offset" if isinstance(with_off.right, ast.Constant) else "term", ast.unparse(a), ast.unparse(b)))
                    return True
        return False
    if isinstance(a, ast.Name):
        # the renaming is a *function* from the repository's names to the rule's role names: one name of
        # the repository cannot play two roles of the rule, but two names may share a role (a refactoring
        # that splits a re-bound variable into two)
        # local names are canonical (sa/names.py): a local of the repository that corresponds to a local of the tree the
        # rule was written on carries that name, so it must BE the expected name; only locals without counterpart
        # (`_n<k>_...`) and comprehension / lambda variables (scoped below) are matched up to a consistent renaming
        scoped = a.id in _CTX.get("scoped", ()) or b.id in _CTX.get("scoped_b", ())
        if a.id != b.id and not scoped and not _is_new(a.id) and not b.id.startswith("_") and _CTX.get("strict_names"):
            out.append(("name-in-count" if _CTX["count"] else "name", a.id, b.id))
            return True
        if names.get(a.id, b.id) != b.id:
            # parallel arrays have the same length: another name inside len(.) / .shape is no evidence of a difference
            out.append(("name-in-count" if _CTX["count"] else "name", a.id, b.id))
        names.setdefault(a.id, b.id)
        rnames.setdefault(b.id, a.id)
        return True
    if isinstance(a, ast.Constant):
        if a.value != b.value or type(a.value) is not type(b.value):
            if isinstance(a.value, str) and isinstance(b.value, str) and in_msg:
                return True
            if isinstance(a.value, (int, float)) and isinstance(b.value, (int, float)) and not isinstance(a.value, bool) \
                    and not isinstance(b.value, bool) and a.value == b.value:
                return True
            out.append(("constant", repr(a.value), repr(b.value)))
        return True
    if isinstance(a, ast.Attribute):
        if a.attr != b.attr:
            out.append(("attribute", a.attr, b.attr))
        return _diff(a.value, b.value, names, rnames, out, in_msg)
    if isinstance(a, ast.keyword):
        if a.arg != b.arg:
            out.append(("keyword", a.arg, b.arg))
        return _diff(a.value, b.value, names, rnames, out, in_msg)
    if isinstance(a, ast.arg):
        return True
    if isinstance(a, (ast.ListComp, ast.SetComp, ast.DictComp, ast.GeneratorExp)) and not getattr(a, "_scoped", False):
        # comprehension variables are local to the comprehension: renamed independently
        ta = {x.id for g in a.generators for x in ast.walk(g.target) if isinstance(x, ast.Name)}
        tb = {x.id for g in b.generators for x in ast.walk(g.target) if isinstance(x, ast.Name)}
        n2 = {k: v for k, v in names.items() if k not in ta and v not in tb}
        r2 = {k: v for k, v in rnames.items() if k not in tb and v not in ta}
        a._scoped = True
        sc_a, sc_b = _CTX.get("scoped", frozenset()), _CTX.get("scoped_b", frozenset())
        _CTX["scoped"], _CTX["scoped_b"] = frozenset(sc_a | ta), frozenset(sc_b | tb)
        try:
            # generators first (they bind), then the element
            ok = True
            if len(a.generators) != len(b.generators):
                return False
            for ga, gb in zip(a.generators, b.generators):
                if not _diff(ga, gb, n2, r2, out, in_msg):
                    ok = False
                    break
            if ok:
                rest = [(f, v) for f, v in ast.iter_fields(a) if f != "generators"]
                for f, va in rest:
                    vb = getattr(b, f)
                    if not _diff(va, vb, n2, r2, out, in_msg):
                        ok = False
                        break
            if ok:
                # names that are not comprehension variables belong to the enclosing scope
                for k, v in n2.items():
                    if k in ta or v in tb:
                        continue
                    if names.get(k, v) != v:
                        out.append(("name", k, v))
                    names.setdefault(k, v)
                    rnames.setdefault(v, k)
            return ok
        finally:
            a._scoped = False
            _CTX["scoped"], _CTX["scoped_b"] = sc_a, sc_b
    if isinstance(a, ast.Lambda) and isinstance(b, ast.Lambda) and not getattr(a, "_lscoped", False):
        pa = {x.arg for x in a.args.posonlyargs + a.args.args + a.args.kwonlyargs}
        pb = {x.arg for x in b.args.posonlyargs + b.args.args + b.args.kwonlyargs}
        sc_a, sc_b = _CTX.get("scoped", frozenset()), _CTX.get("scoped_b", frozenset())
        _CTX["scoped"], _CTX["scoped_b"] = frozenset(sc_a | pa), frozenset(sc_b | pb)
        a._lscoped = True
        try:
            return _diff(a, b, names, rnames, out, in_msg)
        finally:
            a._lscoped = False
            _CTX["scoped"], _CTX["scoped_b"] = sc_a, sc_b
    msg = in_msg
    if isinstance(a, ast.Raise):
        msg = True
    if isinstance(a, ast.Call):
        f = a.func
        nm = f.attr if isinstance(f, ast.Attribute) else (f.id if isinstance(f, ast.Name) else "")
        if nm in _IGNORED_STR_CALLS:
            msg = True
    if isinstance(a, ast.BinOp) and isinstance(b, ast.BinOp) and type(a.op) is type(b.op) and not getattr(a, "_swapped", False):
        # try as written; if the skeletons differ, try with the operands exchanged: the same for + and *,
        # a leaf difference ("operands swapped") for - and /
        n1, r1, o1 = dict(names), dict(rnames), []
        if _diff(a.left, b.left, n1, r1, o1, in_msg) and _diff(a.right, b.right, n1, r1, o1, in_msg):
            names.update(n1); rnames.update(r1); out.extend(o1)
            return True
        n2, r2, o2 = dict(names), dict(rnames), []
        if _diff(a.left, b.right, n2, r2, o2, in_msg) and _diff(a.right, b.left, n2, r2, o2, in_msg):
            names.update(n2); rnames.update(r2); out.extend(o2)
            if not isinstance(a.op, (ast.Add, ast.Mult)):
                out.append(("operands", "swapped " + ast.unparse(a), ast.unparse(b)))
            return True
        return False
    if isinstance(a, ast.Call) and not a.keywords and not b.keywords and {len(a.args), len(b.args)} == {0, 1}:
        # `s.pop()` vs `s.pop(0)`: one literal argument more or less is a leaf, not another shape
        extra = (a.args or b.args)[0]
        if isinstance(extra, ast.Constant) and _diff(a.func, b.func, names, rnames, out, msg):
            out.append(("argument", ast.unparse(a), ast.unparse(b)))
            return True
        return False
    if isinstance(a, ast.Subscript) and _literal_index(a.slice) and _literal_index(b.slice) and ast.dump(a.slice) != ast.dump(b.slice):
        # `x[0]` against `x[:-1]`, `x[1:]` against `x[:-1]`: another literal index/slice of the same thing is a leaf
        n1, r1, o1 = dict(names), dict(rnames), []
        if _diff(a.value, b.value, n1, r1, o1, in_msg):
            names.update(n1); rnames.update(r1); out.extend(o1)
            out.append(("subscript", ast.unparse(a), ast.unparse(b)))
            return True
        return False
    if isinstance(a, ast.Call) and len(a.args) == len(b.args) >= 2 and len(a.keywords) == len(b.keywords) and not getattr(a, "_argswap", False):
        n1, r1, o1 = dict(names), dict(rnames), []
        a._argswap = True
        try:
            straight = _diff(a, b, n1, r1, o1, msg)
            if straight and not o1:
                names.update(n1); rnames.update(r1)
                return True
            # the same arguments in another order (two exchanged)?
            for i in range(len(a.args)):
                for j in range(i + 1, len(a.args)):
                    sw = list(a.args)
                    sw[i], sw[j] = sw[j], sw[i]
                    a2 = ast.Call(func=a.func, args=sw, keywords=a.keywords)
                    a2._argswap = True
                    n2, r2, o2 = dict(names), dict(rnames), []
                    if _diff(a2, b, n2, r2, o2, msg) and not o2:
                        names.update(n2); rnames.update(r2)
                        out.append(("arguments", f"{ast.unparse(a.args[i])}, {ast.unparse(a.args[j])} exchanged in {ast.unparse(a)[:60]}", ast.unparse(b)[:60]))
                        return True
            if straight:
                names.update(n1); rnames.update(r1); out.extend(o1)
            return straight
        finally:
            a._argswap = False
    for (fa, va), (fb, vb) in zip(ast.iter_fields(a), ast.iter_fields(b)):
        if fa in ("ctx", "type_comment", "lineno", "col_offset", "end_lineno", "end_col_offset", "kind", "returns", "decorator_list", "annotation"):
            continue
        if isinstance(va, list) or isinstance(vb, list):
            if not (isinstance(va, list) and isinstance(vb, list)) or len(va) != len(vb):
                return False
            for x, y in zip(va, vb):
                if isinstance(x, ast.AST) and isinstance(y, ast.AST):
                    if not _diff(x, y, names, rnames, out, msg):
                        return False
                elif x != y:
                    out.append(("value", repr(x), repr(y)))
        elif isinstance(va, ast.AST) or isinstance(vb, ast.AST):
            if not (isinstance(va, ast.AST) and isinstance(vb, ast.AST)):
                if va is None or vb is None:
                    return False
                return False
            if not _diff(va, vb, names, rnames, out, msg):
                return False
        elif va != vb:
            out.append(("value", repr(va), repr(vb)))
    return True


def _collapse_swaps(out: list) -> list:
    """two name differences that are one exchange (`x` where `y`, `y` where `x`) are ONE difference"""
    res, used = [], set()
    for i, (k, a, b) in enumerate(out):
        if i in used:
            continue
        if k == "name":
            j = next((j for j in range(i + 1, len(out)) if j not in used and out[j][0] == "name" and out[j][1] == b and out[j][2] == a), None)
            if j is not None:
                used.add(j)
                res.append(("names", f"{a}, {b} exchanged", f"{b}, {a}"))
                continue
        res.append((k, a, b))
    return res


def _same_binding(a, b) -> bool:
    """both are plain assignments binding the same simple name(s): the bound name identifies the statement however small it is"""
    if isinstance(a, ast.Assign) and isinstance(b, ast.Assign):
        ta = [t.id for t in a.targets if isinstance(t, ast.Name)]
        tb = [t.id for t in b.targets if isinstance(t, ast.Name)]
        return bool(ta) and ta == tb and len(ta) == len(a.targets) == len(b.targets)
    return False


def _target_mismatch(stmt, diffs) -> int:
    tg = set()
    if isinstance(stmt, ast.Assign):
        tg = {t.id for t in stmt.targets if isinstance(t, ast.Name)}
    elif isinstance(stmt, (ast.AugAssign, ast.AnnAssign)) and isinstance(stmt.target, ast.Name):
        tg = {stmt.target.id}
    return 1 if any(k == "name" and a in tg for k, a, _ in diffs) else 0


def _literal_index(e) -> bool:
    """an index / slice / tuple of them written with integer literals only (`0`, `-1`, `1:`, `:-1`, `::2`, `..., 0`)"""
    if isinstance(e, ast.Constant):
        return isinstance(e.value, int) or e.value is Ellipsis
    if isinstance(e, ast.UnaryOp) and isinstance(e.op, ast.USub):
        return _literal_index(e.operand)
    if isinstance(e, ast.Slice):
        return all(x is None or _literal_index(x) for x in (e.lower, e.upper, e.step))
    if isinstance(e, ast.Tuple):
        return all(_literal_index(x) for x in e.elts)
    return False


def compare(actual: Union[ast.AST, str, None], expected: Union[ast.AST, str], fixed_names: Iterable[str] = ()) -> tuple:
    """-> (SAME | LEAF | OTHER, [leaf differences])

    fixed_names: names that may NOT be renamed (module-level functions, parameters whose role
    matters ...): a difference there is a leaf difference."""
    if actual is None:
        return OTHER, []
    a = canon(_parse(actual) if isinstance(actual, str) else actual)
    b = canon(_parse(expected) if isinstance(expected, str) else expected)
    if isinstance(a, ast.Expr):
        a = a.value
    if isinstance(b, ast.Expr):
        b = b.value
    out: list = []
    names = {n: n for n in fixed_names}
    rnames = {n: n for n in fixed_names}
    for g in _GLOBALS:
        names.setdefault(g, g)
        rnames.setdefault(g, g)
    if not _diff(a, b, names, rnames, out):
        return OTHER, []
    out = _collapse_swaps(out)
    if any(k == "name-in-count" for k, _, _ in out):
        return OTHER, []
    return (SAME if not out else LEAF), out


def best(actual, accepted: Iterable[Union[str, ast.AST]], fixed_names: Iterable[str] = ()):
    """Compare with several accepted forms: SAME if any is the same; LEAF if none is the same but
    some has the same skeleton (the differences w.r.t. the closest form are returned)."""
    leaf = None
    for e in accepted:
        v, d = compare(actual, e, fixed_names)
        if v == SAME:
            return SAME, []
        if v == LEAF and (leaf is None or len(d) < len(leaf)):
            leaf = d
    if leaf is not None:
        return LEAF, leaf
    return OTHER, []


def find(stmts: Iterable[ast.AST], accepted: Iterable[Union[str, ast.AST]], fixed_names: Iterable[str] = ()):
    """Search statements (and their sub-statements) for an accepted form.
    -> (SAME, node, []) | (LEAF, node, diffs) for the closest same-skeleton statement | (OTHER, None, [])"""
    accepted = list(accepted)
    cand = None
    for s in stmts:
        for n in ast.walk(s):
            if not isinstance(n, (ast.stmt, ast.expr)):
                continue
            v, d = best(n, accepted, fixed_names)
            if v == SAME:
                return SAME, n, []
            if v == LEAF and isinstance(n, ast.stmt) and len(d) <= 2 and len(d) * 3 <= leaves(n) \
                    and (cand is None or (_target_mismatch(n, d), len(d)) < (_target_mismatch(cand[0], cand[1]), len(cand[1]))):
                cand = (n, d)  # close enough to be *the* statement the rule is about
    if cand is not None:
        return LEAF, cand[0], cand[1]
    return OTHER, None, []


_IMPURE = {"pop", "popleft", "next", "read", "readline", "append", "extend", "add", "remove", "send", "sample", "random", "choice", "shuffle"}


def _temps(stmts) -> dict:
    """local names with exactly one plain assignment whose value can be re-evaluated at the point of use
    (no consuming / mutating / random call): name -> value"""
    defs: dict = {}
    bad = set()
    for s in stmts:
        for n in ast.walk(s):
            if isinstance(n, (ast.Assign, ast.AnnAssign)) and getattr(n, "value", None) is not None:
                tgts = n.targets if isinstance(n, ast.Assign) else [n.target]
                for t in tgts:
                    if isinstance(t, ast.Name):
                        defs.setdefault(t.id, []).append(n.value)
                    elif isinstance(t, (ast.Subscript, ast.Attribute)):
                        b = t
                        while isinstance(b, (ast.Subscript, ast.Attribute)):
                            b = b.value
                        if isinstance(b, ast.Name):
                            bad.add(b.id)   # stored into: a container, not a temporary
                    elif isinstance(t, (ast.Tuple, ast.List)):
                        if isinstance(n.value, (ast.Tuple, ast.List)) and len(n.value.elts) == len(t.elts):
                            for tt, vv in zip(t.elts, n.value.elts):
                                if isinstance(tt, ast.Name):
                                    defs.setdefault(tt.id, []).append(vv)
                                else:
                                    bad |= {x.id for x in ast.walk(tt) if isinstance(x, ast.Name)}
                        else:
                            bad |= {x.id for x in ast.walk(t) if isinstance(x, ast.Name)}
            elif isinstance(n, ast.AugAssign):
                # the object is changed in place: not a temporary
                t = n.target
                while isinstance(t, (ast.Subscript, ast.Attribute)):
                    t = t.value
                if isinstance(t, ast.Name):
                    bad.add(t.id)
            elif isinstance(n, ast.Call) and isinstance(n.func, ast.Attribute) and isinstance(n.func.value, ast.Name) and \
                    n.func.attr in (_IMPURE | {"update", "insert", "clear", "sort", "reverse", "setdefault", "discard", "fill", "put", "resize"}):
                bad.add(n.func.value.id)
            elif isinstance(n, (ast.For, ast.comprehension)):
                bad |= {x.id for x in ast.walk(n.target) if isinstance(x, ast.Name)}
            elif isinstance(n, ast.NamedExpr):
                bad.add(n.target.id)
            elif isinstance(n, (ast.With,)):
                for it in n.items:
                    if it.optional_vars is not None:
                        bad |= {x.id for x in ast.walk(it.optional_vars) if isinstance(x, ast.Name)}
            elif isinstance(n, (ast.FunctionDef, ast.Lambda)):
                a = n.args
                bad |= {x.arg for x in a.args + a.posonlyargs + a.kwonlyargs}
    out = {}
    for k, vs in defs.items():
        if k in bad or len(vs) != 1:
            continue
        v = vs[0]
        if any(isinstance(x, (ast.Yield, ast.YieldFrom, ast.Await, ast.NamedExpr)) for x in ast.walk(v)):
            continue
        if any(isinstance(x, ast.Call) and ((isinstance(x.func, ast.Attribute) and x.func.attr in _IMPURE) or
                                            (isinstance(x.func, ast.Name) and x.func.id in _IMPURE)) for x in ast.walk(v)):
            continue
        if any(isinstance(x, ast.Name) and x.id == k for x in ast.walk(v)):
            continue
        out[k] = v
    return out


class _Inline(ast.NodeTransformer):
    def __init__(self, temps, depth=4, skip=()):
        self.temps, self.depth, self.skip, self.hit = temps, depth, set(skip), False

    def visit_Name(self, n: ast.Name):
        if isinstance(n.ctx, ast.Load) and n.id in self.temps and n.id not in self.skip and self.depth > 0:
            import copy
            self.hit = True
            sub = _Inline(self.temps, self.depth - 1, self.skip | {n.id})
            return sub.visit(copy.deepcopy(self.temps[n.id]))
        return n


def inlined(n: ast.AST, temps: dict):
    """n with every temporary replaced by its value (None when nothing was replaced).  An assignment to a temporary
    itself keeps its target."""
    import copy
    if not temps:
        return None
    m = copy.deepcopy(n)
    tr = _Inline(temps)
    m = tr.visit(m)
    return ast.fix_missing_locations(m) if tr.hit else None


def _split_tuple_assign(n) -> list:
    if isinstance(n, ast.Assign) and len(n.targets) == 1 and isinstance(n.targets[0], (ast.Tuple, ast.List)) \
            and isinstance(n.value, (ast.Tuple, ast.List)) and len(n.value.elts) == len(n.targets[0].elts) >= 2:
        return [ast.fix_missing_locations(ast.Assign(targets=[t], value=v, lineno=getattr(n, "lineno", 1), col_offset=0))
                for t, v in zip(n.targets[0].elts, n.value.elts)]
    return []


def find_group(stmts: Iterable[ast.AST], expected: list, fixed_names: Iterable[str] = ()):
    """Match several expected statements against the statements of one def under ONE renaming of
    the local names (so `params[child] = cur` is not satisfied by `params[child] = pre` when
    `cur`/`pre` are pinned by the other statements).  Each expected entry is a source string or a
    list of alternative spellings.  -> [(SAME|LEAF|OTHER, node|None, diffs)] in the order given."""
    stmts = list(stmts)
    nodes = [n for s in stmts for n in ast.walk(s) if isinstance(n, (ast.stmt, ast.expr))]
    temps = _temps(stmts)
    names = {n: n for n in fixed_names}
    rnames = {n: n for n in fixed_names}
    for g in _GLOBALS:
        names.setdefault(g, g)
        rnames.setdefault(g, g)
    results = [None] * len(expected)
    alts = [[canon(_parse(x)) for x in ([e] if isinstance(e, str) else e)] for e in expected]
    alts = [[(x.value if isinstance(x, ast.Expr) else x) for x in a] for a in alts]
    # the rule's own temporaries (`c = tree.node(node1)` among the expected statements) may have been written out in
    # the repository, and the repository's temporaries may be written out in the rule: both sides also in inlined form
    etemps = _temps([x for a in alts for x in a[:1] if isinstance(x, ast.stmt)])
    n_raw = [len(a) for a in alts]
    for a in alts:
        for x in list(a):
            y = inlined(x, etemps)
            if y is not None:
                a.append(canon(y))
    # first pass: exact matches fix the renaming; statements with the most names first
    order = sorted(range(len(expected)), key=lambda i: -max(leaves(x) for x in alts[i]))
    canon_nodes = [(n, canon(n)) for n in nodes]
    for n in [x for x in nodes if isinstance(x, ast.stmt)]:
        y = inlined(n, temps)
        if y is not None:
            canon_nodes.append((n, canon(y)))
    # `a, b = x, y` also counts as `a = x` and `b = y`
    for n, cn in list(canon_nodes):
        for part in _split_tuple_assign(cn):
            canon_nodes.append((n, part))
    raw_of = {}
    for n, cn in canon_nodes:
        raw_of.setdefault(id(n), cn)  # the first form of a node is the one as written

    def raw_leaf(n, i):
        """as written, the statement has the expected skeleton and says something else: reading through temporaries (which
        makes two different variables with the same defining expression equal) must not turn that into `same`"""
        cn = raw_of.get(id(n))
        if cn is None:
            return False
        a = cn.value if isinstance(cn, ast.Expr) else cn
        for b in alts[i][:n_raw[i]]:
            nm, rn, out = dict(names), dict(rnames), []
            if _diff(a, b, nm, rn, out) and out:
                return True
        return False

    for i in order:
        best_c = None
        for n, cn in canon_nodes:
            for b in alts[i]:
                nm, rn, out = dict(names), dict(rnames), []
                a = cn.value if isinstance(cn, ast.Expr) else cn
                if _diff(a, b, nm, rn, out) and not out and not ((cn is not raw_of.get(id(n)) or b not in alts[i][:n_raw[i]]) and raw_leaf(n, i)):
                    # several statements may fit one form under some renaming (`r /= norm(r)` and
                    # `u /= norm(u)`): prefer the candidate that renames the fewest names
                    cost = sum(1 for k, v in nm.items() if k != v and k not in names)
                    if best_c is None or cost < best_c[0]:
                        best_c = (cost, n, nm, rn)
                    break
        if best_c is not None:
            _, n, names, rnames = best_c
            results[i] = (SAME, n, [])
    # names that take part in a plain variable-to-variable copy anywhere in the function (as written and in canonical form)
    copied = set()
    for n, cn in canon_nodes:
        for x in (n, cn):
            if isinstance(x, ast.Assign) and len(x.targets) == 1 and isinstance(x.targets[0], ast.Name) and isinstance(x.value, ast.Name):
                copied.add(x.targets[0].id)
                copied.add(x.value.id)
    # second pass: the rest, under the renaming found
    for i in range(len(expected)):
        if results[i] is not None:
            continue
        cand = None
        for n, cn in canon_nodes:
            if not isinstance(n, ast.stmt) and not isinstance(alts[i][0], ast.expr):
                continue
            for b in alts[i]:
                nm, rn, out = dict(names), dict(rnames), []
                a = cn.value if isinstance(cn, ast.Expr) else cn
                ok_ = _diff(a, b, nm, rn, out)
                out = _collapse_swaps(out)
                if ok_ and out and len(out) <= 2 and (len(out) * 3 <= leaves(n) or _same_binding(a, b)) \
                        and not any(k == "name-in-count" for k, _, _ in out):
                    # an assignment is identified by what it binds: a candidate that binds another name is the worst guess
                    cost = (_target_mismatch(a, out), len(out))
                    if cand is None or cost < cand[2]:
                        cand = (n, out, cost)
        if cand is not None and any(k == "name" and (a_ in copied or b_ in copied) for k, a_, b_ in cand[1]):
            # the function copies one of the two names into another variable somewhere (`pid = next_id` ... `next_id = pid + 1`): at this statement the two may hold the same
            # value, so "another name" is not "another value" -- no verdict instead of a difference
            results[i] = (OTHER, None, [])
            continue
        results[i] = (LEAF, cand[0], cand[1]) if cand is not None else (OTHER, None, [])
    # an expected `a, b = x, y` written as two statements in the repository
    for i in range(len(expected)):
        if results[i][0] != OTHER:
            continue
        for b in alts[i]:
            parts = _split_tuple_assign(b)
            if not parts:
                continue
            nm, rn, first, ok = dict(names), dict(rnames), None, True
            for part in parts:
                got = None
                for n, cn in canon_nodes:
                    n2, r2, out = dict(nm), dict(rn), []
                    a = cn.value if isinstance(cn, ast.Expr) else cn
                    if isinstance(a, ast.Assign) and _diff(a, part, n2, r2, out) and not out:
                        got = (n, n2, r2)
                        break
                if got is None:
                    ok = False
                    break
                first = first or got[0]
                nm, rn = got[1], got[2]
            if ok:
                results[i] = (SAME, first, [])
                names, rnames = nm, rn
                break
    # an expected temporary (`c = tree.node(node1)`) that the repository does not name: satisfied when its value occurs,
    # written out, in an expression of the repository under the renaming found
    for i in range(len(expected)):
        if results[i][0] != OTHER:
            continue
        for b in alts[i]:
            if isinstance(b, ast.Assign) and len(b.targets) == 1 and isinstance(b.targets[0], ast.Name) and b.targets[0].id in etemps \
                    and leaves(b.value) >= 3 and b.targets[0].id not in rnames:
                hit = None
                for n, cn in canon_nodes:
                    if isinstance(n, ast.expr):
                        nm, rn, out = dict(names), dict(rnames), []
                        if _diff(cn, b.value, nm, rn, out) and not out:
                            hit = (n, nm, rn)
                            break
                if hit is not None:
                    results[i] = (SAME, hit[0], [])
                    names, rnames = hit[1], hit[2]
                    break
    return results


def leaves(n: ast.AST) -> int:
    return sum(1 for x in ast.walk(n) if isinstance(x, (ast.Name, ast.Constant, ast.Attribute, ast.operator, ast.cmpop,
                                                        ast.unaryop, ast.boolop, ast.keyword)))


def describe(diffs: list) -> str:
    return "; ".join(f"{k} `{a}` where `{b}` is expected" for k, a, b in diffs[:4])
