"""Shared lazily-built analysis context."""

from __future__ import annotations

from functools import cached_property

from . import cfg as cfgmod
from .callgraph import CallGraph
from .model import Def, Repo
from .types import Typer


class Context:
    def __init__(self, root: str | None = None):
        self.repo = Repo(root)
        self._cfgs: dict[int, cfgmod.CFG] = {}

    @cached_property
    def typer(self) -> Typer:
        return Typer(self.repo)

    @cached_property
    def cg(self) -> CallGraph:
        return CallGraph(self.repo, self.typer)

    def cfg(self, d: Def) -> cfgmod.CFG:
        k = id(d.node)
        if k not in self._cfgs:
            self._cfgs[k] = cfgmod.build(d)
        return self._cfgs[k]

    def stats(self) -> dict:
        r = self.repo
        out = {"modules": len(r.modules), "defs": len(r.defs), "classes": len(r.classes),
               "source_digest": r.digest()}
        if "cg" in self.__dict__:
            cg = self.cg
            internal = [e for e in cg.edges if e.callee is not None]
            out.update({
                "call_edges": len(cg.edges),
                "strong_edges": len([e for e in internal if e.strength == "strong"]),
                "weak_edges": len([e for e in internal if e.strength == "weak"]),
            })
        return out
