"""Checker self-validation: run a property's check on edited scratch copies.

A variant is a list of textual edits (relative path, old, new) applied to a copy
of /repo/swcgeom made under a temporary directory outside /repo and /verif.  The
copy is removed immediately.  `must-fire` variants break the property and still
compile; `must-stay-silent` variants are behaviour-preserving rewrites.
"""

from __future__ import annotations

import ast
import os
import shutil
import subprocess
import sys
import tempfile
from concurrent.futures import ThreadPoolExecutor

HERE = os.path.dirname(os.path.dirname(os.path.abspath(__file__)))


def make_copy(repo_root: str, edits) -> tuple[str | None, str]:
    tmp = tempfile.mkdtemp(prefix="swcgeom_variant_")
    dst = os.path.join(tmp, "swcgeom")
    shutil.copytree(os.path.join(repo_root, "swcgeom"), dst,
                    ignore=shutil.ignore_patterns("__pycache__", "*.pyc"))
    for rel, old, new in edits:
        p = os.path.join(tmp, rel)
        with open(p, encoding="utf-8") as f:
            s = f.read()
        if s.count(old) != 1:
            shutil.rmtree(tmp, ignore_errors=True)
            return None, f"anchor text occurs {s.count(old)} times in {rel}"
        s = s.replace(old, new)
        try:
            ast.parse(s)
            compile(s, p, "exec")
        except SyntaxError as e:
            shutil.rmtree(tmp, ignore_errors=True)
            return None, f"variant does not compile: {e}"
        with open(p, "w", encoding="utf-8") as f:
            f.write(s)
    return tmp, ""


def run_variant(prop: str, edits, repo_root: str = "/repo", timeout: int = 120):
    tmp, why = make_copy(repo_root, edits)
    if tmp is None:
        return {"status": "not-applicable", "why": why}
    try:
        r = subprocess.run([sys.executable, os.path.join(HERE, "check.py"), prop, "--repo", tmp,
                            "--no-evidence"], capture_output=True, text=True, timeout=timeout,
                           env={**os.environ, "VERIF_SELFTEST_CHILD": "1"})
        lines = [l for l in r.stdout.splitlines()
                 if " VIOLATION " in l or l.startswith(("ANALYSIS-ERROR", "KNOWN-FINDING"))
                 or " UNRESOLVED " in l]
        return {"status": "ran", "exit": r.returncode, "lines": lines[:8],
                "rules_fired": sorted({l.split()[1] for l in lines if ": VIOLATION --" in l and len(l.split()) > 1}),
                "stderr": r.stderr[-300:] if r.returncode not in (0, 1, 2) else ""}
    finally:
        shutil.rmtree(tmp, ignore_errors=True)


def run_corpus(prop: str, variants: list[dict], jobs: int = 16, repo_root: str = "/repo") -> dict:
    """variants: [{name, edits, expect: 'fire'|'notice'|'silent', rule?: str}]"""
    def one(v):
        res = run_variant(prop, v["edits"], repo_root)
        ok = None
        if res["status"] == "ran":
            if v["expect"] == "fire":        # a definite recogniser exists: VIOLATION, by the named rule
                ok = res["exit"] == 1 and (not v.get("rule") or v["rule"] in res.get("rules_fired", [])
                                           or any(v["rule"] in l for l in res["lines"]))
            elif v["expect"] == "notice":    # breaking, but only visible as a shape the rule does not know: VIOLATION or no verdict, never a pass
                ok = res["exit"] in (1, 2) and (not v.get("rule") or any(v["rule"] in l for l in res["lines"]))
            else:                            # behaviour preserving: never a VIOLATION (no verdict is tolerated, and counted)
                ok = res["exit"] in (0, 2)
        return {"name": v["name"], "expect": v["expect"], "rule": v.get("rule"), **res, "ok": ok}
    with ThreadPoolExecutor(max_workers=jobs) as ex:
        results = list(ex.map(one, variants))
    applicable = [r for r in results if r["status"] == "ran"]
    return {
        "variants": len(results),
        "applicable": len(applicable),
        "passed": len([r for r in applicable if r["ok"]]),
        "failed": [r for r in applicable if not r["ok"]],
        "not_applicable": [r["name"] for r in results if r["status"] != "ran"],
        "results": [{k: r.get(k) for k in ("name", "expect", "exit", "ok")} for r in results],
        "by_outcome": {e: {str(x): sum(1 for r in applicable if r["expect"] == e and r["exit"] == x) for x in (0, 1, 2)}
                       for e in ("fire", "notice", "silent")},
    }


def run_patch_corpus(prop: str, repo_root: str = "/repo", jobs: int = 8) -> dict:
    """Thorough tier: the kept corpora of independent changes (seeded/ = breaking, refactors/ = behaviour preserving) of this
    property, each applied to a scratch copy of the tree under the temp dir (removed at once) and checked.
    Expectation: what meta.json recorded when the change was confirmed (`confirmed.check_exit`); a breaking change must never
    pass (exit 0), a behaviour-preserving one must never be reported (exit 1)."""
    import json
    out = {"seeded": [], "refactors": [], "mismatch": []}

    def one(kind, name, path):
        tmp = tempfile.mkdtemp(prefix="swcgeom_corpus_")
        try:
            dst = os.path.join(tmp, "swcgeom")
            shutil.copytree(os.path.join(repo_root, "swcgeom"), dst, ignore=shutil.ignore_patterns("__pycache__", "*.pyc"))
            r = subprocess.run(["patch", "-p1", "--no-backup-if-mismatch", "-s", "-i", os.path.join(path, "patch.diff")], cwd=tmp, capture_output=True, text=True)
            if r.returncode != 0:
                return (kind, name, None, "patch does not apply to this tree")
            r = subprocess.run([sys.executable, os.path.join(HERE, "check.py"), prop, "--repo", tmp, "--no-evidence"], capture_output=True, text=True,
                               timeout=300, env={**os.environ, "VERIF_SELFTEST_CHILD": "1"})
            return (kind, name, r.returncode, "")
        finally:
            shutil.rmtree(tmp, ignore_errors=True)

    jobs_l = []
    for kind in ("seeded", "refactors"):
        root = os.path.join(HERE, kind)
        if not os.path.isdir(root):
            continue
        for name in sorted(os.listdir(root)):
            mp = os.path.join(root, name, "meta.json")
            if name.startswith(prop + "-") and os.path.exists(mp):
                jobs_l.append((kind, name, os.path.join(root, name)))
    with ThreadPoolExecutor(max_workers=jobs) as ex:
        res = list(ex.map(lambda a: one(*a), jobs_l))
    for kind, name, code, why in res:
        out[kind].append({"name": name, "exit": code, "note": why})
        if code is None:
            continue
        if kind == "seeded" and code == 0:
            out["mismatch"].append(f"{name}: a kept breaking change passes (exit 0)")
        if kind == "refactors" and code == 1:
            out["mismatch"].append(f"{name}: a kept behaviour-preserving change is reported (exit 1)")
        try:
            rec = json.load(open(os.path.join(HERE, kind, name, "meta.json"))).get("confirmed", {}).get("check_exit")
        except Exception:  # noqa: BLE001
            rec = None
        if kind == "seeded" and rec == 1 and code != 1:
            out["mismatch"].append(f"{name}: was reported as a violation when confirmed, now exit {code}")
    return out
