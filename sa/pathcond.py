"""Under which condition does a statement of a function run?

conditions_at(fn, stmt) -> (tests, complete)
  tests:    [(test expression, polarity)] -- the statement runs only if every test has its polarity: the tests of the
            enclosing `if`s (with the arm the statement is in) and, for every enclosing block, the negated tests of the
            earlier `if c: ... return/raise/continue/break` guards of that block (and the tests of earlier `if c: ... else:
            <terminates>`).
  complete: nothing on the way is outside this model (a loop that can be left by `break`, `try`, `match`, `with`, `while`
            conditions are not conditions of this kind: complete = False, the tests are then only necessary conditions).
as_expr(tests) -> one boolean expression (ast) equivalent to the conjunction.
"""
from __future__ import annotations

import ast
import copy


def _terminates(body) -> bool:
    if not body:
        return False
    last = body[-1]
    if isinstance(last, (ast.Return, ast.Raise, ast.Continue, ast.Break)):
        return True
    if isinstance(last, ast.If) and last.orelse:
        return _terminates(last.body) and _terminates(last.orelse)
    return False


def conditions_at(fn: ast.AST, stmt: ast.AST):
    path = _path(fn, stmt)
    if path is None:
        return [], False
    tests, complete = [], True
    for owner, field, idx in path:
        block = getattr(owner, field)
        if isinstance(owner, ast.If):
            tests.append((owner.test, field == "body"))
        elif isinstance(owner, (ast.FunctionDef, ast.AsyncFunctionDef)):
            pass
        elif isinstance(owner, (ast.For, ast.While)) and field == "body":
            if isinstance(owner, ast.While) and not (isinstance(owner.test, ast.Constant) and owner.test.value is True):
                tests.append((owner.test, True))  # holds when the body is entered; may be stale later in the body
                complete = False
        else:
            complete = False  # try / with / match / loop else: not modelled
        for prev in block[:idx]:
            if isinstance(prev, ast.If):
                if _terminates(prev.body) and not prev.orelse:
                    tests.append((prev.test, False))
                elif prev.orelse and _terminates(prev.orelse) and not _terminates(prev.body):
                    tests.append((prev.test, True))
                elif prev.orelse and _terminates(prev.body) and not _terminates(prev.orelse):
                    tests.append((prev.test, False))
            elif isinstance(prev, (ast.Try, ast.Match, ast.With)):
                if any(isinstance(x, (ast.Return, ast.Raise, ast.Continue, ast.Break)) for x in ast.walk(prev)):
                    complete = False
            elif isinstance(prev, (ast.For, ast.While)):
                if any(isinstance(x, (ast.Return, ast.Raise)) for x in ast.walk(prev)):
                    complete = False
    return tests, complete


def _path(fn, stmt):
    """[(owner node, block field, index)] from the function body down to stmt"""
    def rec(owner):
        for f in ("body", "orelse", "finalbody"):
            b = getattr(owner, f, None)
            if not (isinstance(b, list) and b and isinstance(b[0], ast.stmt)):
                continue
            for i, s in enumerate(b):
                if s is stmt:
                    return [(owner, f, i)]
                if isinstance(s, (ast.FunctionDef, ast.AsyncFunctionDef, ast.ClassDef)):
                    continue
                sub = rec(s)
                if sub is not None:
                    return [(owner, f, i)] + sub
                if isinstance(s, ast.Try):
                    for h in s.handlers:
                        sub = rec(h)
                        if sub is not None:
                            return [(owner, f, i)] + sub
                if isinstance(s, ast.Match):
                    for c in s.cases:
                        sub = rec(c)
                        if sub is not None:
                            return [(owner, f, i)] + sub
        return None
    return rec(fn)


def as_expr(tests) -> ast.AST:
    parts = []
    for t, pol in tests:
        t = copy.deepcopy(t)
        parts.append(t if pol else ast.UnaryOp(op=ast.Not(), operand=t))
    if not parts:
        return ast.Constant(True)
    if len(parts) == 1:
        return ast.fix_missing_locations(parts[0])
    return ast.fix_missing_locations(ast.BoolOp(op=ast.And(), values=parts))
