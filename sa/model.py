"""E1 -- repository model: modules, scopes, classes, defs, name resolution.

Everything is derived from ``ast`` of the files under ``<repo>/swcgeom``.
"""

from __future__ import annotations

import ast
import hashlib
import os
from dataclasses import dataclass, field
from typing import Iterator, Optional

REPO = os.environ.get("VERIF_REPO", "/repo")
PKG = "swcgeom"


class AnalysisError(Exception):
    """The analysis itself cannot proceed (anchor vanished, parse error...)."""


# --------------------------------------------------------------------------
# data


@dataclass
class Binding:
    kind: str  # 'def' | 'class' | 'import' | 'assign' | 'param' | 'local'
    target: object = None  # Def | ClassInfo | (module, attr) | ast node
    node: Optional[ast.AST] = None


@dataclass(eq=False)
class Def:
    qualname: str
    name: str
    node: ast.AST  # FunctionDef | AsyncFunctionDef | Lambda
    module: "Module"
    cls: Optional["ClassInfo"] = None  # owning class if this is a method
    parent: Optional["Def"] = None  # enclosing function
    nested: dict = field(default_factory=dict)  # name -> Def
    lambdas: list = field(default_factory=list)
    decorators: list = field(default_factory=list)

    @property
    def lineno(self) -> int:
        return self.node.lineno

    @property
    def relpath(self) -> str:
        return self.module.relpath

    def loc(self, node: Optional[ast.AST] = None) -> str:
        n = node if node is not None else self.node
        return f"{self.module.relpath}:{getattr(n, 'lineno', 0)}"

    @property
    def is_lambda(self) -> bool:
        return isinstance(self.node, ast.Lambda)

    @property
    def params(self) -> list[str]:
        a = self.node.args
        names = [x.arg for x in a.posonlyargs + a.args]
        if a.vararg:
            names.append(a.vararg.arg)
        names += [x.arg for x in a.kwonlyargs]
        if a.kwarg:
            names.append(a.kwarg.arg)
        return names

    def param_annotation(self, name: str) -> Optional[ast.AST]:
        a = self.node.args
        for x in a.posonlyargs + a.args + a.kwonlyargs:
            if x.arg == name:
                return x.annotation
        return None

    @property
    def body(self) -> list[ast.stmt]:
        if isinstance(self.node, ast.Lambda):
            return [ast.Return(value=self.node.body, lineno=self.node.lineno,
                               col_offset=self.node.col_offset)]
        return self.node.body

    def is_staticmethod(self) -> bool:
        return "staticmethod" in self.decorators

    def is_classmethod(self) -> bool:
        return "classmethod" in self.decorators

    def is_property(self) -> bool:
        return any(d in ("property", "cached_property") or d.endswith(".setter")
                   for d in self.decorators)

    def is_overload(self) -> bool:
        return "overload" in self.decorators

    def __repr__(self) -> str:
        return f"<Def {self.qualname}>"


@dataclass(eq=False)
class ClassInfo:
    qualname: str
    name: str
    node: ast.ClassDef
    module: "Module"
    outer: Optional["ClassInfo"] = None
    parent_def: Optional[Def] = None
    methods: dict = field(default_factory=dict)  # name -> Def (last non-overload)
    overloads: dict = field(default_factory=dict)  # name -> [Def] (@overload stubs)
    attrs: dict = field(default_factory=dict)  # name -> ast expr (class level assign)
    annotations: dict = field(default_factory=dict)  # name -> annotation expr
    inner: dict = field(default_factory=dict)  # nested classes
    bases: list = field(default_factory=list)  # resolved ClassInfo
    ext_bases: list = field(default_factory=list)  # dotted names of non-repo bases
    base_exprs: list = field(default_factory=list)
    _mro: Optional[list] = None

    def __repr__(self) -> str:
        return f"<Class {self.qualname}>"

    def mro(self) -> list["ClassInfo"]:
        if self._mro is None:
            self._mro = _c3(self)
        return self._mro

    def lookup(self, name: str) -> Optional[object]:
        """Find a member through the MRO: Def, ClassInfo (inner) or ast expr."""
        for c in self.mro():
            if name in c.methods:
                return c.methods[name]
            if name in c.inner:
                return c.inner[name]
            if name in c.attrs:
                return ("attr", c, c.attrs[name])
        return None

    def lookup_method(self, name: str) -> Optional[Def]:
        r = self.lookup(name)
        return r if isinstance(r, Def) else None

    def lookup_annotation(self, name: str):
        for c in self.mro():
            if name in c.annotations:
                return c, c.annotations[name]
        return None

    def is_subclass_of(self, other: "ClassInfo") -> bool:
        return other in self.mro()


def _c3(cls: ClassInfo) -> list[ClassInfo]:
    seqs = [list(b.mro()) for b in cls.bases] + [list(cls.bases)]
    res = [cls]
    seqs = [s for s in seqs if s]
    while seqs:
        for s in seqs:
            cand = s[0]
            if not any(cand in t[1:] for t in seqs):
                break
        else:  # inconsistent; fall back to first head
            cand = seqs[0][0]
        res.append(cand)
        seqs = [[x for x in s if x is not cand] for s in seqs]
        seqs = [s for s in seqs if s]
    return res


@dataclass(eq=False)
class Module:
    name: str
    path: str
    relpath: str
    src: str
    tree: ast.Module
    is_pkg: bool
    bindings: dict = field(default_factory=dict)
    all_names: Optional[list] = None
    star_imports: list = field(default_factory=list)

    def __repr__(self) -> str:
        return f"<Module {self.name}>"


# --------------------------------------------------------------------------
# repo


class Repo:
    def __init__(self, root: str = None, pkg: str = PKG, extra_dirs=()):
        self.root = root or REPO
        self.pkg = pkg
        self.modules: dict[str, Module] = {}
        self.defs: dict[str, Def] = {}
        self.classes: dict[str, ClassInfo] = {}
        self.def_of_node: dict[int, Def] = {}
        self.class_of_node: dict[int, ClassInfo] = {}
        self._parents: dict[int, ast.AST] = {}
        self._load(os.path.join(self.root, pkg), pkg)
        for m in self.modules.values():
            self._index_module(m)
        for c in self.classes.values():
            self._resolve_bases(c)
        self._subclasses: dict[ClassInfo, list[ClassInfo]] = {}
        for c in self.classes.values():
            for b in c.mro()[1:]:
                self._subclasses.setdefault(b, []).append(c)

    # ---- loading
    def _load(self, d: str, modname: str) -> None:
        if not os.path.isdir(d):
            raise AnalysisError(f"anchor-vanished: package directory {d}")
        for fn in sorted(os.listdir(d)):
            p = os.path.join(d, fn)
            if os.path.isdir(p):
                if os.path.exists(os.path.join(p, "__init__.py")):
                    self._load(p, f"{modname}.{fn}")
            elif fn.endswith(".py"):
                name = modname if fn == "__init__.py" else f"{modname}.{fn[:-3]}"
                with open(p, encoding="utf-8") as f:
                    src = f.read()
                try:
                    tree = ast.parse(src, filename=p)
                except SyntaxError as e:
                    raise AnalysisError(f"cannot parse {p}: {e}")
                from . import normal
                tree = normal.normalise(tree, name)  # one canonical spelling for every rule (docstrings, annotations, polarity, early returns, use-once temporaries)
                rel = os.path.relpath(p, self.root)
                m = Module(name, p, rel, src, tree, fn == "__init__.py")
                self.modules[name] = m
                for parent in ast.walk(tree):
                    for ch in ast.iter_child_nodes(parent):
                        self._parents[id(ch)] = parent

    def parent(self, node: ast.AST) -> Optional[ast.AST]:
        return self._parents.get(id(node))

    def digest(self) -> str:
        h = hashlib.sha256()
        for n in sorted(self.modules):
            h.update(n.encode())
            h.update(self.modules[n].src.encode())
        return h.hexdigest()[:16]

    # ---- indexing
    def _index_module(self, m: Module) -> None:
        self._index_body(m.tree.body, m, m.name, None, None, m.bindings)
        # __all__
        b = m.bindings.get("__all__")
        if b and b.kind == "assign" and isinstance(b.target, (ast.List, ast.Tuple)):
            names = []
            for e in b.target.elts:
                if isinstance(e, ast.Constant) and isinstance(e.value, str):
                    names.append(e.value)
            m.all_names = names

    def _decorators(self, node) -> list[str]:
        out = []
        for d in getattr(node, "decorator_list", []):
            if isinstance(d, ast.Call):
                d = d.func
            out.append(dotted(d) or "?")
        return out

    def _index_body(self, body, m: Module, prefix: str, cls, parent_def, table: dict) -> None:
        """Index a module-level (or compound-statement) body into ``table``."""
        for st in body:
            if isinstance(st, (ast.FunctionDef, ast.AsyncFunctionDef)):
                d = self._make_def(st, m, prefix, None, parent_def)
                if d is not None and not d.qualname.endswith(".setter"):
                    table[st.name] = Binding("def", d, st)
            elif isinstance(st, ast.ClassDef):
                c = self._index_class(st, m, prefix, None, parent_def)
                table[st.name] = Binding("class", c, st)
            elif isinstance(st, (ast.Import, ast.ImportFrom)):
                self._index_import(st, m, table)
            elif isinstance(st, ast.Assign):
                for t in st.targets:
                    for nm in _target_names(t):
                        table[nm] = Binding(
                            "assign", st.value if isinstance(t, ast.Name) else st, st)
            elif isinstance(st, ast.AnnAssign) and isinstance(st.target, ast.Name):
                table[st.target.id] = Binding("assign", st.value, st)
            elif isinstance(st, (ast.If, ast.Try, ast.With, ast.For, ast.While)):
                for f in ("body", "orelse", "finalbody"):
                    self._index_body(getattr(st, f, []) or [], m, prefix, cls, parent_def, table)
                for h in getattr(st, "handlers", []) or []:
                    self._index_body(h.body, m, prefix, cls, parent_def, table)

    def _make_def(self, st, m: Module, prefix: str, cls, parent_def):
        q = f"{prefix}.{st.name}"
        d = Def(q, st.name, st, m, cls=cls, parent=parent_def,
                decorators=self._decorators(st))
        self.def_of_node[id(st)] = d
        if d.is_overload():
            if cls is not None:
                cls.overloads.setdefault(st.name, []).append(d)
            return None
        if any(x.endswith(".setter") for x in d.decorators):
            d.qualname = q + ".setter"
            self.defs[d.qualname] = d
            if cls is not None:
                cls.methods[st.name + ".setter"] = d
        else:
            self.defs[q] = d
            if cls is not None:
                cls.methods[st.name] = d
        self._index_function_body(d, m)
        return d

    def _index_class(self, st: ast.ClassDef, m: Module, prefix: str, outer, parent_def):
        q = f"{prefix}.{st.name}"
        c = ClassInfo(q, st.name, st, m, outer=outer, parent_def=parent_def)
        self.classes[q] = c
        self.class_of_node[id(st)] = c
        c.base_exprs = list(st.bases)
        for s in st.body:
            if isinstance(s, (ast.FunctionDef, ast.AsyncFunctionDef)):
                self._make_def(s, m, q, c, parent_def)
            elif isinstance(s, ast.ClassDef):
                c.inner[s.name] = self._index_class(s, m, q, c, parent_def)
            elif isinstance(s, ast.Assign):
                for t in s.targets:
                    if isinstance(t, ast.Name):
                        c.attrs[t.id] = s.value
            elif isinstance(s, ast.AnnAssign) and isinstance(s.target, ast.Name):
                c.annotations[s.target.id] = s.annotation
                if s.value is not None:
                    c.attrs[s.target.id] = s.value
        return c

    def _index_import(self, st, m: Module, table: dict) -> None:
        if isinstance(st, ast.Import):
            for a in st.names:
                if a.asname:
                    table[a.asname] = Binding("import", (a.name, None), st)
                else:
                    top = a.name.split(".")[0]
                    table[top] = Binding("import", (top, None), st)
        else:
            mod = st.module or ""
            if st.level:
                base = m.name.split(".")
                if not m.is_pkg:
                    base = base[:-1]
                base = base[: len(base) - (st.level - 1)]
                mod = ".".join(base + ([mod] if mod else []))
            for a in st.names:
                if a.name == "*":
                    m.star_imports.append(mod)
                else:
                    table[a.asname or a.name] = Binding("import", (mod, a.name), st)

    def _index_function_body(self, d: Def, m: Module) -> None:
        """Index nested defs / classes / lambdas inside a function."""
        prefix = d.qualname + ".<locals>"
        if isinstance(d.node, ast.Lambda):
            stack = [d.node.body]
        else:
            stack = list(d.node.body)
            # defaults & decorators are evaluated in the enclosing scope: skip
        lam_i = [0]

        def visit(n):
            if isinstance(n, (ast.FunctionDef, ast.AsyncFunctionDef)):
                nd = self._make_def(n, m, prefix, None, d)
                if nd is not None:
                    d.nested[n.name] = nd
                return
            if isinstance(n, ast.Lambda):
                lam_i[0] += 1
                q = f"{prefix}.<lambda#{lam_i[0]}>"
                nd = Def(q, "<lambda>", n, m, cls=None, parent=d)
                self.defs[q] = nd
                self.def_of_node[id(n)] = nd
                d.lambdas.append(nd)
                self._index_function_body(nd, m)
                return
            if isinstance(n, ast.ClassDef):
                self._index_class(n, m, prefix, None, d)
                return
            for ch in ast.iter_child_nodes(n):
                visit(ch)

        for s in stack:
            visit(s)

    # ---- bases
    def _resolve_bases(self, c: ClassInfo) -> None:
        scope = c.parent_def if c.parent_def else None
        for b in c.base_exprs:
            e = b
            if isinstance(e, ast.Subscript):
                e = e.value
            r = self.resolve_expr(e, c.module, scope, cls_ctx=c.outer)
            if r is c:  # `class Node(Node[...])` inside another class body:
                # the inner name is not bound yet, Python finds the global one
                r = self.resolve_expr(e, c.module, scope, cls_ctx=None)
            if isinstance(r, ClassInfo):
                if r is not c:
                    c.bases.append(r)
            else:
                c.ext_bases.append(dotted(e) or "?")

    def subclasses(self, c: ClassInfo) -> list[ClassInfo]:
        return self._subclasses.get(c, [])

    # ---- resolution
    def module_attr(self, modname: str, attr: str, _seen=None):
        """Resolve ``modname.attr`` to Def | ClassInfo | Module | ('ext', dotted) |
        ('const', expr, Module) | None."""
        _seen = _seen or set()
        key = (modname, attr)
        if key in _seen:
            return None
        _seen.add(key)
        m = self.modules.get(modname)
        if m is None:
            if modname.split(".")[0] == self.pkg:
                return None
            return ("ext", f"{modname}.{attr}")
        sub = f"{modname}.{attr}"
        b = m.bindings.get(attr)
        if b is not None:
            return self._follow(b, m, _seen)
        for sm in m.star_imports:
            tm = self.modules.get(sm)
            if tm is None:
                continue
            if tm.all_names is not None and attr not in tm.all_names:
                continue
            r = self.module_attr(sm, attr, _seen)
            if r is not None:
                return r
        if sub in self.modules:
            return self.modules[sub]
        return None

    def _follow(self, b: Binding, m: Module, _seen=None):
        if b.kind == "def" or b.kind == "class":
            return b.target
        if b.kind == "import":
            mod, attr = b.target
            if attr is None:
                if mod in self.modules:
                    return self.modules[mod]
                return ("ext", mod)
            if f"{mod}.{attr}" in self.modules and (mod not in self.modules or
                    attr not in self.modules[mod].bindings):
                r = self.module_attr(mod, attr, _seen) if mod in self.modules else None
                return r if r is not None else self.modules[f"{mod}.{attr}"]
            return self.module_attr(mod, attr, _seen)
        if b.kind == "assign":
            v = b.target
            # alias assignment  Segment = Compartment
            if isinstance(v, (ast.Name, ast.Attribute)):
                r = self.resolve_expr(v, m, None)
                if isinstance(r, (Def, ClassInfo, Module)) or (isinstance(r, tuple) and r[0] == "ext"):
                    return r
            return ("const", v, m)
        return None

    def lookup_name(self, name: str, module: Module, scope: Optional[Def],
                    cls_ctx: Optional[ClassInfo] = None):
        """LEGB lookup of a bare name seen inside ``scope`` (a Def) or at module /
        class level.  Returns Def | ClassInfo | Module | ('ext', ..) | ('const', ..)
        | ('local', Def, name) | ('builtin', name) | None."""
        d = scope
        while d is not None:
            if name in d.nested:
                return d.nested[name]
            if name in local_names(d):
                return ("local", d, name)
            # class defined inside function
            q = f"{d.qualname}.<locals>.{name}"
            if q in self.classes:
                return self.classes[q]
            d = d.parent
        # class-level context (only for class bodies / base expressions)
        c = cls_ctx
        while c is not None:
            if name in c.inner:
                return c.inner[name]
            if name in c.methods:
                return c.methods[name]
            c = c.outer
        r = self.module_attr(module.name, name)
        if r is not None:
            return r
        import builtins
        if hasattr(builtins, name):
            return ("builtin", name)
        return None

    def resolve_expr(self, e: ast.AST, module: Module, scope: Optional[Def],
                     cls_ctx: Optional[ClassInfo] = None):
        """Resolve a Name / Attribute chain / string annotation to a repo entity."""
        if isinstance(e, ast.Constant) and isinstance(e.value, str):
            try:
                e2 = ast.parse(e.value, mode="eval").body
            except SyntaxError:
                return None
            return self.resolve_expr(e2, module, scope, cls_ctx)
        if isinstance(e, ast.Name):
            return self.lookup_name(e.id, module, scope, cls_ctx)
        if isinstance(e, ast.Attribute):
            base = self.resolve_expr(e.value, module, scope, cls_ctx)
            return self.attr_of(base, e.attr)
        if isinstance(e, ast.Subscript):
            return self.resolve_expr(e.value, module, scope, cls_ctx)
        return None

    def attr_of(self, base, attr: str):
        if base is None:
            return None
        if isinstance(base, Module):
            return self.module_attr(base.name, attr)
        if isinstance(base, ClassInfo):
            r = base.lookup(attr)
            if isinstance(r, tuple) and r[0] == "attr":
                _, c, expr = r
                if isinstance(expr, (ast.Name, ast.Attribute)):
                    rr = self.resolve_expr(expr, c.module, None, cls_ctx=c)
                    if isinstance(rr, (Def, ClassInfo)):
                        return rr
                return ("const", expr, c.module)
            return r
        if isinstance(base, tuple) and base[0] == "ext":
            return ("ext", f"{base[1]}.{attr}")
        return None

    # ---- convenience
    def get_def(self, qualname: str) -> Def:
        d = self.defs.get(qualname)
        if d is None:
            raise AnalysisError(f"anchor-vanished: def {qualname}")
        return d

    def get_class(self, qualname: str) -> ClassInfo:
        c = self.classes.get(qualname)
        if c is None:
            raise AnalysisError(f"anchor-vanished: class {qualname}")
        return c

    def get_module(self, name: str) -> Module:
        m = self.modules.get(name)
        if m is None:
            raise AnalysisError(f"anchor-vanished: module {name}")
        return m

    def enclosing_def(self, node: ast.AST) -> Optional[Def]:
        n = self.parent(node)
        while n is not None:
            d = self.def_of_node.get(id(n))
            if d is not None:
                return d
            n = self.parent(n)
        return None

    def enclosing_class(self, d: Def) -> Optional[ClassInfo]:
        """Class whose method (possibly through nesting of functions) ``d`` is."""
        x = d
        while x is not None:
            if x.cls is not None:
                return x.cls
            x = x.parent
        return None

    def all_defs(self) -> Iterator[Def]:
        return iter(self.defs.values())


# --------------------------------------------------------------------------
# helpers


def dotted(e: ast.AST) -> Optional[str]:
    if isinstance(e, ast.Name):
        return e.id
    if isinstance(e, ast.Attribute):
        b = dotted(e.value)
        return f"{b}.{e.attr}" if b else None
    return None


def _target_names(t: ast.AST) -> list[str]:
    if isinstance(t, ast.Name):
        return [t.id]
    if isinstance(t, (ast.Tuple, ast.List)):
        out = []
        for e in t.elts:
            out += _target_names(e)
        return out
    if isinstance(t, ast.Starred):
        return _target_names(t.value)
    return []


_LOCALS_CACHE: dict[int, set] = {}


def own_nodes(d: Def) -> Iterator[ast.AST]:
    """All AST nodes of ``d``'s body that belong to ``d`` itself (nested defs,
    lambdas and classes are yielded as nodes but not descended into)."""
    stack = list(reversed(d.body))
    while stack:
        n = stack.pop()
        yield n
        if isinstance(n, (ast.FunctionDef, ast.AsyncFunctionDef, ast.Lambda, ast.ClassDef)):
            continue
        stack.extend(reversed(list(ast.iter_child_nodes(n))))


def local_names(d: Def) -> set:
    k = id(d.node)
    if k in _LOCALS_CACHE:
        return _LOCALS_CACHE[k]
    names = set(d.params)
    nonlocal_ = set()
    for n in own_nodes(d):
        if isinstance(n, ast.Name) and isinstance(n.ctx, (ast.Store, ast.Del)):
            names.add(n.id)
        elif isinstance(n, (ast.FunctionDef, ast.AsyncFunctionDef, ast.ClassDef)):
            names.add(n.name)
        elif isinstance(n, (ast.Import, ast.ImportFrom)):
            for a in n.names:
                names.add((a.asname or a.name).split(".")[0])
        elif isinstance(n, (ast.Nonlocal, ast.Global)):
            nonlocal_.update(n.names)
        elif isinstance(n, ast.ExceptHandler) and n.name:
            names.add(n.name)
        elif isinstance(n, ast.MatchAs) and n.name:
            names.add(n.name)
        elif isinstance(n, ast.MatchStar) and n.name:
            names.add(n.name)
    # comprehension targets live in their own scope but for our purposes are local
    names -= nonlocal_
    _LOCALS_CACHE[k] = names
    return names


def norm_src(node: ast.AST) -> str:
    """Normalised statement text: used to key findings (never line numbers)."""
    try:
        s = ast.unparse(node)
    except Exception:  # pragma: no cover
        s = ast.dump(node)
    return " ".join(s.split())


def calls_in(d: Def) -> Iterator[ast.Call]:
    for n in own_nodes(d):
        if isinstance(n, ast.Call):
            yield n
