"""Exact rational functions over named symbols, and a cell-wise symbolic evaluator.

`R` = quotient of two multivariate polynomials with Fraction coefficients (pi is just a
symbol).  Source expressions are *translated* from the AST into `R` (constant folding
generalised to polynomial normal form); two expressions denote the same function iff
their cross products are the same polynomial.  Nothing of the repository is executed.

`CellEval` walks a straight-line function body with if/return over this domain.  Branch
conditions are decided at an exact rational *witness point* of a cell of the hyperplane
arrangement formed by the guards (the sign of an affine guard is constant on a cell), so
one witness per cell plus a symbolic comparison of the returned expression is a proof for
the whole cell.  `min`/`max`/`abs` are resolved by the witness in the same way.
"""

from __future__ import annotations

import ast
from fractions import Fraction
from itertools import product
from typing import Callable, Optional

from .model import dotted, norm_src


class NotPolynomial(Exception):
    def __init__(self, node, why=""):
        self.node = node
        self.why = why
        super().__init__(f"{why}: {norm_src(node)[:70] if isinstance(node, ast.AST) else node}")


def _pmul(a: dict, b: dict) -> dict:
    out: dict = {}
    for ma, ca in a.items():
        da = dict(ma)
        for mb, cb in b.items():
            d = dict(da)
            for s, e in mb:
                d[s] = d.get(s, 0) + e
            k = tuple(sorted((s, e) for s, e in d.items() if e))
            out[k] = out.get(k, 0) + ca * cb
    return {k: v for k, v in out.items() if v != 0}


def _padd(a: dict, b: dict, sign=1) -> dict:
    out = dict(a)
    for k, v in b.items():
        out[k] = out.get(k, 0) + sign * v
    return {k: v for k, v in out.items() if v != 0}


class R:
    __slots__ = ("n", "d")

    def __init__(self, n: dict, d: Optional[dict] = None):
        self.n = n
        self.d = d if d is not None else {(): Fraction(1)}

    @staticmethod
    def const(c) -> "R":
        c = Fraction(c)
        return R({(): c} if c != 0 else {})

    @staticmethod
    def sym(name: str) -> "R":
        return R({((name, 1),): Fraction(1)})

    def __add__(self, o): return R(_padd(_pmul(self.n, o.d), _pmul(o.n, self.d)), _pmul(self.d, o.d))
    def __sub__(self, o): return R(_padd(_pmul(self.n, o.d), _pmul(o.n, self.d), -1), _pmul(self.d, o.d))
    def __mul__(self, o): return R(_pmul(self.n, o.n), _pmul(self.d, o.d))
    def __neg__(self): return R({k: -v for k, v in self.n.items()}, self.d)

    def __truediv__(self, o):
        if not o.n:
            raise ZeroDivisionError("division by the zero polynomial")
        return R(_pmul(self.n, o.d), _pmul(self.d, o.n))

    def __pow__(self, k: int):
        if k < 0:
            return R.const(1) / (self ** (-k))
        out = R.const(1)
        for _ in range(k):
            out = out * self
        return out

    def same(self, o: "R") -> bool:
        return _pmul(self.n, o.d) == _pmul(o.n, self.d)

    def symbols(self) -> set:
        return {s for p in (self.n, self.d) for m in p for s, _ in m}

    def value(self, point: dict) -> Fraction:
        """Exact value at a rational point (every symbol must be bound; pi may stay symbolic
        only if it cancels -- otherwise bind it)."""
        def ev(p):
            t = Fraction(0)
            for m, c in p.items():
                x = c
                for s, e in m:
                    x *= Fraction(point[s]) ** e
                t += x
            return t
        den = ev(self.d)
        if den == 0:
            raise ZeroDivisionError("denominator vanishes at the witness")
        return ev(self.n) / den

    def degree_profile(self, ignore=("pi",)) -> set:
        """Total degrees (numerator minus denominator) if both are homogeneous, else {None}."""
        def degs(p):
            return {sum(e for s, e in m if s not in ignore) for m in p}
        dn, dd = degs(self.n), degs(self.d)
        if len(dn) > 1 or len(dd) > 1:
            return {None}
        return {(next(iter(dn)) if dn else 0) - (next(iter(dd)) if dd else 0)}

    def __repr__(self):
        def show(p):
            if not p:
                return "0"
            parts = []
            for m, c in sorted(p.items(), key=lambda kv: str(kv[0])):
                mono = "*".join(f"{s}^{e}" if e != 1 else s for s, e in m)
                parts.append(f"{c}{'*' + mono if mono else ''}")
            return " + ".join(parts)
        return f"({show(self.n)})/({show(self.d)})" if self.d != {(): Fraction(1)} else show(self.n)


PI_NAMES = {"np.pi", "math.pi", "numpy.pi", "pi"}


class Translator:
    """AST expression -> R.  `env` maps names (and dotted attribute chains) to R.
    `inline(call) -> Optional[R]` lets the caller expand calls to repo functions.
    `witness` (dict symbol -> Fraction), when given, resolves min/max/abs."""

    def __init__(self, env: dict, inline: Optional[Callable] = None, witness: Optional[dict] = None,
                 opaque: Optional[Callable] = None):
        self.env = env
        self.inline = inline
        self.witness = witness
        self.opaque = opaque
        self.used_witness_for: list[str] = []

    def tr(self, e: ast.AST) -> R:
        if isinstance(e, ast.Constant):
            if isinstance(e.value, bool) or not isinstance(e.value, (int, float)):
                raise NotPolynomial(e, "non-numeric constant")
            return R.const(Fraction(str(e.value)) if isinstance(e.value, float) else e.value)
        dn = dotted(e)
        if dn is not None:
            if dn in self.env:
                return self.env[dn]
            if dn in PI_NAMES:
                return R.sym("pi")
            if isinstance(e, ast.Name) or isinstance(e, ast.Attribute):
                raise NotPolynomial(e, "unbound name")
        if isinstance(e, ast.UnaryOp) and isinstance(e.op, (ast.USub, ast.UAdd)):
            v = self.tr(e.operand)
            return -v if isinstance(e.op, ast.USub) else v
        if isinstance(e, ast.BinOp):
            if isinstance(e.op, ast.Pow):
                k = e.right
                if isinstance(k, ast.Constant) and isinstance(k.value, int):
                    return self.tr(e.left) ** k.value
                raise NotPolynomial(e, "non-integer power")
            a, b = self.tr(e.left), self.tr(e.right)
            if isinstance(e.op, ast.Add):
                return a + b
            if isinstance(e.op, ast.Sub):
                return a - b
            if isinstance(e.op, ast.Mult):
                return a * b
            if isinstance(e.op, ast.Div):
                return a / b
            raise NotPolynomial(e, "operator")
        if isinstance(e, ast.Call):
            fn = dotted(e.func) or ""
            last = fn.rsplit(".", 1)[-1]
            if last in ("min", "max") and len(e.args) == 2 and not e.keywords:
                a, b = self.tr(e.args[0]), self.tr(e.args[1])
                if self.witness is None:
                    raise NotPolynomial(e, "min/max without a witness")
                va, vb = a.value(self.witness), b.value(self.witness)
                self.used_witness_for.append(norm_src(e))
                return (a if va <= vb else b) if last == "min" else (a if va >= vb else b)
            if last == "abs" and len(e.args) == 1:
                a = self.tr(e.args[0])
                if self.witness is None:
                    raise NotPolynomial(e, "abs without a witness")
                self.used_witness_for.append(norm_src(e))
                return a if a.value(self.witness) >= 0 else -a
            if last in ("float", "item") and len(e.args) <= 1:
                return self.tr(e.args[0]) if e.args else self.tr(e.func.value)
            if self.inline is not None:
                r = self.inline(e, self)
                if r is not None:
                    return r
            if self.opaque is not None:
                r = self.opaque(e)
                if r is not None:
                    return r
            raise NotPolynomial(e, "call")
        raise NotPolynomial(e, "expression kind")

    def truth(self, e: ast.AST) -> bool:
        """Truth of a comparison / boolean combination at the witness."""
        if isinstance(e, ast.BoolOp):
            vals = [self.truth(v) for v in e.values]
            return all(vals) if isinstance(e.op, ast.And) else any(vals)
        if isinstance(e, ast.UnaryOp) and isinstance(e.op, ast.Not):
            return not self.truth(e.operand)
        if isinstance(e, ast.Compare):
            left = self.tr(e.left)
            for op, c in zip(e.ops, e.comparators):
                right = self.tr(c)
                a, b = left.value(self.witness), right.value(self.witness)
                ok = {ast.Lt: a < b, ast.LtE: a <= b, ast.Gt: a > b, ast.GtE: a >= b,
                      ast.Eq: a == b, ast.NotEq: a != b}.get(type(op))
                if ok is None:
                    raise NotPolynomial(e, "comparison operator")
                if not ok:
                    return False
                left = right
            return True
        raise NotPolynomial(e, "condition")

    def guard_polys(self, e: ast.AST) -> list[R]:
        """left - right of every comparison in a condition (for the arrangement)."""
        out = []
        for n in ast.walk(e):
            if isinstance(n, ast.Compare):
                left = n.left
                for c in n.comparators:
                    try:
                        out.append(self.tr(left) - self.tr(c))
                    except NotPolynomial:
                        pass
                    left = c
        return out


def reduce_squares(r: R, prefix: str, to: Callable[[str], str]) -> R:
    """Rewrite sym^2 -> to(sym) for symbols starting with `prefix` (norm(x)^2 = dot(x,x),
    sqrt(y)^2 = y is left to the caller)."""
    def red(p: dict) -> dict:
        out: dict = {}
        for m, c in p.items():
            d = dict(m)
            for sname in [k for k in d if k.startswith(prefix)]:
                e = d[sname]
                if e >= 2:
                    d[sname] = e % 2
                    t = to(sname)
                    d[t] = d.get(t, 0) + e // 2
            k = tuple(sorted((a, b) for a, b in d.items() if b))
            out[k] = out.get(k, 0) + c
        return {k: v for k, v in out.items() if v != 0}
    return R(red(r.n), red(r.d))


def is_affine(r: R, ignore=("pi",)) -> bool:
    if r.d != {(): Fraction(1)}:
        return False
    return all(sum(e for s, e in m if s not in ignore) <= 1 for m in r.n)


def cells(planes: list[R], symbols: list[str], grid: list[Fraction], positive: set = frozenset(),
          extra_ok: Optional[Callable] = None):
    """One witness per sign vector of `planes` met on the grid.  -> list of (signs, point)."""
    seen = {}
    for vals in product(grid, repeat=len(symbols)):
        pt = dict(zip(symbols, vals))
        if any(pt[s] <= 0 for s in positive):
            continue
        if extra_ok is not None and not extra_ok(pt):
            continue
        def _sign(p):
            try:
                v = p.value({**pt, "pi": Fraction(355, 113)})
            except ZeroDivisionError:
                return 2  # a face that is not defined here (its denominator vanishes): a class of its own
            return (v > 0) - (v < 0)
        sv = tuple(_sign(p) for p in planes)
        seen.setdefault(sv, pt)
    return list(seen.items())


class CellEval:
    """Evaluate a def body (Assign / If / Return / Raise / Assert) at one witness.
    Returns ('return', R, node) | ('raise', None, node) | ('fall', None, None)."""

    def __init__(self, translator_factory: Callable[[dict], Translator]):
        self.tf = translator_factory

    def run(self, body: list[ast.stmt], env: dict):
        for s in body:
            t = self.tf(env)
            if isinstance(s, ast.Assign):
                if len(s.targets) == 1 and isinstance(s.targets[0], ast.Name):
                    env[s.targets[0].id] = t.tr(s.value)
                elif len(s.targets) == 1 and isinstance(s.targets[0], ast.Tuple) and isinstance(s.value, ast.Tuple) \
                        and len(s.value.elts) == len(s.targets[0].elts):
                    vals = [t.tr(v) for v in s.value.elts]
                    for tg, v in zip(s.targets[0].elts, vals):
                        env[tg.id] = v
                else:
                    raise NotPolynomial(s, "assignment form")
            elif isinstance(s, ast.AnnAssign) and s.value is not None and isinstance(s.target, ast.Name):
                env[s.target.id] = t.tr(s.value)
            elif isinstance(s, ast.AugAssign) and isinstance(s.target, ast.Name):
                cur, v = env[s.target.id], t.tr(s.value)
                env[s.target.id] = {ast.Add: cur + v, ast.Sub: cur - v, ast.Mult: cur * v}.get(type(s.op)) \
                    if type(s.op) in (ast.Add, ast.Sub, ast.Mult) else cur / v
            elif isinstance(s, ast.If):
                r = self.run(s.body if t.truth(s.test) else s.orelse, env)
                if r[0] != "fall":
                    return r
            elif isinstance(s, ast.Return):
                if s.value is None:
                    raise NotPolynomial(s, "bare return")
                return ("return", t.tr(s.value), s)
            elif isinstance(s, ast.Raise):
                return ("raise", None, s)
            elif isinstance(s, ast.Assert):
                if not t.truth(s.test):
                    return ("raise", None, s)
            elif isinstance(s, (ast.Expr, ast.Pass)):
                continue
            else:
                raise NotPolynomial(s, "statement kind")
        return ("fall", None, None)
