"""Folding of node-walking methods over witness trees.

A method such as `Tree.Node.branch` is a walk over the tree expressed through a handful of primitives of the node handle: `parent()`, `children()`, `is_furcation()`,
`is_tip()`, `is_root()`, `.id` / `.idx` / `.pid`.  Whatever the walk looks like (while loops, walrus, break, list reversal, comprehension), its result on a given tree is
determined by those primitives.  This module interprets the method's AST over *abstract node handles* of a witness topology (a parent array), with the primitives
answered from the topology, and returns what the method returns -- here the list of node ids handed to the Branch / Path constructor.  Nothing of /repo is executed; the
interpreter knows a small statement / expression subset and raises Unsupported for everything else (no verdict).
"""
from __future__ import annotations

import ast

from .model import dotted


class Unsupported(Exception):
    pass


class Budget(Exception):
    pass


class NodeV:
    __slots__ = ("i",)

    def __init__(self, i):
        self.i = int(i)

    def __eq__(self, o):
        return isinstance(o, NodeV) and o.i == self.i

    def __hash__(self):
        return hash(("node", self.i))

    def __repr__(self):
        return f"<node {self.i}>"


class Built:
    """the object a walk returns: Tree.Branch(attach, ids) / Path(...)"""

    def __init__(self, kind, ids):
        self.kind, self.ids = kind, list(ids)


class _Ret(Exception):
    def __init__(self, v):
        self.v = v


class _Break(Exception):
    pass


class _Continue(Exception):
    pass


OPAQUE = object()


class FuncRef:
    """a module-level function of the analysed module, used as a value"""

    def __init__(self, node):
        self.node = node


class DefaultDict(dict):
    def __init__(self, factory):
        super().__init__()
        self.factory = factory


class ObjEval:
    def __init__(self, pid: list, methods: dict | None = None, budget: int = 5000):
        self.pid = list(pid)
        self.n = len(pid)
        self.kids = {i: [j for j in range(self.n) if self.pid[j] == i] for i in range(self.n)}
        self.methods = methods or {}      # other methods of the class, folded when called on self / a node
        self.steps = 0
        self.budget = budget

    @staticmethod
    def _key(k):
        if isinstance(k, (int, str, bool)) or k is None:
            return k
        if isinstance(k, NodeV):
            return k
        raise Unsupported("dict key")

    def run_free(self, fn, args: dict):
        """a module-level function (no self)"""
        env = dict(args)
        try:
            self.block(fn.body, env)
        except _Ret as r:
            return r.v
        return None

    # ------------------------------------------------------------- primitives
    def prim(self, v: NodeV, name: str, args):
        i = v.i
        if name == "parent":
            return NodeV(self.pid[i]) if self.pid[i] != -1 else None
        if name == "children":
            return [NodeV(j) for j in self.kids[i]]
        if name in ("is_furcation", "is_bifurcation"):
            return len(self.kids[i]) > 1
        if name == "is_tip":
            return len(self.kids[i]) == 0
        if name == "is_root":
            return self.pid[i] == -1
        raise Unsupported(f"node method {name}")

    def attr(self, v: NodeV, name: str):
        if name in ("id", "idx"):
            return v.i
        if name == "pid":
            return self.pid[v.i]
        if name == "attach":
            return OPAQUE
        raise Unsupported(f"node attribute {name}")

    # ------------------------------------------------------------- statements
    def run(self, fn: ast.FunctionDef, self_node: NodeV, args: dict | None = None):
        env = {"self": self_node}
        env.update(args or {})
        try:
            self.block(fn.body, env)
        except _Ret as r:
            return r.v
        return None

    def tick(self):
        self.steps += 1
        if self.steps > self.budget:
            raise Budget("step budget exhausted (the walk does not terminate on this tree?)")

    def block(self, body, env):
        for st in body:
            self.stmt(st, env)

    def stmt(self, st, env):
        self.tick()
        if isinstance(st, ast.Expr):
            if isinstance(st.value, ast.Constant):
                return
            self.ev(st.value, env)
        elif isinstance(st, ast.Assign):
            v = self.ev(st.value, env)
            for t in st.targets:
                self.bind(t, v, env)
        elif isinstance(st, ast.AnnAssign):
            if st.value is not None:
                self.bind(st.target, self.ev(st.value, env), env)
        elif isinstance(st, ast.AugAssign) and isinstance(st.target, ast.Name):
            cur = self.ev(st.target, env)
            v = self.ev(st.value, env)
            env[st.target.id] = self.binop(st.op, cur, v)
        elif isinstance(st, ast.AugAssign) and isinstance(st.target, ast.Subscript):
            cur = self.ev(ast.Subscript(value=st.target.value, slice=st.target.slice, ctx=ast.Load()), env)
            self.bind(st.target, self.binop(st.op, cur, self.ev(st.value, env)), env)
        elif isinstance(st, ast.Return):
            raise _Ret(self.ev(st.value, env) if st.value is not None else None)
        elif isinstance(st, ast.If):
            self.block(st.body if self.truth(self.ev(st.test, env)) else st.orelse, env)
        elif isinstance(st, ast.While):
            broke = False
            while self.truth(self.ev(st.test, env)):
                self.tick()
                try:
                    self.block(st.body, env)
                except _Break:
                    broke = True
                    break
                except _Continue:
                    continue
            if not broke:
                self.block(st.orelse, env)
        elif isinstance(st, ast.For):
            seq = self.ev(st.iter, env)
            if not isinstance(seq, (list, tuple, range)):
                raise Unsupported("for over a non-sequence")
            broke = False
            for x in list(seq):
                self.tick()
                self.bind(st.target, x, env)
                try:
                    self.block(st.body, env)
                except _Break:
                    broke = True
                    break
                except _Continue:
                    continue
            if not broke:
                self.block(st.orelse, env)
        elif isinstance(st, ast.Break):
            raise _Break()
        elif isinstance(st, ast.Continue):
            raise _Continue()
        elif isinstance(st, ast.Pass):
            return
        elif isinstance(st, ast.Assert):
            if not self.truth(self.ev(st.test, env)):
                raise Unsupported("assertion fails")
        else:
            raise Unsupported(f"statement {type(st).__name__}")

    def bind(self, t, v, env):
        if isinstance(t, ast.Name):
            env[t.id] = v
        elif isinstance(t, (ast.Tuple, ast.List)) and isinstance(v, (list, tuple)) and len(v) == len(t.elts):
            for x, y in zip(t.elts, v):
                self.bind(x, y, env)
        elif isinstance(t, ast.Subscript):
            base = self.ev(t.value, env)
            i = self.ev(t.slice, env)
            if isinstance(base, dict):
                base[self._key(i)] = v
            elif isinstance(base, list) and isinstance(i, int):
                base[i] = v
            else:
                raise Unsupported("subscript store")
        else:
            raise Unsupported("assignment target")

    # ------------------------------------------------------------- expressions
    @staticmethod
    def truth(v):
        if v is OPAQUE:
            raise Unsupported("truth of an opaque value")
        if isinstance(v, FuncRef):
            return True
        return bool(v)

    def binop(self, op, a, b):
        if isinstance(op, ast.Add):
            return a + b
        if isinstance(op, ast.Sub):
            return a - b
        raise Unsupported("operator")

    def ev(self, e, env):
        self.tick()
        if isinstance(e, ast.Constant):
            return e.value
        if isinstance(e, ast.Name):
            if e.id in env:
                return env[e.id]
            if e.id in ("True", "False", "None"):
                return {"True": True, "False": False, "None": None}[e.id]
            if e.id in self.methods:
                return FuncRef(self.methods[e.id])
            return OPAQUE   # a class / module name
        if isinstance(e, ast.NamedExpr):
            v = self.ev(e.value, env)
            env[e.target.id] = v
            return v
        if isinstance(e, ast.Dict):
            return {self._key(self.ev(k, env)): self.ev(v, env) for k, v in zip(e.keys, e.values)}
        if isinstance(e, (ast.List, ast.Tuple)):
            out = []
            for x in e.elts:
                if isinstance(x, ast.Starred):
                    out.extend(self.ev(x.value, env))
                else:
                    out.append(self.ev(x, env))
            return out
        if isinstance(e, ast.UnaryOp):
            v = self.ev(e.operand, env)
            if isinstance(e.op, ast.Not):
                return not self.truth(v)
            if isinstance(e.op, ast.USub):
                return -v
            raise Unsupported("unary")
        if isinstance(e, ast.BoolOp):
            last = None
            for x in e.values:
                last = self.ev(x, env)
                t = self.truth(last)
                if isinstance(e.op, ast.And) and not t:
                    return last
                if isinstance(e.op, ast.Or) and t:
                    return last
            return last
        if isinstance(e, ast.IfExp):
            return self.ev(e.body if self.truth(self.ev(e.test, env)) else e.orelse, env)
        if isinstance(e, ast.BinOp):
            return self.binop(e.op, self.ev(e.left, env), self.ev(e.right, env))
        if isinstance(e, ast.Compare):
            left = self.ev(e.left, env)
            for op, c in zip(e.ops, e.comparators):
                right = self.ev(c, env)
                if isinstance(op, ast.Is):
                    r = left is right or (left is None and right is None)
                elif isinstance(op, ast.IsNot):
                    r = not (left is right or (left is None and right is None))
                elif isinstance(op, ast.Eq):
                    r = left == right
                elif isinstance(op, ast.NotEq):
                    r = left != right
                elif isinstance(op, ast.Lt):
                    r = left < right
                elif isinstance(op, ast.LtE):
                    r = left <= right
                elif isinstance(op, ast.Gt):
                    r = left > right
                elif isinstance(op, ast.GtE):
                    r = left >= right
                elif isinstance(op, ast.In):
                    r = left in right
                elif isinstance(op, ast.NotIn):
                    r = left not in right
                else:
                    raise Unsupported("comparison")
                if not r:
                    return False
                left = right
            return True
        if isinstance(e, ast.Subscript):
            base = self.ev(e.value, env)
            if isinstance(e.slice, ast.Slice):
                lo = self.ev(e.slice.lower, env) if e.slice.lower is not None else None
                hi = self.ev(e.slice.upper, env) if e.slice.upper is not None else None
                stp = self.ev(e.slice.step, env) if e.slice.step is not None else None
                if isinstance(base, list):
                    return base[slice(lo, hi, stp)]
                raise Unsupported("slice of a non-list")
            i = self.ev(e.slice, env)
            if isinstance(base, list) and isinstance(i, int):
                if not -len(base) <= i < len(base):
                    raise Unsupported("index out of range")
                return base[i]
            if isinstance(base, DefaultDict):
                return base.setdefault(self._key(i), base.factory())
            if isinstance(base, dict):
                if self._key(i) not in base:
                    raise Unsupported("missing dict key")
                return base[self._key(i)]
            raise Unsupported("subscript")
        if isinstance(e, ast.Attribute):
            base = self.ev(e.value, env)
            if isinstance(base, NodeV):
                return self.attr(base, e.attr)
            if base is OPAQUE:
                return OPAQUE
            raise Unsupported(f"attribute {e.attr}")
        if isinstance(e, ast.DictComp) and len(e.generators) == 1:
            g = e.generators[0]
            seq = self.ev(g.iter, env)
            if not isinstance(seq, (list, tuple, range)):
                raise Unsupported("comprehension over a non-sequence")
            out, saved = {}, dict(env)
            for x in list(seq):
                self.tick()
                self.bind(g.target, x, env)
                if all(self.truth(self.ev(c, env)) for c in g.ifs):
                    out[self._key(self.ev(e.key, env))] = self.ev(e.value, env)
            env.clear()
            env.update(saved)
            return out
        if isinstance(e, (ast.ListComp, ast.GeneratorExp)) and len(e.generators) == 1:
            g = e.generators[0]
            seq = self.ev(g.iter, env)
            if not isinstance(seq, (list, tuple, range)):
                raise Unsupported("comprehension over a non-sequence")
            out = []
            saved = dict(env)
            for x in list(seq):
                self.tick()
                self.bind(g.target, x, env)
                if all(self.truth(self.ev(c, env)) for c in g.ifs):
                    out.append(self.ev(e.elt, env))
            env.clear()
            env.update(saved)
            return out
        if isinstance(e, ast.Call):
            return self.call(e, env)
        raise Unsupported(f"expression {type(e).__name__}")

    def call(self, e: ast.Call, env):
        fn = dotted(e.func) or ""
        last = fn.rsplit(".", 1)[-1] if fn else (e.func.attr if isinstance(e.func, ast.Attribute) else "")
        if last in ("Branch", "Path") and len(e.args) >= 2:
            ids = self.ev(e.args[1], env)
            if isinstance(ids, list) and all(isinstance(x, int) for x in ids):
                return Built(last, ids)
            raise Unsupported("constructor argument")
        if isinstance(e.func, ast.Subscript) and isinstance(e.func.value, ast.Name) and e.func.value.id in ("dict", "list", "set") and not e.args:
            return {} if e.func.value.id == "dict" else []   # `dict[int, list[int]]()`
        if isinstance(e.func, ast.Name) and callable(env.get(e.func.id)) :
            host = env[e.func.id]
            return host(*[self.ev(a, env) for a in e.args], **{k.arg: self.ev(k.value, env) for k in e.keywords if k.arg})
        if isinstance(e.func, ast.Name) and (isinstance(env.get(e.func.id), FuncRef) or (e.func.id in self.methods and e.func.id not in env)):
            fn_ = env[e.func.id].node if isinstance(env.get(e.func.id), FuncRef) else self.methods[e.func.id]
            names_ = [a.arg for a in fn_.args.posonlyargs + fn_.args.args]
            vals_ = [self.ev(a, env) for a in e.args]
            sub = dict(zip(names_, vals_))
            for k in e.keywords:
                if k.arg:
                    sub[k.arg] = self.ev(k.value, env)
            defaults = fn_.args.defaults
            for i_, nm_ in enumerate(names_):
                if nm_ not in sub:
                    j_ = i_ - (len(names_) - len(defaults))
                    if j_ >= 0:
                        sub[nm_] = self.ev(defaults[j_], {})
            for a_, d_ in zip(fn_.args.kwonlyargs, fn_.args.kw_defaults):
                if a_.arg not in sub and d_ is not None:
                    sub[a_.arg] = self.ev(d_, {})
            return self.run_free(fn_, sub)
        if isinstance(e.func, ast.Name):
            args = []
            for a in e.args:
                if isinstance(a, ast.Starred):
                    args.extend(self.ev(a.value, env))
                else:
                    args.append(self.ev(a, env))
            if last == "len" and len(args) == 1 and isinstance(args[0], (list, tuple, dict)):
                return len(args[0])
            if last == "zip" and all(isinstance(a, (list, tuple)) for a in args):
                return [list(t) for t in zip(*args)]
            if last == "defaultdict" and len(e.args) == 1 and isinstance(e.args[0], ast.Name) and e.args[0].id in ("list", "int"):
                return DefaultDict(list if e.args[0].id == "list" else int)
            if last == "dict" and not args:
                return {}
            if last == "enumerate" and len(args) == 1 and isinstance(args[0], (list, tuple)):
                return [[i, x] for i, x in enumerate(args[0])]
            if last in ("sum",) and len(args) == 1 and isinstance(args[0], list):
                return sum(args[0])
            if last in ("any", "all") and len(args) == 1 and isinstance(args[0], list):
                return {"any": any, "all": all}[last](self.truth(x) for x in args[0])
            if last in ("list", "tuple") and len(args) == 1 and isinstance(args[0], (list, tuple, range)):
                return list(args[0])
            if last == "reversed" and len(args) == 1 and isinstance(args[0], (list, tuple)):
                return list(reversed(args[0]))
            if last == "range":
                return list(range(*args))
            if last in ("int", "bool") and len(args) == 1:
                return {"int": int, "bool": bool}[last](args[0])
            raise Unsupported(f"call {last}")
        if isinstance(e.func, ast.Attribute):
            recv = self.ev(e.func.value, env)
            args = [self.ev(a, env) for a in e.args]
            if isinstance(recv, NodeV):
                if last in self.methods and last not in ("parent", "children", "is_furcation", "is_tip", "is_root", "is_bifurcation"):
                    m = self.methods[last]
                    params = [a.arg for a in m.args.args if a.arg != "self"]
                    return self.run(m, recv, dict(zip(params, args)))
                return self.prim(recv, last, args)
            if isinstance(recv, dict):
                if last == "get":
                    k = self._key(args[0])
                    return recv[k] if k in recv else (args[1] if len(args) > 1 else None)
                if last == "setdefault" and len(args) == 2:
                    return recv.setdefault(self._key(args[0]), args[1])
                if last == "items" and not args:
                    return [[k, v] for k, v in recv.items()]
                if last == "keys" and not args:
                    return list(recv.keys())
                if last == "values" and not args:
                    return list(recv.values())
                if last == "pop" and args:
                    k = self._key(args[0])
                    if k in recv:
                        return recv.pop(k)
                    if len(args) > 1:
                        return args[1]
                    raise Unsupported("pop of a missing key")
            if isinstance(recv, list):
                if last == "append" and len(args) == 1:
                    recv.append(args[0])
                    return None
                if last == "extend" and len(args) == 1:
                    recv.extend(args[0])
                    return None
                if last == "insert" and len(args) == 2:
                    recv.insert(args[0], args[1])
                    return None
                if last == "reverse" and not args:
                    recv.reverse()
                    return None
                if last == "pop":
                    return recv.pop(*args)
                if last == "copy":
                    return list(recv)
                if last == "index" and len(args) == 1:
                    return recv.index(args[0])
            raise Unsupported(f"method {last}")
        raise Unsupported("call")


def small_trees(max_n: int = 6):
    """all parent arrays pid[0] = -1, pid[i] < i for 1..max_n nodes (ids = positions, parents first)"""
    out = [[-1]]
    frontier = [[-1]]
    for n in range(2, max_n + 1):
        nxt = []
        for p in frontier:
            for q in range(n - 1):
                nxt.append(p + [q])
        out += nxt
        frontier = nxt
    return out
