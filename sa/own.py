"""E4 -- ownership / freshness abstract interpreter.

Abstract values carry *owner sets*: the protected inputs (parameters of the
operation under analysis) whose storage a value may share (arrays) or whose very
object it may be (trees, dicts, lists).  Empty set = fresh.  The interpreter walks
statements in order (both arms of a branch, loop bodies twice), evaluates repo
callees on demand with the abstract arguments (depth-limited, recursion-guarded)
and applies a small numpy view/copy table.  Effects:

  * WRITE through a value whose owners are non-empty      -> violation candidate
  * result value (re)using input storage / the input object -> violation candidate

No repo code is executed: values are never concrete.
"""

from __future__ import annotations

import ast
from dataclasses import dataclass, field
from typing import Optional

from .model import ClassInfo, Def, Module, Repo, dotted, norm_src

EMPTY = frozenset()


# ------------------------------------------------------------------ values
class V:
    pass


@dataclass(eq=False)
class Opaque(V):
    """A value the analysis does not track (numbers, strings, user callbacks...)."""
    why: str = ""
    pytype: Optional[str] = None  # one of: str int float bool none slice num


@dataclass(eq=False)
class Arr(V):
    owners: frozenset = EMPTY  # inputs whose storage this array may share


@dataclass(eq=False)
class Obj(V):
    cls: Optional[ClassInfo]
    fields: dict = field(default_factory=dict)
    obj_owners: frozenset = EMPTY  # inputs this object may *be*


@dataclass(eq=False)
class DictV(V):
    val: V = None
    obj_owners: frozenset = EMPTY
    items: Optional[dict] = None  # constant string key -> value, when known


@dataclass(eq=False)
class ListV(V):
    elem: V = None
    obj_owners: frozenset = EMPTY


@dataclass(eq=False)
class TupleV(V):
    elts: list = field(default_factory=list)


@dataclass(eq=False)
class FuncV(V):
    d: Def
    bound: Optional[V] = None
    env: Optional[dict] = None  # closure environment (for nested defs)


@dataclass(eq=False)
class ClassV(V):
    cls: ClassInfo


@dataclass(eq=False)
class ModV(V):
    name: str  # external dotted name or repo module


def join(a: Optional[V], b: Optional[V]) -> Optional[V]:
    if a is None:
        return b
    if b is None:
        return a
    if a is b:
        return a
    if isinstance(a, Arr) and isinstance(b, Arr):
        return Arr(a.owners | b.owners)
    if isinstance(a, Obj) and isinstance(b, Obj):
        cls = a.cls if a.cls is b.cls else _common(a.cls, b.cls)
        f = {}
        for k in set(a.fields) | set(b.fields):
            f[k] = join(a.fields.get(k), b.fields.get(k))
        return Obj(cls, f, a.obj_owners | b.obj_owners)
    if isinstance(a, DictV) and isinstance(b, DictV):
        return DictV(join(a.val, b.val), a.obj_owners | b.obj_owners)
    if isinstance(a, FuncV) and isinstance(b, FuncV):
        return a if a.d is b.d else Opaque("callables")
    if isinstance(a, ListV) and isinstance(b, ListV):
        return ListV(join(a.elem, b.elem), a.obj_owners | b.obj_owners)
    if isinstance(a, TupleV) and isinstance(b, TupleV) and len(a.elts) == len(b.elts):
        return TupleV([join(x, y) for x, y in zip(a.elts, b.elts)])
    # a slice object on one path, an index array on the other: indexing with the result is basic slicing (a VIEW) on the first path
    for x, y in ((a, b), (b, a)):
        if isinstance(x, Opaque) and x.pytype == "slice" and isinstance(y, (Arr, ListV)):
            return Opaque("slice on one path, index array on another", "slice")
    if isinstance(a, Opaque):
        return b if not isinstance(b, Opaque) else a
    if isinstance(b, Opaque):
        return a
    # mixed kinds: keep owners
    o = storage_owners(a) | storage_owners(b)
    return Arr(o) if o else Opaque("mixed")


def _common(a, b):
    if a is None or b is None:
        return a or b
    for k in a.mro():
        if k in b.mro():
            return k
    return a


def storage_owners(v: Optional[V], _seen=None) -> frozenset:
    """All inputs whose storage/object is reachable from v."""
    if v is None:
        return EMPTY
    _seen = _seen if _seen is not None else set()
    if id(v) in _seen:
        return EMPTY
    _seen.add(id(v))
    if isinstance(v, Arr):
        return v.owners
    if isinstance(v, Obj):
        o = v.obj_owners
        for f in v.fields.values():
            o |= storage_owners(f, _seen)
        return o
    if isinstance(v, DictV):
        return v.obj_owners | storage_owners(v.val, _seen)
    if isinstance(v, ListV):
        return v.obj_owners | storage_owners(v.elem, _seen)
    if isinstance(v, TupleV):
        o = EMPTY
        for e in v.elts:
            o |= storage_owners(e, _seen)
        return o
    return EMPTY


def deep_fresh(v: Optional[V], memo=None) -> Optional[V]:
    memo = memo if memo is not None else {}
    if v is None or isinstance(v, (Opaque, FuncV, ClassV, ModV)):
        return v
    if id(v) in memo:
        return memo[id(v)]
    if isinstance(v, Arr):
        r = Arr(EMPTY)
    elif isinstance(v, Obj):
        r = Obj(v.cls, {}, EMPTY)
        memo[id(v)] = r
        r.fields = {k: deep_fresh(x, memo) for k, x in v.fields.items()}
        return r
    elif isinstance(v, DictV):
        r = DictV(None, EMPTY)
        memo[id(v)] = r
        r.val = deep_fresh(v.val, memo)
        return r
    elif isinstance(v, ListV):
        r = ListV(None, EMPTY)
        memo[id(v)] = r
        r.elem = deep_fresh(v.elem, memo)
        return r
    elif isinstance(v, TupleV):
        r = TupleV([deep_fresh(e, memo) for e in v.elts])
    else:
        r = v
    memo[id(v)] = r
    return r


# numpy view / copy table (DESIGN appendix C)
NP_VIEW = {"asarray", "asanyarray", "reshape", "ravel", "transpose", "squeeze", "expand_dims",
           "moveaxis", "swapaxes", "flip", "atleast_1d", "atleast_2d", "broadcast_to", "real",
           "ascontiguousarray"}
ARR_VIEW_METHODS = {"reshape", "ravel", "transpose", "squeeze", "view", "swapaxes", "to_numpy",
                    "values", "T", "flat", "real"}
ARR_INPLACE_METHODS = {"sort", "fill", "resize", "put", "itemset", "partition", "setfield", "clip_"}
LIST_MUT = {"append", "extend", "insert", "remove", "pop", "clear", "reverse", "sort"}
DICT_MUT = {"update", "pop", "setdefault", "clear", "popitem"}


@dataclass
class Effect:
    kind: str  # 'write' | 'mutate'
    owners: frozenset
    d: Def
    node: ast.AST
    chain: tuple

    def where(self) -> str:
        return self.d.loc(self.node)


class Interp:
    MAX_DEPTH = 18

    def __init__(self, ctx):
        self.ctx = ctx
        self.repo: Repo = ctx.repo
        self.effects: list[Effect] = []
        self.notes: list[str] = []
        self._stack: list[Def] = []
        self.calls_evaluated = 0
        self.stores_seen = 0

    # -------------------------------------------------------------- helpers
    def note(self, d: Def, node, msg: str) -> None:
        s = f"{d.loc(node)} {msg}"
        if s not in self.notes:
            self.notes.append(s)

    def effect(self, kind, owners, d, node):
        if owners:
            self.effects.append(Effect(kind, owners, d, node, tuple(x.qualname for x in self._stack)))

    def param_tree(self, cls: ClassInfo, pid: str) -> Obj:
        o = frozenset([pid])
        return Obj(cls, {"ndata": DictV(Arr(o), o), "comments": ListV(Opaque(), o),
                         "names": Opaque("names"), "types": Opaque(), "source": Opaque()}, o)

    def param_view(self, cls: ClassInfo, pid: str) -> Obj:
        """A Path/Branch/Compartment/Node handle attached to a protected tree."""
        o = frozenset([pid])
        attach = self.param_tree(self.repo.get_class("swcgeom.core.swc.DictSWC"), pid)
        idx = Arr(EMPTY)
        node_cls = self.repo.get_class("swcgeom.core.node.Node")
        if cls.is_subclass_of(node_cls):
            idx = Opaque("scalar index")
        return Obj(cls, {"attach": attach, "idx": idx, "names": Opaque("names"),
                         "source": Opaque(), "comments": ListV(Opaque(), o)}, o)

    def is_tree_class(self, c: Optional[ClassInfo]) -> bool:
        if c is None:
            return False
        base = self.repo.get_class("swcgeom.core.swc.SWCLike")
        return c.is_subclass_of(base)

    def is_handle_class(self, c: Optional[ClassInfo]) -> bool:
        if c is None:
            return False
        return c.is_subclass_of(self.repo.get_class("swcgeom.core.node.Node")) or \
            c.is_subclass_of(self.repo.get_class("swcgeom.core.path.Path"))

    def value_for_annotation(self, d: Def, pname: str, pid: Optional[str]) -> V:
        ann = d.param_annotation(pname)
        t = self.ctx.typer.ann_type(ann, d.module, d.parent, self.repo.enclosing_class(d),
                                    cls_ctx=d.cls, tv_ctx=d.cls) if ann is not None else None
        if isinstance(t, ClassInfo) and pid is not None:
            if self.is_handle_class(t):
                return self.param_view(t, pid)
            if self.is_tree_class(t):
                return self.param_tree(t, pid)
        return Opaque(f"param {pname}")

    # -------------------------------------------------------------- calls
    def call_def(self, d: Def, args: list, kwargs: dict, caller: Optional[Def] = None,
                 node=None, closure: Optional[dict] = None) -> V:
        if d in self._stack or len(self._stack) >= self.MAX_DEPTH:
            if caller is not None:
                self.note(caller, node, f"call to {d.qualname} not expanded (recursion/depth)")
            return Opaque("depth")
        self.calls_evaluated += 1
        env = dict(closure or {})
        a = d.node.args
        pos = [x.arg for x in a.posonlyargs + a.args]
        defaults = a.defaults
        rest = list(args)
        for i, p in enumerate(pos):
            if rest:
                env[p] = rest.pop(0)
            elif p in kwargs:
                env[p] = kwargs.pop(p)
            else:
                j = i - (len(pos) - len(defaults))
                env[p] = self._default(d, defaults[j]) if j >= 0 else Opaque("missing")
        if a.vararg:
            env[a.vararg.arg] = ListV(_join_all(rest), EMPTY)
        for k, dflt in zip(a.kwonlyargs, a.kw_defaults):
            if k.arg in kwargs:
                env[k.arg] = kwargs.pop(k.arg)
            else:
                env[k.arg] = self._default(d, dflt) if dflt is not None else Opaque("missing")
        if a.kwarg:
            star = kwargs.pop("**", None)
            named = {k: v for k, v in kwargs.items()}
            vals = _join_all(list(named.values()) + ([star] if star is not None else []))
            env[a.kwarg.arg] = DictV(vals, EMPTY, named)
        self._stack.append(d)
        try:
            fr = Frame(self, d, env)
            if d.is_lambda:
                return fr.expr(d.node.body)
            fr.block(d.node.body)
            return fr.ret if fr.ret is not None else Opaque("None")
        finally:
            self._stack.pop()

    def _default(self, d: Def, e: ast.AST) -> V:
        if isinstance(e, ast.Constant):
            return Opaque("const")
        return Opaque("default")

    def construct(self, cls: ClassInfo, args: list, kwargs: dict, caller=None, node=None) -> V:
        obj = Obj(cls, {}, EMPTY)
        init = cls.lookup_method("__init__")
        if init is not None:
            self.call_def(init, [obj] + args, kwargs, caller, node)
        return obj

    def call_method(self, recv: V, cls: Optional[ClassInfo], name: str, args, kwargs, caller, node) -> V:
        """Dynamic dispatch on the abstract receiver class (joins overrides of abstract methods)."""
        if cls is None:
            return Opaque("no class")
        m = cls.lookup_method(name)
        targets = []
        if m is not None and not _is_abstract(m):
            targets.append(m)
        elif m is not None:
            for sub in self.repo.subclasses(cls):
                sm = sub.methods.get(name)
                if sm is not None and not _is_abstract(sm) and sm not in targets:
                    targets.append(sm)
        if not targets:
            return Opaque(f"no method {name}")
        res = None
        for t in targets:
            a = list(args)
            if not t.is_staticmethod():
                a = [ClassV(cls) if t.is_classmethod() else recv] + a
            res = join(res, self.call_def(t, a, dict(kwargs), caller, node))
        return res


def _is_abstract(d: Def) -> bool:
    if "abstractmethod" in d.decorators:
        return True
    body = [s for s in d.node.body if not (isinstance(s, ast.Expr) and isinstance(s.value, ast.Constant))]
    return len(body) == 1 and isinstance(body[0], ast.Raise) and "NotImplementedError" in norm_src(body[0])


def _join_all(vs):
    r = None
    for v in vs:
        r = join(r, v)
    return r if r is not None else Opaque("empty")


class Frame:
    def __init__(self, interp: Interp, d: Def, env: dict):
        self.I = interp
        self.d = d
        self.env = env
        self.ret: Optional[V] = None
        self.repo = interp.repo
        self.done = False  # the current straight-line path has returned / raised
        self.skip = False  # break / continue seen in the current block

    # ---------------------------------------------------------- statements
    def block(self, stmts) -> None:
        for s in stmts:
            if self.done or self.skip:
                return
            self.stmt(s)

    def isinstance_test(self, test) -> Optional[bool]:
        """Decide isinstance(x, T) / x is None / x is not None on abstract values."""
        if isinstance(test, ast.UnaryOp) and isinstance(test.op, ast.Not):
            r = self.isinstance_test(test.operand)
            return None if r is None else (not r)
        if isinstance(test, ast.Compare) and len(test.ops) == 1 and isinstance(test.ops[0], (ast.Is, ast.IsNot)) \
                and isinstance(test.comparators[0], ast.Constant) and test.comparators[0].value is None:
            v = self.expr(test.left)
            isnone = None
            if isinstance(v, Opaque):
                isnone = True if v.pytype == "none" else (False if v.pytype is not None else None)
            elif isinstance(v, (Arr, Obj, ListV, DictV, TupleV, FuncV, ClassV)):
                isnone = False
            if isnone is None:
                return None
            return isnone if isinstance(test.ops[0], ast.Is) else (not isnone)
        if not (isinstance(test, ast.Call) and dotted(test.func) == "isinstance" and len(test.args) == 2):
            return None
        v = self.expr(test.args[0])
        ts = test.args[1].elts if isinstance(test.args[1], ast.Tuple) else [test.args[1]]
        names = [(dotted(t) or "?").split(".")[-1] for t in ts]
        res = [self._isinst(v, n) for n in names]
        if any(r is True for r in res):
            return True
        if all(r is False for r in res):
            return False
        return None

    _PRIMS = ("list", "str", "slice", "dict", "int", "integer", "ndarray", "tuple", "float", "floating")

    def _isinst(self, v: V, tname: str) -> Optional[bool]:
        if isinstance(v, Opaque):
            if v.pytype is None:
                return None
            table = {"str": {"str"}, "int": {"int", "integer"}, "bool": {"bool", "int"},
                     "float": {"float", "floating"}, "slice": {"slice"}, "none": set()}
            if v.pytype == "num":
                return False if tname in ("str", "slice", "list", "dict", "tuple", "ndarray") else None
            return tname in table.get(v.pytype, set())
        if isinstance(v, Arr):
            if tname == "ndarray":
                return True
            return False if tname in ("str", "slice", "list", "dict", "tuple") else None
        if isinstance(v, ListV):
            return tname == "list" if tname in self._PRIMS else None
        if isinstance(v, DictV):
            return tname == "dict" if tname in self._PRIMS else None
        if isinstance(v, TupleV):
            return tname == "tuple" if tname in self._PRIMS else None
        if isinstance(v, Obj) and v.cls is not None and not isinstance(v.cls, _SuperProxy):
            if tname in self._PRIMS:
                return False
            if tname in {k.name for k in v.cls.mro()}:
                return True
            return None
        return None

    def stmt(self, s) -> None:
        if isinstance(s, ast.Expr):
            self.expr(s.value)
        elif isinstance(s, ast.Assign):
            v = self.expr(s.value)
            for t in s.targets:
                if isinstance(t, (ast.Tuple, ast.List)) and isinstance(s.value, ast.Tuple) \
                        and len(t.elts) == len(s.value.elts) and isinstance(v, TupleV):
                    # a, b = b, a  : evaluate all right sides first (done), then bind
                    for te, ve in zip(t.elts, v.elts):
                        self.assign(te, ve, s)
                else:
                    self.assign(t, v, s)
        elif isinstance(s, ast.AnnAssign):
            if s.value is not None:
                self.assign(s.target, self.expr(s.value), s)
        elif isinstance(s, ast.AugAssign):
            cur = self.expr(_as_load(s.target))
            rhs = self.expr(s.value)
            if isinstance(s.target, ast.Subscript):
                # `a[index] op= e` stores into `a` itself, whatever the index is (a mask or an index array selects cells of `a`;
                # the copy that `a[mask]` would be as an *expression* is never made)
                base = self.expr(_as_load(s.target.value))
                if isinstance(base, Arr):
                    cur = base
            if isinstance(cur, Arr):
                # in-place on the array the target denotes
                self.I.stores_seen += 1
                self.I.effect("write", cur.owners, self.d, s)
            elif isinstance(cur, (ListV, DictV)):
                self.I.effect("mutate", cur.obj_owners, self.d, s)
                if isinstance(cur, ListV):
                    cur.elem = join(cur.elem, rhs.elem if isinstance(rhs, ListV) else rhs)
            elif isinstance(s.target, ast.Name):
                self.env[s.target.id] = join(cur, rhs) if isinstance(rhs, (Arr,)) else cur
            else:
                self.assign(s.target, cur, s)
        elif isinstance(s, ast.If):
            decided = self.isinstance_test(s.test)
            if decided is None:
                self.expr(s.test)
            if decided is True:
                self.block(s.body)
            elif decided is False:
                self.block(s.orelse)
            else:
                e0 = dict(self.env)
                self.block(s.body)
                d1, k1 = self.done, self.skip
                self.done = self.skip = False
                e1 = self.env
                self.env = dict(e0)
                self.block(s.orelse)
                d2, k2 = self.done, self.skip
                self.env = e1 if (d2 or k2) else (self.env if (d1 or k1) else _join_env(e1, self.env))
                self.done = d1 and d2
                self.skip = (d1 or k1) and (d2 or k2) and not self.done
        elif isinstance(s, (ast.For, ast.AsyncFor)):
            it = self.expr(s.iter)
            for _ in range(2):
                self.assign(s.target, self.elem_of(it), s)
                e0 = dict(self.env)
                self.block(s.body)
                self.done = self.skip = False
                self.env = _join_env(e0, self.env)
            self.block(s.orelse)
        elif isinstance(s, ast.While):
            for _ in range(2):
                self.expr(s.test)
                e0 = dict(self.env)
                self.block(s.body)
                self.done = self.skip = False
                self.env = _join_env(e0, self.env)
            self.block(s.orelse)
        elif isinstance(s, ast.Return):
            v = self.expr(s.value) if s.value is not None else Opaque("None", "none")
            self.ret = join(self.ret, v)
            self.done = True
        elif isinstance(s, (ast.With, ast.AsyncWith)):
            for item in s.items:
                v = self.expr(item.context_expr)
                if item.optional_vars is not None:
                    self.assign(item.optional_vars, Opaque("with"), s)
            self.block(s.body)
        elif isinstance(s, ast.Try):
            self.block(s.body)
            dbody = self.done
            self.done = False
            for h in s.handlers:
                e0 = dict(self.env)
                if h.name:
                    self.env[h.name] = Opaque("exc")
                self.block(h.body)
                self.done = False
                self.env = _join_env(e0, self.env)
            if not dbody:
                self.block(s.orelse)
            self.block(s.finalbody)
            self.done = dbody and not s.handlers
        elif isinstance(s, ast.Match):
            subj = self.expr(s.subject)
            envs = []
            e0 = dict(self.env)
            alld = True
            for c in s.cases:
                self.env = dict(e0)
                for n in ast.walk(c.pattern):
                    if isinstance(n, (ast.MatchAs, ast.MatchStar)) and n.name:
                        self.env[n.name] = subj
                self.block(c.body)
                if not self.done:
                    envs.append(self.env)
                    alld = False
                self.done = self.skip = False
            out = None
            for e in envs:
                out = e if out is None else _join_env(out, e)
            self.env = out if out is not None else e0
            irref = any(isinstance(c.pattern, ast.MatchAs) and c.pattern.pattern is None and c.guard is None
                        for c in s.cases)
            self.done = alld and irref
        elif isinstance(s, (ast.FunctionDef, ast.AsyncFunctionDef)):
            nd = self.repo.def_of_node.get(id(s))
            if nd is not None:
                self.env[s.name] = FuncV(nd, None, self.env)
        elif isinstance(s, ast.Delete):
            for t in s.targets:
                if isinstance(t, ast.Subscript):
                    base = self.expr(t.value)
                    if isinstance(base, (DictV, ListV)):
                        self.I.effect("mutate", base.obj_owners, self.d, s)
                    elif isinstance(base, Arr):
                        self.I.effect("write", base.owners, self.d, s)
        elif isinstance(s, (ast.Raise, ast.Assert, ast.Pass, ast.Break, ast.Continue, ast.Import,
                            ast.ImportFrom, ast.Global, ast.Nonlocal, ast.ClassDef)):
            if isinstance(s, ast.Assert):
                self.expr(s.test)
            elif isinstance(s, ast.Raise):
                self.done = True
            elif isinstance(s, (ast.Break, ast.Continue)):
                self.skip = True
        else:
            self.I.note(self.d, s, f"statement {type(s).__name__} not modelled")

    # ---------------------------------------------------------- assignment
    def assign(self, t, v: V, s) -> None:
        if isinstance(t, ast.Name):
            self._bind_name(t.id, v)
        elif isinstance(t, (ast.Tuple, ast.List)):
            if isinstance(v, TupleV) and len(v.elts) == len(t.elts):
                for te, ve in zip(t.elts, v.elts):
                    self.assign(te, ve, s)
            else:
                e = self.elem_of(v)
                for te in t.elts:
                    self.assign(te.value if isinstance(te, ast.Starred) else te, e, s)
        elif isinstance(t, ast.Starred):
            self.assign(t.value, ListV(self.elem_of(v), EMPTY), s)
        elif isinstance(t, ast.Subscript):
            base = self.expr(t.value)
            self.expr(t.slice)
            self.I.stores_seen += 1
            if isinstance(base, Arr):
                self.I.effect("write", base.owners, self.d, s)
            elif isinstance(base, DictV):
                self.I.effect("mutate", base.obj_owners, self.d, s)
                base.val = join(base.val, v)
            elif isinstance(base, ListV):
                self.I.effect("mutate", base.obj_owners, self.d, s)
                base.elem = join(base.elem, v)
            elif isinstance(base, Obj):
                r = self.I.call_method(base, base.cls, "__setitem__", [self.expr(t.slice), v], {},
                                       self.d, s)
            elif isinstance(base, TupleV):
                pass
        elif isinstance(t, ast.Attribute):
            base = self.expr(t.value)
            self.I.stores_seen += 1
            if isinstance(base, Obj):
                setter = base.cls.lookup(t.attr + ".setter") if base.cls is not None else None
                if isinstance(setter, Def):
                    self.I.call_def(setter, [base, v], {}, self.d, s)
                else:
                    self.I.effect("mutate", base.obj_owners, self.d, s)
                    base.fields[t.attr] = v
        else:
            self.I.note(self.d, s, "assignment target not modelled")

    def _bind_name(self, name: str, v: V) -> None:
        # nonlocal writes go to the closure's environment object when present
        self.env[name] = v

    # ---------------------------------------------------------- expressions
    def elem_of(self, v: V) -> V:
        if isinstance(v, ListV):
            return v.elem if v.elem is not None else Opaque("empty list")
        if isinstance(v, TupleV):
            return _join_all(v.elts)
        if isinstance(v, DictV):
            return Opaque("key", "str")
        if isinstance(v, Arr):
            if v.owners:
                # storage shared with an input is a column of the node table (1-D): iterating it yields scalars, which alias nothing
                return Opaque("scalar element of a column")
            return Arr(v.owners)  # iterating a fresh 2-D array yields row views (of that fresh array)
        if isinstance(v, Obj) and v.cls is not None:
            it = v.cls.lookup_method("__iter__")
            if it is not None:
                r = self.I.call_def(it, [v], {}, self.d, None)
                if r is v or isinstance(r, Obj):
                    return Opaque("iterator")
                return self.elem_of(r)
            # list subclass (Compartments)
            if "list" in " ".join(b for k in v.cls.mro() for b in
                                  [norm_src(x) for x in k.base_exprs]):
                return v.fields.get("__elem__", Opaque("elem"))
        return Opaque("elem")

    def lookup(self, name: str) -> Optional[V]:
        if name in self.env:
            return self.env[name]
        r = self.repo.lookup_name(name, self.d.module, self.d)
        return self.entity(r)

    def entity(self, r) -> V:
        if isinstance(r, Def):
            return FuncV(r, None, None)
        if isinstance(r, ClassInfo):
            return ClassV(r)
        if isinstance(r, Module):
            return ModV(r.name)
        if isinstance(r, tuple):
            if r[0] == "ext":
                return ModV(r[1])
            if r[0] == "builtin":
                return ModV("builtins." + r[1])
            if r[0] == "const":
                return Opaque("module constant")
            if r[0] == "local":
                # variable of an enclosing function not captured in env
                return Opaque("enclosing local")
        return Opaque("unresolved name")

    def expr(self, e) -> V:
        if e is None:
            return Opaque("None")
        m = getattr(self, "e_" + type(e).__name__, None)
        if m is None:
            self.I.note(self.d, e, f"expression {type(e).__name__} not modelled")
            for ch in ast.iter_child_nodes(e):
                if isinstance(ch, ast.expr):
                    self.expr(ch)
            return Opaque("expr")
        return m(e)

    def e_Constant(self, e):
        v = e.value
        t = ("none" if v is None else "bool" if isinstance(v, bool) else "int" if isinstance(v, int)
             else "float" if isinstance(v, float) else "str" if isinstance(v, str) else None)
        return Opaque("const", t)

    def e_JoinedStr(self, e):
        for v in e.values:
            if isinstance(v, ast.FormattedValue):
                self.expr(v.value)
        return Opaque("str", "str")

    def e_Name(self, e):
        return self.lookup(e.id)

    def e_NamedExpr(self, e):
        v = self.expr(e.value)
        self.env[e.target.id] = v
        return v

    def e_Tuple(self, e):
        return TupleV([self.expr(x.value if isinstance(x, ast.Starred) else x) for x in e.elts])

    def e_List(self, e):
        return ListV(_join_all([self.expr(x.value if isinstance(x, ast.Starred) else x)
                                for x in e.elts]) if e.elts else None, EMPTY)

    def e_Set(self, e):
        return ListV(_join_all([self.expr(x) for x in e.elts]), EMPTY)

    def e_Dict(self, e):
        vals = []
        items = {}
        for k, v in zip(e.keys, e.values):
            if k is None:
                dv = self.expr(v)
                vals.append(dv.val if isinstance(dv, DictV) else dv)
                if isinstance(dv, DictV) and dv.items:
                    items.update(dv.items)
            else:
                self.expr(k)
                vv = self.expr(v)
                vals.append(vv)
                if isinstance(k, ast.Constant) and isinstance(k.value, str):
                    items[k.value] = vv
        return DictV(_join_all(vals) if vals else None, EMPTY, items or None)

    def _comp(self, gens, f):
        saved = dict(self.env)
        for g in gens:
            it = self.expr(g.iter)
            self.assign(g.target, self.elem_of(it), g)
            for c in g.ifs:
                self.expr(c)
        r = f()
        for k in list(self.env):
            if k not in saved:
                del self.env[k]
            else:
                self.env[k] = saved[k]
        return r

    def e_ListComp(self, e):
        return ListV(self._comp(e.generators, lambda: self.expr(e.elt)), EMPTY)

    e_SetComp = e_ListComp
    e_GeneratorExp = e_ListComp

    def e_DictComp(self, e):
        def f():
            self.expr(e.key)
            return self.expr(e.value)
        return DictV(self._comp(e.generators, f), EMPTY)

    def e_BinOp(self, e):
        a, b = self.expr(e.left), self.expr(e.right)
        if isinstance(a, ListV) and isinstance(b, ListV) and isinstance(e.op, ast.Add):
            return ListV(join(a.elem, b.elem), EMPTY)
        if isinstance(a, Arr) or isinstance(b, Arr):
            return Arr(EMPTY)  # arithmetic allocates
        return Opaque("binop")

    def e_UnaryOp(self, e):
        v = self.expr(e.operand)
        return Arr(EMPTY) if isinstance(v, Arr) else Opaque("unary")

    def e_BoolOp(self, e):
        return _join_all([self.expr(v) for v in e.values])

    def e_Compare(self, e):
        vs = [self.expr(e.left)] + [self.expr(c) for c in e.comparators]
        return Arr(EMPTY) if any(isinstance(v, Arr) for v in vs) else Opaque("bool")

    def e_IfExp(self, e):
        decided = self.isinstance_test(e.test)
        if decided is True:
            return self.expr(e.body)
        if decided is False:
            return self.expr(e.orelse)
        self.expr(e.test)
        return join(self.expr(e.body), self.expr(e.orelse))

    def e_Lambda(self, e):
        nd = self.repo.def_of_node.get(id(e))
        return FuncV(nd, None, self.env) if nd is not None else Opaque("lambda")

    def e_Starred(self, e):
        return self.expr(e.value)

    def e_Slice(self, e):
        for x in (e.lower, e.upper, e.step):
            if x is not None:
                self.expr(x)
        return Opaque("slice", "slice")

    def e_Await(self, e):
        return self.expr(e.value)

    def e_Yield(self, e):
        if e.value is not None:
            self.ret = join(self.ret, ListV(self.expr(e.value), EMPTY))
        return Opaque("yield")

    # subscripts ------------------------------------------------------------
    def _is_fancy(self, sl: ast.AST, v: V) -> bool:
        """Advanced indexing (always a copy)."""
        if isinstance(sl, ast.Tuple):
            return any(self._is_fancy(x, self.expr(x)) for x in sl.elts)
        if isinstance(sl, ast.Slice):
            return False
        if isinstance(sl, (ast.Compare, ast.List, ast.ListComp)):
            return True
        return isinstance(v, (Arr, ListV))

    def e_Subscript(self, e):
        base = self.expr(e.value)
        idx = self.expr(e.slice)
        if isinstance(base, Arr):
            if self._is_fancy(e.slice, idx):
                return Arr(EMPTY)
            if isinstance(idx, Opaque) and idx.pytype == "slice":
                return Arr(base.owners)  # indexed with a slice object held in a variable: a view
            if base.owners and not isinstance(e.slice, (ast.Slice, ast.Tuple)) and not (isinstance(e.slice, ast.Constant) and e.slice.value is Ellipsis) \
                    and isinstance(idx, Opaque):
                # a column of the node table (1-D) indexed by a scalar: a numpy scalar, which aliases nothing (`v = col[i]; v += 1` re-binds v)
                return Opaque("scalar element of a column")
            return Arr(base.owners)  # basic slicing: a view
        if isinstance(base, DictV):
            return base.val if base.val is not None else Opaque("dict value")
        if isinstance(base, ListV):
            if isinstance(e.slice, ast.Slice):
                return ListV(base.elem, EMPTY)
            return base.elem if base.elem is not None else Opaque("list elem")
        if isinstance(base, TupleV):
            if isinstance(e.slice, ast.Constant) and isinstance(e.slice.value, int) \
                    and -len(base.elts) <= e.slice.value < len(base.elts):
                return base.elts[e.slice.value]
            if isinstance(e.slice, ast.Slice):
                return TupleV(list(base.elts))
            return _join_all(base.elts)
        if isinstance(base, Obj) and base.cls is not None:
            if "__getitem__" in {n for k in base.cls.mro() for n in k.methods}:
                r = self.I.call_method(base, base.cls, "__getitem__", [idx], {}, self.d, e)
                if isinstance(e.slice, ast.Slice) and isinstance(r, Obj):
                    return ListV(r, EMPTY)
                return r
        if isinstance(base, ClassV):
            return base  # Generic[...] application
        return Opaque("subscript")

    # attributes ------------------------------------------------------------
    def e_Attribute(self, e):
        base = self.expr(e.value)
        return self.getattr(base, e.attr, e)

    def getattr(self, base: V, attr: str, e) -> V:
        if isinstance(base, Obj) and isinstance(base.cls, _SuperProxy):
            m = base.cls.lookup_method(attr)
            if m is not None:
                return FuncV(m, base.fields["__self__"], {"__direct__": True})
            return Opaque("super attr")
        if isinstance(base, Obj):
            if attr in base.fields and base.fields[attr] is not None:
                return base.fields[attr]
            if base.cls is not None:
                m = base.cls.lookup(attr)
                if isinstance(m, Def):
                    if m.is_property():
                        return self.I.call_def(m, [base], {}, self.d, e)
                    return FuncV(m, base, None)
                if isinstance(m, ClassInfo):
                    return ClassV(m)
                if isinstance(m, tuple):
                    return Opaque("class attr")
            if attr == "__dict__":
                return DictV(None, base.obj_owners)  # the object's attribute table: a store into it is a store on the object
            if base.cls is not None and not isinstance(base.cls, _SuperProxy):
                # a field the abstract object does not model: if some method of the class binds it to a slice object, indexing
                # with it is basic slicing (a view), not a scalar read
                for k in base.cls.mro():
                    for m in k.methods.values():
                        for n in ast.walk(m.node):
                            if isinstance(n, ast.Assign) and any(isinstance(t, ast.Attribute) and t.attr == attr and isinstance(t.value, ast.Name)
                                                                 and t.value.id == "self" for t in n.targets) \
                                    and isinstance(n.value, ast.Call) and isinstance(n.value.func, ast.Name) and n.value.func.id == "slice":
                                return Opaque(f"field {attr} (slice object)", "slice")
            return Opaque(f"field {attr}")
        if isinstance(base, Arr):
            if attr in ("T", "real", "flat", "values"):
                return Arr(base.owners)
            if attr in ("shape", "dtype", "ndim", "size"):
                return Opaque(attr)
            return FuncV(None, base, {"__np_method__": attr})  # type: ignore[arg-type]
        if isinstance(base, (ListV, DictV, TupleV)):
            return FuncV(None, base, {"__py_method__": attr})  # type: ignore[arg-type]
        if isinstance(base, ClassV):
            m = base.cls.lookup(attr)
            if isinstance(m, Def):
                return FuncV(m, base if m.is_classmethod() else None, None)
            if isinstance(m, ClassInfo):
                return ClassV(m)
            return Opaque("class attr")
        if isinstance(base, ModV):
            if base.name in self.repo.modules:
                return self.entity(self.repo.module_attr(base.name, attr))
            return ModV(f"{base.name}.{attr}")
        if isinstance(base, FuncV):
            return Opaque("func attr")
        return FuncV(None, base, {"__opaque_method__": attr})  # type: ignore[arg-type]

    # calls -----------------------------------------------------------------
    def e_Call(self, e):
        f = self.expr(e.func)
        args = []
        for a in e.args:
            if isinstance(a, ast.Starred):
                v = self.expr(a.value)
                if isinstance(v, TupleV):
                    args.extend(v.elts)
                else:
                    args.append(self.elem_of(v))
            else:
                args.append(self.expr(a))
        kwargs = {}
        for k in e.keywords:
            v = self.expr(k.value)
            if k.arg is None:
                if isinstance(v, DictV) and v.items:
                    for kk, vv in v.items.items():
                        kwargs.setdefault(kk, vv)
                dv = v.val if isinstance(v, DictV) else v
                kwargs["**"] = join(kwargs.get("**"), dv if dv is not None else Opaque("empty"))
            else:
                kwargs[k.arg] = v
        return self.call_value(f, args, kwargs, e)

    def call_value(self, f: V, args, kwargs, e) -> V:
        I = self.I
        if isinstance(f, FuncV):
            if f.d is None:
                return self._builtin_method(f, args, kwargs, e)
            a = list(args)
            if f.env and f.env.get("__direct__"):
                return I.call_def(f.d, [f.bound] + a, kwargs, self.d, e)
            if f.bound is not None and not f.d.is_staticmethod():
                if isinstance(f.bound, Obj) and f.d.cls is not None:
                    # virtual dispatch on the receiver's abstract class
                    return I.call_method(f.bound, f.bound.cls, f.d.name, args, kwargs, self.d, e)
                a = [f.bound] + a
            elif f.d.cls is not None and f.d.is_classmethod() and f.bound is None:
                a = [ClassV(f.d.cls)] + a
            return I.call_def(f.d, a, kwargs, self.d, e, closure=f.env)
        if isinstance(f, ClassV):
            return self.construct(f.cls, args, kwargs, e)
        if isinstance(f, ModV):
            return self.external(f.name, args, kwargs, e)
        if isinstance(f, Obj) and f.cls is not None:
            return I.call_method(f, f.cls, "__call__", args, kwargs, self.d, e)
        # user callback / unknown callable: arguments escape to user code (not ours)
        return Opaque("call of opaque")

    def construct(self, cls: ClassInfo, args, kwargs, e) -> V:
        ext = " ".join(cls.ext_bases)
        if "NamedTuple" in ext or "Enum" in ext:
            return Opaque(cls.name)
        return self.I.construct(cls, args, kwargs, self.d, e)

    def _builtin_method(self, f: FuncV, args, kwargs, e) -> V:
        recv = f.bound
        info = f.env or {}
        if "__np_method__" in info:
            name = info["__np_method__"]
            if name == "astype":
                cp = kwargs.get("copy") if isinstance(kwargs, dict) else None
                src_kw = next((k.value for k in getattr(e, "keywords", []) if k.arg == "copy"), None)
                if isinstance(src_kw, ast.Constant) and src_kw.value is False:
                    # astype(..., copy=False) returns the array itself when the dtype already matches
                    return Arr(recv.owners)
            if name in ("copy", "astype", "tolist", "item", "sum", "min", "max", "mean", "dot",
                        "argmax", "argmin", "cumsum", "round", "clip", "nonzero", "any", "all",
                        "std", "prod", "flatten", "repeat", "take", "argsort"):
                if name in ("item", "argmax", "argmin", "sum", "min", "max", "mean", "any", "all"):
                    return Opaque(name) if not args and name in ("item", "any", "all") else Arr(EMPTY)
                return Arr(EMPTY)
            if name in ARR_VIEW_METHODS:
                return Arr(recv.owners)
            if name in ARR_INPLACE_METHODS:
                self.I.effect("write", recv.owners, self.d, e)
                return Opaque("None")
            return Arr(EMPTY)
        if "__py_method__" in info:
            name = info["__py_method__"]
            if isinstance(recv, ListV):
                if name in LIST_MUT:
                    self.I.effect("mutate", recv.obj_owners, self.d, e)
                    if name == "append" and args:
                        recv.elem = join(recv.elem, args[0])
                    elif name == "extend" and args:
                        recv.elem = join(recv.elem, self.elem_of(args[0]))
                    elif name == "insert" and len(args) > 1:
                        recv.elem = join(recv.elem, args[1])
                    elif name == "pop":
                        return recv.elem if recv.elem is not None else Opaque("pop")
                    return Opaque("None")
                if name == "copy":
                    return ListV(recv.elem, EMPTY)
                return Opaque(name)
            if isinstance(recv, DictV):
                if name in DICT_MUT:
                    self.I.effect("mutate", recv.obj_owners, self.d, e)
                    if name == "update":
                        vs = list(args) + list(kwargs.values())
                        for v in vs:
                            recv.val = join(recv.val, v.val if isinstance(v, DictV) else v)
                        return Opaque("None")
                    if name in ("pop", "setdefault"):
                        if name == "setdefault" and len(args) > 1:
                            recv.val = join(recv.val, args[1])
                        return recv.val if recv.val is not None else Opaque(name)
                    return Opaque("None")
                if name in ("get",):
                    return join(recv.val, args[1] if len(args) > 1 else None) or Opaque("get")
                if name == "values":
                    return ListV(recv.val, EMPTY)
                if name == "items":
                    return ListV(TupleV([Opaque("key", "str"), recv.val if recv.val is not None else Opaque()]), EMPTY)
                if name == "keys":
                    return ListV(Opaque("key", "str"), EMPTY)
                if name == "copy":
                    return DictV(recv.val, EMPTY)
                return Opaque(name)
            return Opaque(name)
        return Opaque("method of opaque")

    def external(self, name: str, args, kwargs, e) -> V:
        short = name.split(".")[-1]
        root = name.split(".")[0]
        a0 = args[0] if args else None
        if name in ("copy.deepcopy", "deepcopy"):
            return deep_fresh(a0)
        if name in ("copy.copy",):
            if isinstance(a0, Obj):
                return Obj(a0.cls, dict(a0.fields), EMPTY)
            if isinstance(a0, DictV):
                return DictV(a0.val, EMPTY)
            if isinstance(a0, ListV):
                return ListV(a0.elem, EMPTY)
            return a0 if a0 is not None else Opaque()
        if root == "builtins":
            if short in ("list", "sorted", "reversed", "set", "frozenset", "tuple"):
                return ListV(self.elem_of(a0) if a0 is not None else None, EMPTY)
            if short == "dict":
                if isinstance(a0, DictV):
                    return DictV(a0.val, EMPTY)
                vals = list(kwargs.values())
                if a0 is not None:
                    el = self.elem_of(a0)
                    if isinstance(el, TupleV) and len(el.elts) == 2:
                        vals.append(el.elts[1])
                return DictV(_join_all(vals) if vals else None, EMPTY)
            if short == "zip":
                return ListV(TupleV([self.elem_of(a) for a in args]), EMPTY)
            if short == "enumerate":
                return ListV(TupleV([Opaque("i", "int"), self.elem_of(a0)]), EMPTY)
            if short == "range":
                return ListV(Opaque("i", "int"), EMPTY)
            if short == "len":
                return Opaque("len", "int")
            if short == "slice":
                return Opaque("slice", "slice")
            if short == "isinstance" and len(args) == 2:
                return Opaque("bool", "bool")
            if short in ("map", "filter"):
                if short == "filter" and len(args) > 1:
                    return ListV(self.elem_of(args[1]), EMPTY)
                if isinstance(a0, (FuncV, ClassV)) and len(args) > 1:
                    return ListV(self.call_value(a0, [self.elem_of(x) for x in args[1:]], {}, e), EMPTY)
                return ListV(Opaque("map"), EMPTY)
            if short in ("iter",):
                return a0
            if short == "next":
                return self.elem_of(a0)
            if short in ("max", "min") and a0 is not None:
                return self.elem_of(a0) if len(args) == 1 else _join_all(args)
            if short == "sum":
                el = self.elem_of(a0) if a0 is not None else None
                return Arr(EMPTY) if isinstance(el, Arr) else Opaque("sum")
            if short == "getattr" and len(args) >= 2:
                return Opaque("getattr")
            if short == "setattr" and len(args) >= 3:
                # setattr(obj, name, value) is an attribute store on obj
                self.I.stores_seen += 1
                if isinstance(a0, Obj):
                    self.I.effect("mutate", a0.obj_owners, self.d, e)
                return Opaque("None")
            if short == "super":
                c = self.repo.enclosing_class(self.d)
                selfv = self.env.get(self.d.params[0]) if self.d.params else None
                x = self.d
                while x is not None and x.cls is None:
                    x = x.parent
                if c is not None and selfv is not None:
                    return Obj(_SuperProxy(c), {"__self__": selfv}, EMPTY)
            return Opaque(short)
        if root in ("np", "numpy"):
            if short in NP_VIEW:
                o = EMPTY
                for a in args[:1]:
                    o |= storage_owners(a)
                return Arr(o)
            if short in ("unravel_index", "nonzero", "where") and short != "where":
                return TupleV([Arr(EMPTY), Arr(EMPTY)])
            if short == "where" and len(args) == 1:
                return TupleV([Arr(EMPTY)])
            if short in ("pi", "inf", "nan", "float32", "int32", "int64", "float64", "bool_",
                         "newaxis", "uint8"):
                return Opaque(short)
            return Arr(EMPTY)
        if root in ("pd", "pandas"):
            return Opaque("pandas")
        if name.endswith("cast") and len(args) == 2:
            return args[1]
        return Opaque(name)

    # super() proxy ----------------------------------------------------------
    def e_super_attr(self, proxy: Obj, attr: str, e):
        return None


class _SuperProxy:
    """Pseudo class used as Obj.cls for `super()`."""

    def __init__(self, cls: ClassInfo):
        self.cls = cls
        self.name = f"super({cls.name})"

    def mro(self):
        return self.cls.mro()[1:]

    def lookup(self, name):
        for c in self.mro():
            if name in c.methods:
                return c.methods[name]
            if name in c.inner:
                return c.inner[name]
        return None

    def lookup_method(self, name):
        r = self.lookup(name)
        return r if isinstance(r, Def) else None

    def is_subclass_of(self, other):
        return other in self.mro()

    @property
    def methods(self):
        return {}

    @property
    def base_exprs(self):
        return []


def _as_load(t: ast.AST) -> ast.AST:
    import copy
    t2 = copy.copy(t)
    if hasattr(t2, "ctx"):
        t2.ctx = ast.Load()
    return t2


def _join_env(a: dict, b: dict) -> dict:
    out = {}
    for k in set(a) | set(b):
        if k in a and k in b:
            out[k] = join(a[k], b[k])
        else:
            out[k] = a.get(k, b.get(k))
    return out
