"""Light static receiver-type inference (no mypy available).

Types are:
    ClassInfo                  -- an instance of that repo class
    ('class', ClassInfo)       -- the class object itself
    ('list', T) / ('iter', T)  -- homogeneous containers (element type T, may be None)
    ('tuple', [T, ...])
    ('dict', K, V)
    ('ext', dotted)            -- instance of / value from an external library
    None                       -- unknown
Only *definite* facts are produced; anything unsure is None.
"""

from __future__ import annotations

import ast
from typing import Optional

from .model import ClassInfo, Def, Module, Repo, own_nodes, dotted

_CONTAINERS_LIST = {"list", "List", "Sequence", "MutableSequence"}
_CONTAINERS_ITER = {"Iterable", "Iterator", "Generator", "Collection", "set", "Set", "frozenset"}


class Typer:
    def __init__(self, repo: Repo):
        self.repo = repo
        self._env: dict[int, dict] = {}
        self._busy: set = set()

    # ------------------------------------------------------------ annotations
    def ann_type(self, ann, module: Module, scope: Optional[Def], self_cls=None,
                 cls_ctx: Optional[ClassInfo] = None, tv_ctx: Optional[ClassInfo] = None):
        """Type denoted by an annotation expression."""
        repo = self.repo
        if ann is None:
            return None
        if isinstance(ann, ast.Constant):
            if isinstance(ann.value, str):
                try:
                    e = ast.parse(ann.value, mode="eval").body
                except SyntaxError:
                    return None
                return self.ann_type(e, module, scope, self_cls, cls_ctx, tv_ctx)
            return None
        if isinstance(ann, ast.BinOp) and isinstance(ann.op, ast.BitOr):
            parts = [ann.left, ann.right]
            ts = [self.ann_type(p, module, scope, self_cls, cls_ctx, tv_ctx) for p in parts
                  if not (isinstance(p, ast.Constant) and p.value is None)]
            ts = [t for t in ts if t is not None]
            return ts[0] if len(ts) == 1 else None
        if isinstance(ann, ast.Subscript):
            head = dotted(ann.value) or ""
            h = head.split(".")[-1]
            sl = ann.slice
            if h in ("Optional",):
                return self.ann_type(sl, module, scope, self_cls, cls_ctx, tv_ctx)
            if h == "Union":
                elts = sl.elts if isinstance(sl, ast.Tuple) else [sl]
                ts = [self.ann_type(p, module, scope, self_cls, cls_ctx, tv_ctx) for p in elts
                      if not (isinstance(p, ast.Constant) and p.value is None)]
                ts = [t for t in ts if t is not None]
                return ts[0] if len(ts) == 1 else None
            if h in _CONTAINERS_LIST:
                return ("list", self.ann_type(sl, module, scope, self_cls, cls_ctx, tv_ctx))
            if h in _CONTAINERS_ITER:
                return ("iter", self.ann_type(sl, module, scope, self_cls, cls_ctx, tv_ctx))
            if h in ("tuple", "Tuple"):
                elts = sl.elts if isinstance(sl, ast.Tuple) else [sl]
                return ("tuple", [self.ann_type(p, module, scope, self_cls, cls_ctx, tv_ctx)
                                  for p in elts])
            if h in ("dict", "Dict", "Mapping"):
                elts = sl.elts if isinstance(sl, ast.Tuple) else [sl, None]
                return ("dict", self.ann_type(elts[0], module, scope, self_cls, cls_ctx, tv_ctx),
                        self.ann_type(elts[1], module, scope, self_cls, cls_ctx, tv_ctx)
                        if elts[1] is not None else None)
            if h in ("type", "Type"):
                t = self.ann_type(sl, module, scope, self_cls, cls_ctx, tv_ctx)
                return ("class", t) if isinstance(t, ClassInfo) else None
            # Generic[...] application of a repo class: Branch[DictSWC]
            return self.ann_type(ann.value, module, scope, self_cls, cls_ctx, tv_ctx)
        if isinstance(ann, (ast.Name, ast.Attribute)):
            name = dotted(ann) or ""
            if name.split(".")[-1] == "Self":
                return self_cls
            r = repo.resolve_expr(ann, module, scope, cls_ctx=cls_ctx)
            if isinstance(r, ClassInfo):
                return r
            if isinstance(r, tuple) and r[0] == "const":
                # TypeVar(..., bound=X) or alias  X = A | B
                _, expr, m = r
                if isinstance(expr, ast.Call) and (dotted(expr.func) or "").endswith("TypeVar"):
                    if tv_ctx is not None and isinstance(ann, ast.Name):
                        b = self._typevar_binding(tv_ctx, ann.id)
                        if b is not None:
                            return b
                    for kw in expr.keywords:
                        if kw.arg == "bound":
                            return self.ann_type(kw.value, m, None, self_cls)
                    return None
                if isinstance(expr, (ast.Subscript, ast.BinOp, ast.Name, ast.Attribute)):
                    return self.ann_type(expr, m, None, self_cls)
            if isinstance(r, tuple) and r[0] == "ext":
                return ("ext", r[1])
        return None

    def _generic_params(self, c: ClassInfo) -> list[str]:
        for b in c.base_exprs:
            if isinstance(b, ast.Subscript) and (dotted(b.value) or "").endswith("Generic"):
                elts = b.slice.elts if isinstance(b.slice, ast.Tuple) else [b.slice]
                return [e.id for e in elts if isinstance(e, ast.Name)]
        return []

    def _typevar_binding(self, c: ClassInfo, tvname: str):
        """Instantiation of TypeVar ``tvname`` for (a subclass) ``c``."""
        for k in c.mro():
            for b in k.base_exprs:
                if not isinstance(b, ast.Subscript):
                    continue
                base = self.repo.resolve_expr(b.value, k.module, k.parent_def, cls_ctx=k.outer)
                if base is k:
                    base = self.repo.resolve_expr(b.value, k.module, k.parent_def)
                if not isinstance(base, ClassInfo):
                    continue
                params = None
                for anc in base.mro():
                    gp = self._generic_params(anc)
                    if gp:
                        params = gp
                        break
                if not params or tvname not in params:
                    continue
                elts = b.slice.elts if isinstance(b.slice, ast.Tuple) else [b.slice]
                i = params.index(tvname)
                if i < len(elts):
                    t = self.ann_type(elts[i], k.module, k.parent_def, cls_ctx=k)
                    if isinstance(t, ClassInfo):
                        return t
        return None

    # ------------------------------------------------------------ environment
    def self_class(self, d: Def) -> Optional[ClassInfo]:
        return self.repo.enclosing_class(d) if d is not None else None

    def env(self, d: Def) -> dict:
        k = id(d.node)
        if k in self._env:
            return self._env[k]
        env: dict = {}
        self._env[k] = env
        if k in self._busy:
            return env
        self._busy.add(k)
        try:
            self._build_env(d, env)
        finally:
            self._busy.discard(k)
        return env

    def _build_env(self, d: Def, env: dict) -> None:
        repo = self.repo
        # parameters
        params = d.params
        if d.cls is not None and not d.is_staticmethod() and params:
            if d.is_classmethod():
                env[params[0]] = ("class", d.cls)
            else:
                env[params[0]] = d.cls
        for p in params:
            if p in env:
                continue
            ann = d.param_annotation(p)
            if ann is not None:
                t = self.ann_type(ann, d.module, d.parent, self.self_class(d),
                                  cls_ctx=d.cls, tv_ctx=d.cls)
                if t is not None:
                    env[p] = t
        conflicts = set()

        def bind(name, t):
            if t is None or name in conflicts:
                return
            if name in env and env[name] != t:
                old = env[name]
                # keep the more general of two related classes
                if isinstance(old, ClassInfo) and isinstance(t, ClassInfo):
                    if t.is_subclass_of(old):
                        return
                    if old.is_subclass_of(t):
                        env[name] = t
                        return
                if name in params:
                    return  # annotation wins for parameters
                conflicts.add(name)
                del env[name]
                return
            env[name] = t

        def bind_target(tgt, t):
            if isinstance(tgt, ast.Name):
                bind(tgt.id, t)
            elif isinstance(tgt, (ast.Tuple, ast.List)) and isinstance(t, tuple) and t[0] == "tuple":
                for e, et in zip(tgt.elts, t[1]):
                    bind_target(e, et)
            elif isinstance(tgt, (ast.Tuple, ast.List)) and isinstance(t, tuple) and t[0] in ("list", "iter"):
                for e in tgt.elts:
                    bind_target(e, t[1])

        for _ in range(2):  # two passes: uses before defs in loops
            for n in own_nodes(d):
                if isinstance(n, ast.Assign):
                    t = self.type_of(n.value, d)
                    for tgt in n.targets:
                        if isinstance(tgt, (ast.Tuple, ast.List)) and isinstance(n.value, ast.Tuple) \
                                and len(tgt.elts) == len(n.value.elts):
                            for a, b in zip(tgt.elts, n.value.elts):
                                bind_target(a, self.type_of(b, d))
                        else:
                            bind_target(tgt, t)
                elif isinstance(n, ast.AnnAssign) and isinstance(n.target, ast.Name):
                    t = self.ann_type(n.annotation, d.module, d, self.self_class(d))
                    if t is None and n.value is not None:
                        t = self.type_of(n.value, d)
                    bind(n.target.id, t)
                elif isinstance(n, ast.NamedExpr):
                    bind(n.target.id, self.type_of(n.value, d))
                elif isinstance(n, (ast.For, ast.comprehension)):
                    it = self.type_of(n.iter, d)
                    bind_target(n.target, self.elem_type(it))
                elif isinstance(n, ast.With):
                    for item in n.items:
                        if item.optional_vars is not None:
                            ct = self.type_of(item.context_expr, d)
                            if isinstance(ct, ClassInfo):
                                ent = ct.lookup_method("__enter__")
                                if ent is not None:
                                    bind_target(item.optional_vars, self.return_type(ent, ct))

    def lookup_var(self, name: str, d: Optional[Def]):
        x = d
        while x is not None:
            e = self.env(x)
            if name in e:
                return e[name]
            from .model import local_names
            if name in local_names(x):
                return None
            x = x.parent
        return None

    # ------------------------------------------------------------ expressions
    def elem_type(self, t):
        if isinstance(t, tuple) and t[0] in ("list", "iter"):
            return t[1]
        if isinstance(t, ClassInfo):
            it = t.lookup_method("__iter__")
            if it is not None:
                rt = self.return_type(it, t)
                if isinstance(rt, tuple) and rt[0] in ("list", "iter"):
                    return rt[1]
            # list subclass:  class Compartments(list[T])
            for k in t.mro():
                for b in k.base_exprs:
                    if isinstance(b, ast.Subscript) and (dotted(b.value) or "") == "list":
                        return self.ann_type(b.slice, k.module, None, cls_ctx=k)
        return None

    def return_type(self, callee: Def, recv=None):
        node = callee.node
        if isinstance(node, ast.Lambda):
            return None
        self_cls = recv if isinstance(recv, ClassInfo) else self.self_class(callee)
        tv = recv if isinstance(recv, ClassInfo) else callee.cls
        return self.ann_type(node.returns, callee.module, callee.parent, self_cls,
                             cls_ctx=callee.cls, tv_ctx=tv)

    def getitem_type(self, recv: ClassInfo, index: ast.AST, d: Def):
        # pick an overload by the syntactic form of the index
        for k in recv.mro():
            ovs = k.overloads.get("__getitem__")
            if not ovs:
                if "__getitem__" in k.methods:
                    return self.return_type(k.methods["__getitem__"], recv)
                continue
            want = "int"
            if isinstance(index, ast.Slice):
                want = "slice"
            elif isinstance(index, ast.Constant) and isinstance(index.value, str):
                want = "str"
            elif isinstance(index, ast.Tuple):
                want = "tuple"
            else:
                it = self.type_of(index, d)
                if it == ("ext", "builtins.str"):
                    want = "str"
            for ov in ovs:
                ps = ov.node.args.posonlyargs + ov.node.args.args
                if len(ps) >= 2 and ps[1].annotation is not None:
                    a = ast.unparse(ps[1].annotation)
                    if a.split("[")[0].strip() == want or (want == "int" and a.startswith("int")):
                        return self.return_type(ov, recv)
            return None
        return None

    def type_of(self, e: ast.AST, d: Optional[Def]):
        repo = self.repo
        if e is None:
            return None
        if isinstance(e, ast.Name):
            t = self.lookup_var(e.id, d)
            if t is not None:
                return t
            r = repo.lookup_name(e.id, d.module, d) if d is not None else None
            if isinstance(r, ClassInfo):
                return ("class", r)
            return None
        if isinstance(e, ast.Constant):
            if isinstance(e.value, str):
                return ("ext", "builtins.str")
            return None
        if isinstance(e, ast.JoinedStr):
            return ("ext", "builtins.str")
        if isinstance(e, ast.Attribute):
            bt = self.type_of(e.value, d)
            return self.attr_type(bt, e.attr)
        if isinstance(e, ast.Call):
            return self.call_type(e, d)
        if isinstance(e, ast.Subscript):
            bt = self.type_of(e.value, d)
            if isinstance(bt, tuple):
                if bt[0] == "list":
                    return bt if isinstance(e.slice, ast.Slice) else bt[1]
                if bt[0] == "tuple" and isinstance(e.slice, ast.Constant) \
                        and isinstance(e.slice.value, int) and -len(bt[1]) <= e.slice.value < len(bt[1]):
                    return bt[1][e.slice.value]
                if bt[0] == "dict":
                    return bt[2]
            if isinstance(bt, ClassInfo):
                return self.getitem_type(bt, e.slice, d)
            return None
        if isinstance(e, (ast.List, ast.ListComp)):
            if isinstance(e, ast.List):
                ts = {id(t): t for t in (self.type_of(x, d) for x in e.elts) if t is not None}
                ts = list(ts.values())
                if e.elts and len(ts) == 1 and all(self.type_of(x, d) == ts[0] for x in e.elts):
                    return ("list", ts[0])
                return ("list", None)
            return ("list", self.type_of(e.elt, d))
        if isinstance(e, ast.GeneratorExp):
            return ("iter", self.type_of(e.elt, d))
        if isinstance(e, (ast.Dict, ast.DictComp)):
            return ("dict", None, None)
        if isinstance(e, (ast.Set, ast.SetComp)):
            return ("iter", None)
        if isinstance(e, ast.Tuple):
            return ("tuple", [self.type_of(x, d) for x in e.elts])
        if isinstance(e, ast.IfExp):
            a, b = self.type_of(e.body, d), self.type_of(e.orelse, d)
            if a == b:
                return a
            if b is None and isinstance(e.orelse, ast.Constant) and e.orelse.value is None:
                return a
            if a is None and isinstance(e.body, ast.Constant) and e.body.value is None:
                return b
            return None
        if isinstance(e, ast.NamedExpr):
            return self.type_of(e.value, d)
        if isinstance(e, ast.Starred):
            return None
        return None

    def attr_type(self, bt, attr: str):
        if isinstance(bt, ClassInfo):
            m = bt.lookup(attr)
            if isinstance(m, Def):
                if m.is_property():
                    return self.return_type(m, bt)
                return ("method", bt, m)
            if isinstance(m, ClassInfo):
                return ("class", m)
            a = bt.lookup_annotation(attr)
            if a is not None:
                owner, ann = a
                return self.ann_type(ann, owner.module, owner.parent_def, bt, cls_ctx=owner,
                                     tv_ctx=bt)
            # instance attribute assigned in __init__:  self.x = ClassName(...)
            for k in bt.mro():
                init = k.methods.get("__init__")
                if init is None:
                    continue
                selfname = init.params[0] if init.params else None
                for n in own_nodes(init):
                    if isinstance(n, ast.Assign):
                        for tgt in n.targets:
                            if isinstance(tgt, ast.Attribute) and isinstance(tgt.value, ast.Name) \
                                    and tgt.value.id == selfname and tgt.attr == attr:
                                return self.type_of(n.value, init)
            return None
        if isinstance(bt, tuple) and bt[0] == "class":
            m = bt[1].lookup(attr)
            if isinstance(m, Def):
                return ("method", ("class", bt[1]), m)
            if isinstance(m, ClassInfo):
                return ("class", m)
            return None
        return None

    def call_type(self, e: ast.Call, d: Optional[Def]):
        repo = self.repo
        f = e.func
        fname = dotted(f) or ""
        if fname in ("cast", "typing.cast") and len(e.args) == 2:
            return self.ann_type(e.args[0], d.module, d, self.self_class(d))
        if fname == "deepcopy" and e.args:
            return self.type_of(e.args[0], d)
        if fname in ("list", "sorted", "reversed") and e.args:
            t = self.type_of(e.args[0], d)
            return ("list", self.elem_type(t))
        if fname == "super" and not e.args:
            return None
        if fname in ("dict", "defaultdict", "collections.defaultdict", "OrderedDict"):
            return ("dict", None, None)
        if fname in ("set", "frozenset"):
            return ("iter", None)
        if fname in ("zip", "enumerate", "map", "filter", "range", "iter"):
            return ("iter", None)
        if isinstance(f, ast.Subscript) and (dotted(f.value) or "") in ("dict", "list", "set", "defaultdict"):
            h = dotted(f.value)
            return ("dict", None, None) if "dict" in h else (("list", None) if h == "list" else ("iter", None))
        ft = self.type_of(f, d)
        if isinstance(ft, tuple):
            if ft[0] == "class":
                return ft[1]
            if ft[0] == "method":
                recv = ft[1]
                return self.return_type(ft[2], recv if isinstance(recv, ClassInfo)
                                        else (recv[1] if isinstance(recv, tuple) else None))
        if isinstance(ft, ClassInfo):
            c = ft.lookup_method("__call__")
            if c is not None:
                return self.return_type(c, ft)
        if isinstance(f, ast.Name):
            r = repo.lookup_name(f.id, d.module, d) if d is not None else None
            if isinstance(r, Def):
                return self.return_type(r)
            if isinstance(r, ClassInfo):
                return r
        if isinstance(f, ast.Attribute):
            r = repo.resolve_expr(f, d.module, d) if d is not None else None
            if isinstance(r, Def):
                return self.return_type(r)
            if isinstance(r, ClassInfo):
                return r
        return None
