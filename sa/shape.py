"""E9 -- abstract array shapes.

Shape = tuple of dims; dim = int | None (unknown size).  UNKNOWN = rank unknown.
Only *definite* errors are reported (both dims known, unequal, neither 1;
rank-0 operand of concatenate).
"""

from __future__ import annotations

import ast
from typing import Optional

from .model import Def, dotted, norm_src

UNKNOWN = "?"


class ShapeError(Exception):
    def __init__(self, node, msg):
        self.node = node
        self.msg = msg
        super().__init__(msg)


def broadcast(a, b):
    """Broadcast result or raises ValueError on a definite mismatch."""
    if a == UNKNOWN or b == UNKNOWN:
        return UNKNOWN
    out = []
    ra, rb = list(reversed(a)), list(reversed(b))
    for i in range(max(len(ra), len(rb))):
        x = ra[i] if i < len(ra) else 1
        y = rb[i] if i < len(rb) else 1
        if x == 1:
            out.append(y)
        elif y == 1:
            out.append(x)
        elif x is None or y is None:
            out.append(x if y is None else y)
        elif x == y:
            out.append(x)
        else:
            raise ValueError(f"shapes {tuple(a)} and {tuple(b)} do not broadcast")
    return tuple(reversed(out))


def _literal_shape(e: ast.AST, S: "Shapes"):
    if isinstance(e, (ast.List, ast.Tuple)):
        if not e.elts:
            return (0,)
        if any(isinstance(x, ast.Starred) for x in e.elts):
            # [*v, 0] : length unknown unless v known rank-1 with known size
            n = 0
            for x in e.elts:
                if isinstance(x, ast.Starred):
                    sv = S.shape(x.value)
                    if sv != UNKNOWN and len(sv) == 1 and sv[0] is not None:
                        n += sv[0]
                    else:
                        n = None
                        break
                else:
                    n += 1
            return (n,)
        subs = [_literal_shape(x, S) for x in e.elts]
        known = [s for s in subs if s != UNKNOWN]
        if known and len(known) < len(subs) and all(s == known[0] for s in known):
            # numpy requires a homogeneous literal: siblings of a known-shape element
            # have that shape too (otherwise np.array raises)
            subs = [known[0] for _ in subs]
        first = subs[0]
        if first == UNKNOWN:
            return UNKNOWN
        if all(s == first for s in subs):
            return (len(e.elts),) + tuple(first)
        if all(s != UNKNOWN and len(s) == len(first) for s in subs):
            return (len(e.elts),) + tuple(None for _ in first)
        return UNKNOWN
    if isinstance(e, ast.ListComp):
        s = S.shape(e.elt)
        return UNKNOWN if s == UNKNOWN else (None,) + tuple(s)
    s = S.shape(e)
    return s


class Shapes:
    """Shape environment for one def (statements walked in order)."""

    SCALAR_ANN = {"float", "int", "bool", "np.float32", "np.floating", "np.integer"}

    def __init__(self, ctx, d: Def, env: Optional[dict] = None):
        self.ctx = ctx
        self.d = d
        self.env = dict(env or {})
        self.errors: list[ShapeError] = []
        self.returns = []
        for p in d.params:
            a = d.param_annotation(p)
            if a is not None and norm_src(a) in self.SCALAR_ANN:
                self.env.setdefault(p, ())

    # ------------------------------------------------------------ statements
    def run(self, body=None):
        for s in (body if body is not None else self.d.node.body):
            self.stmt(s)
        return self

    def stmt(self, s):
        if isinstance(s, ast.Assign):
            sh = self.shape(s.value)
            for t in s.targets:
                self.bind(t, sh, s.value)
        elif isinstance(s, ast.AnnAssign) and s.value is not None:
            self.bind(s.target, self.shape(s.value), s.value)
        elif isinstance(s, ast.AugAssign):
            a, b = self.shape(s.target), self.shape(s.value)
            self._bc(a, b, s)
        elif isinstance(s, ast.Return):
            if s.value is not None:
                self.returns.append((s, self.shape(s.value)))
        elif isinstance(s, ast.If):
            self.shape(s.test)
            e0 = dict(self.env)
            for x in s.body:
                self.stmt(x)
            e1 = self.env
            self.env = dict(e0)
            for x in s.orelse:
                self.stmt(x)
            self.env = {k: (e1[k] if e1.get(k) == self.env.get(k) else _join(e1.get(k), self.env.get(k)))
                        for k in set(e1) | set(self.env)}
        elif isinstance(s, (ast.For, ast.While)):
            if isinstance(s, ast.For):
                it = self.shape(s.iter)
                if isinstance(s.target, ast.Name):
                    self.env[s.target.id] = UNKNOWN if it == UNKNOWN or not it else tuple(it[1:])
            for x in s.body:
                self.stmt(x)
        elif isinstance(s, ast.Expr):
            self.shape(s.value)
        elif isinstance(s, (ast.With, ast.Try)):
            for x in getattr(s, "body", []):
                self.stmt(x)
        elif isinstance(s, ast.Match):
            e0 = dict(self.env)
            outs = []
            for c in s.cases:
                self.env = dict(e0)
                for x in c.body:
                    self.stmt(x)
                outs.append(self.env)
            env = outs[0] if outs else e0
            for o in outs[1:]:
                env = {k: _join(env.get(k), o.get(k)) for k in set(env) | set(o)}
            self.env = env

    def bind(self, t, sh, value=None):
        if isinstance(t, ast.Name):
            self.env[t.id] = sh
        elif isinstance(t, (ast.Tuple, ast.List)):
            if isinstance(value, (ast.Tuple, ast.List)) and len(value.elts) == len(t.elts):
                for te, ve in zip(t.elts, value.elts):
                    self.bind(te, self.shape(ve), ve)
            else:
                sub = UNKNOWN if sh == UNKNOWN or len(sh) == 0 else tuple(sh[1:])
                for te in t.elts:
                    self.bind(te, sub)

    # ------------------------------------------------------------ expressions
    def _bc(self, a, b, node):
        try:
            return broadcast(a, b)
        except ValueError as ex:
            self.errors.append(ShapeError(node, str(ex)))
            return UNKNOWN

    def _sum_terms(self, e):
        if isinstance(e, ast.BinOp) and isinstance(e.op, (ast.Add, ast.Sub)):
            return self._sum_terms(e.left) + self._sum_terms(e.right)
        return [e]

    def shape(self, e):
        if e is None:
            return UNKNOWN
        if isinstance(e, ast.Constant):
            return () if isinstance(e.value, (int, float, complex, bool)) else UNKNOWN
        if isinstance(e, ast.Name):
            return self.env.get(e.id, UNKNOWN)
        if isinstance(e, ast.UnaryOp):
            return self.shape(e.operand)
        if isinstance(e, ast.BinOp):
            if isinstance(e.op, ast.MatMult):
                return self.matmul(self.shape(e.left), self.shape(e.right), e)
            if isinstance(e.op, (ast.Add, ast.Sub)):
                terms = self._sum_terms(e)
                shapes = [self.shape(t) for t in terms]
                known = [(t, s) for t, s in zip(terms, shapes) if s != UNKNOWN]
                res = ()
                bad = False
                for i in range(len(known)):
                    for j in range(i + 1, len(known)):
                        try:
                            broadcast(known[i][1], known[j][1])
                        except ValueError as ex:
                            if not bad:
                                self.errors.append(ShapeError(
                                    e, f"{ex}: `{norm_src(known[i][0])[:50]}` vs `{norm_src(known[j][0])[:50]}`"))
                            bad = True
                if bad or len(known) != len(terms):
                    return UNKNOWN
                for _, s in known:
                    res = broadcast(res, s)
                return res
            return self._bc(self.shape(e.left), self.shape(e.right), e)
        if isinstance(e, ast.Compare):
            sh = self.shape(e.left)
            for c in e.comparators:
                sh = self._bc(sh, self.shape(c), e)
            return sh
        if isinstance(e, ast.IfExp):
            return _join(self.shape(e.body), self.shape(e.orelse))
        if isinstance(e, (ast.List, ast.Tuple, ast.ListComp)):
            return _literal_shape(e, self)
        if isinstance(e, ast.Attribute):
            if e.attr == "T":
                s = self.shape(e.value)
                return UNKNOWN if s == UNKNOWN else tuple(reversed(s))
            if e.attr in ("pi", "inf", "nan", "e"):
                return ()
            return UNKNOWN
        if isinstance(e, ast.Subscript):
            return self.subscript(self.shape(e.value), e.slice, e)
        if isinstance(e, ast.Call):
            return self.call(e)
        return UNKNOWN

    def matmul(self, a, b, node):
        if a == UNKNOWN or b == UNKNOWN:
            return UNKNOWN
        if len(a) == 0 or len(b) == 0:
            return self._bc(a, b, node)
        inner_a = a[-1]
        inner_b = b[-2] if len(b) >= 2 else b[0]
        if inner_a is not None and inner_b is not None and inner_a != inner_b:
            self.errors.append(ShapeError(node, f"matrix product of {a} and {b}: inner dimensions differ"))
            return UNKNOWN
        if len(b) == 1:
            return tuple(a[:-1])
        if len(a) == 1:
            return tuple(b[:-2]) + (b[-1],)
        return tuple(a[:-1]) + (b[-1],)

    def subscript(self, base, sl, node):
        if base == UNKNOWN:
            return UNKNOWN
        items = list(sl.elts) if isinstance(sl, ast.Tuple) else [sl]
        out = []
        dims = list(base)
        i = 0
        for it in items:
            if isinstance(it, ast.Constant) and it.value is None:
                out.append(1)
                continue
            if isinstance(it, ast.Constant) and it.value is Ellipsis:
                return UNKNOWN
            if i >= len(dims):
                self.errors.append(ShapeError(node, f"too many indices for shape {tuple(base)}"))
                return UNKNOWN
            if isinstance(it, ast.Slice):
                d = dims[i]
                lo = _int(it.lower)
                hi = _int(it.upper)
                if it.step is None and (it.lower is None or lo is not None) and (it.upper is None or hi is not None):
                    if d is not None:
                        rng = range(d)[slice(lo, hi)]
                        out.append(len(rng))
                    elif lo is not None and hi is not None and lo >= 0 and hi >= 0:
                        out.append(None)
                    else:
                        out.append(None)
                else:
                    out.append(None)
                i += 1
            else:
                s = self.shape(it)
                if s == () or _int(it) is not None or s == UNKNOWN and isinstance(it, (ast.Constant, ast.UnaryOp)):
                    i += 1  # integer index drops the axis
                elif s == UNKNOWN:
                    # unknown index kind: scalar (drops axis) or array (fancy)
                    return UNKNOWN
                else:
                    out.extend(s)
                    i += 1
        return tuple(out) + tuple(dims[i:])

    def call(self, e: ast.Call):
        f = dotted(e.func) or ""
        short = f.split(".")[-1]
        args = e.args
        kw = {k.arg: k.value for k in e.keywords}
        if isinstance(e.func, ast.Attribute) and not f.startswith(("np.", "numpy.", "math.", "ma.")):
            recv = self.shape(e.func.value)
            m = e.func.attr
            if m == "dot" and args:
                return self.matmul(recv, self.shape(args[0]), e)
            if m in ("copy", "astype", "round", "clip", "conj"):
                return recv
            if m in ("transpose",) and not args:
                return UNKNOWN if recv == UNKNOWN else tuple(reversed(recv))
            if m in ("sum", "min", "max", "mean", "prod", "argmax", "argmin", "std", "any", "all"):
                return self._reduce(recv, kw.get("axis", args[0] if args else None))
            if m == "item":
                return ()
            if m == "reshape":
                tgt = args[0] if len(args) == 1 and isinstance(args[0], (ast.Tuple, ast.List)) else ast.Tuple(elts=list(args))
                return tuple(_int(x) if (_int(x) is not None and _int(x) >= 0) else None for x in tgt.elts)
            if m in ("flatten", "ravel"):
                return (None,)
            # method of a repo object?
            return self._repo_call(e)
        if short in ("array", "asarray", "asanyarray"):
            return _literal_shape(args[0], self) if args else UNKNOWN
        if short in ("identity", "eye") and args:
            n = _int(args[0])
            return (n, n)
        if short in ("zeros", "ones", "empty", "full"):
            s = args[0] if args else None
            if isinstance(s, (ast.Tuple, ast.List)):
                return tuple(_int(x) for x in s.elts)
            if s is not None:
                return (_int(s),)
            return UNKNOWN
        if short in ("zeros_like", "ones_like", "full_like", "empty_like", "sqrt", "cos", "sin", "abs",
                     "exp", "log", "degrees", "radians", "arccos", "arcsin", "square", "negative",
                     "float32", "float64", "int32", "floor", "ceil", "sort", "cumsum", "clip", "copy",
                     "nan_to_num", "isnan", "logical_not"):
            return self.shape(args[0]) if args else UNKNOWN
        if f.startswith("math."):
            return ()
        if short in ("linspace",):
            n = _int(args[2]) if len(args) > 2 else _int(kw.get("num"))
            return (n,)
        if short in ("arange",):
            return (None,)
        if short == "diff" and args:
            s = self.shape(args[0])
            return UNKNOWN if s == UNKNOWN else tuple(None if i == (_int(kw.get("axis")) or (len(s) - 1 if "axis" not in kw else 0)) else d
                                                     for i, d in enumerate(s))
        if short in ("sum", "min", "max", "mean", "prod", "argmax", "argmin", "count_nonzero", "any", "all", "median", "std"):
            return self._reduce(self.shape(args[0]) if args else UNKNOWN, kw.get("axis", args[1] if len(args) > 1 else None))
        if short == "norm" and args:
            s = self.shape(args[0])
            ax = kw.get("axis", args[2] if len(args) > 2 else None)
            if kw.get("keepdims") is not None:
                return UNKNOWN
            return self._reduce(s, ax)
        if short in ("dot", "matmul") and len(args) == 2:
            return self.matmul(self.shape(args[0]), self.shape(args[1]), e)
        if short == "cross" and len(args) >= 2:
            return self._bc(self.shape(args[0]), self.shape(args[1]), e)
        if short in ("concatenate", "hstack", "vstack") and args:
            parts = args[0]
            if isinstance(parts, (ast.List, ast.Tuple)):
                shs = []
                for p in parts.elts:
                    s = _literal_shape(p, self) if isinstance(p, (ast.List, ast.Tuple)) else self.shape(p)
                    shs.append(s)
                    if s == ():
                        self.errors.append(ShapeError(
                            e, f"`{norm_src(p)}` is zero-dimensional: np.concatenate needs arrays of rank >= 1"))
                known = [s for s in shs if s != UNKNOWN and s != ()]
                if known and all(len(s) == len(known[0]) for s in known):
                    ax = _int(kw.get("axis")) or 0
                    r = list(known[0])
                    tot = 0
                    for s in shs:
                        if s == UNKNOWN or s == () or s[ax] is None:
                            tot = None
                            break
                        tot += s[ax]
                    if ax < len(r):
                        r[ax] = tot
                    return tuple(r)
            return UNKNOWN
        if short == "stack" and args and isinstance(args[0], (ast.List, ast.Tuple)):
            shs = [self.shape(p) for p in args[0].elts]
            if shs and all(s != UNKNOWN for s in shs) and all(len(s) == len(shs[0]) for s in shs):
                ax = _int(kw.get("axis")) or 0
                base = list(shs[0])
                base.insert(ax if ax >= 0 else len(base) + 1 + ax, len(shs))
                return tuple(base)
            return UNKNOWN
        if short in ("interp",) and args:
            return self.shape(args[0])
        if short in ("insert", "append", "delete"):
            s = self.shape(args[0]) if args else UNKNOWN
            return UNKNOWN if s == UNKNOWN else tuple(None for _ in s)
        if short == "where" and len(args) == 3:
            return self._bc(self._bc(self.shape(args[0]), self.shape(args[1]), e), self.shape(args[2]), e)
        if short in ("int", "float", "len", "abs") and "." not in f:
            return ()
        return self._repo_call(e)

    def _repo_call(self, e: ast.Call):
        """Shape of a repo function's result: join of the shapes of its returns."""
        cg = self.ctx.cg
        targets = [t for t in cg.resolve_callable(e.func, self.d) if t[0] is not None and t[1] == "strong" and t[2] == "call"]
        if len(targets) != 1:
            return UNKNOWN
        callee = targets[0][0]
        if callee.is_lambda or getattr(self, "_depth", 0) > 3:
            return UNKNOWN
        sub = Shapes(self.ctx, callee)
        sub._depth = getattr(self, "_depth", 0) + 1
        params = [p for p in callee.params if not (callee.cls is not None and p == callee.params[0])]
        for p, a in zip(params, e.args):
            sub.env[p] = self.shape(a)
        sub.run()
        r = None
        for _, s in sub.returns:
            r = s if r is None else _join(r, s)
        return r if r is not None else UNKNOWN

    def _reduce(self, s, axis):
        if s == UNKNOWN:
            return UNKNOWN
        if axis is None:
            return ()
        a = _int(axis)
        if a is None:
            return UNKNOWN
        if a < 0:
            a += len(s)
        if a >= len(s) or a < 0:
            return UNKNOWN
        return tuple(d for i, d in enumerate(s) if i != a)


def _join(a, b):
    if a == b:
        return a
    if a is None:
        return b
    if b is None:
        return a
    if a == UNKNOWN or b == UNKNOWN or len(a) != len(b):
        return UNKNOWN
    return tuple(x if x == y else None for x, y in zip(a, b))


def _int(e) -> Optional[int]:
    if e is None:
        return None
    if isinstance(e, ast.Constant) and isinstance(e.value, int) and not isinstance(e.value, bool):
        return e.value
    if isinstance(e, ast.UnaryOp) and isinstance(e.op, ast.USub) and isinstance(e.operand, ast.Constant) \
            and isinstance(e.operand.value, int):
        return -e.operand.value
    return None
