"""Instances, verdicts, known findings, evidence files, exit codes."""

from __future__ import annotations

import ast
import hashlib
import json
import os
import time
from dataclasses import dataclass, field
from typing import Optional

from .model import norm_src

VERIF = os.path.dirname(os.path.dirname(os.path.abspath(__file__)))
OK, VIOLATION, UNRESOLVED, INFO = "OK", "VIOLATION", "UNRESOLVED", "INFO"
# Rules that look for a bad construct wherever it occurs (a recursion cycle, a value kept on self, a recurrence along the
# row order, a cache key that does not determine the value, state kept by a transform, `a[idx] += x` with repeated
# indices, a narrowing cast, a relative tolerance on positions, a binary search in an unsorted column, an ignored option, a
# suppressed exception, a numpy name that does not exist, a twice-consumed iterator): they judge new code as well as old.
# Every other rule reads a fact off code it knows and gives no verdict in a function that was restructured.
UNGATED = {"R-PAIR", "R-SINCOS", "R-RTOLPOS", "R-INPLACE", "R-CG", "R-MEMO", "R-ORDER", "R-CACHEKEY", "R-STATE", "R-ACCUM", "R-NARROW", "R-RTOL", "R-SORTED", "R-OPTION", "R-EXC",
           "R-API", "R-ITER", "R-LATEBIND", "R-ROOTPOS", "R-ZEROLEN", "R-ONE2ONE", "R-DIST", "R-GLOB", "R-RELABEL", "R-AXISKIND", "R-SLICES", "R-ROWSLICE", "R-FALSY", "R-ROUNDS", "R-SHARED", "R-ATOL", "R-SEQ", "R-COMMENT", "R-DOUBLING", "R-INPLACEPERM", "R-ENDPOINTS", "R-ALLROWS", "R-OWNLIST", "R-STALE", "R-NEGIDX", "R-SUBORDER", "R-SHOLLCHAIN", "R-NORMAXIS", "R-STARTGUARD", "R-LIFO", "R-TRIMPOS", "R-CELLCONST", "R-ROWTEXT", "R-LOOPVAR", "R-TRAVVAL", "R-BIFVAL", "R-DEGENERATE", "R-EACHOWNER", "R-COLOURLINK", "R-COUNTVAL", "R-PROPAGATE", "R-ALLPAIRS", "R-COINCIDE", "R-TYPESWAP", "R-CHANAXIS", "R-SPLITLINES", "R-ITER2", "R-COPYDEEP", "R-ABSPREC", "R-BRANCHVAL", "R-TOTALSRC", "R-CLIP", "R-PATHIO", "R-FRAMECAST", "R-EMPTYIDX", "R-FRESHNODE", "R-SQDTYPE", "R-ALLCOLS", "R-COLNAME", "R-CHAINSRC", "R-OUTARG", "R-NUMLANG", "R-REPR", "R-AXISSIGN", "R-CHORD", "R-BUFDTYPE", "R-SOMACAST", "R-CONNDEF", "R-CHAINVAL", "R-DISPATCH", "R-ORDERKIND", "R-SHOLLARG", "R-NAMESFWD", "R-OUTCLEAR", "R-OPAQUE", "R-IDXGUARD"}
EDIT_GATE = 8  # statements (added + removed) beyond which a function counts as restructured; see Collector.add


@dataclass
class Instance:
    rule: str
    construct: str  # qualified name of the def / class / table the instance lives in
    loc: str  # file:line (output only, never a key)
    what: str  # which instance of the rule (slot values)
    verdict: str
    detail: str = ""
    stmt: str = ""  # normalised statement text (part of the finding key)
    facts: dict = field(default_factory=dict)
    nontrivial: bool = True

    def key(self, prop: str) -> tuple:
        return (prop, self.rule, self.construct, self.stmt)

    def to_json(self) -> dict:
        return {
            "rule": self.rule, "construct": self.construct, "loc": self.loc,
            "instance": self.what, "verdict": self.verdict, "detail": self.detail,
            "stmt": self.stmt, "facts": self.facts,
        }


class Collector:
    """Accumulates rule instances for one property run."""

    def __init__(self, prop: str):
        self.prop = prop
        self.instances: list[Instance] = []
        self.rules: dict[str, str] = {}  # rule id -> one-sentence description
        self.floors: dict[str, int] = {}
        self.ceilings: dict[str, int] = {}  # unresolved ceilings per rule (default 0)
        self.analysed: dict = {}
        self.exhaustive_rules: set = set()
        self.shape_rules: set = set()  # rules decided by the shape of the code (see rule())
        self.not_decided: list[str] = []
        self.assumptions: list[str] = []
        self.dominance_seen: dict = {}  # "rule|construct|key" -> the anchored statement is on every path to a normal return

    def rule(self, rid: str, text: str, floor: int = 1, ceiling: int = 0,
             exhaustive: bool = False, shape: bool = False) -> None:
        """shape=True: the rule recognises an idiom by the shape of the code (normalised text,
        named locals, statement order).  A mismatch is then UNRESOLVED -- an equivalent spelling
        the rule does not know is not a defect -- unless the call site passes definite=True
        because it has positively identified a wrong fact."""
        self.rules[rid] = text
        self.floors[rid] = floor
        self.ceilings[rid] = ceiling
        if exhaustive:
            self.exhaustive_rules.add(rid)
        if shape:
            self.shape_rules.add(rid)

    def add(self, rule: str, construct: str, loc: str, what: str, verdict: str,
            detail: str = "", stmt=None, facts: Optional[dict] = None,
            nontrivial: bool = True, definite: bool = False) -> Instance:
        if isinstance(stmt, ast.AST):
            stmt = norm_src(stmt)
        if verdict == VIOLATION and rule in self.shape_rules and not definite:
            verdict = UNRESOLVED
            detail = "code shape outside the recognised idioms (not a verdict): " + (detail or "")
        if verdict == VIOLATION and rule not in UNGATED:
            # A rule that reads a fact off the shape of the code is only trusted where the function still has the shape the
            # rule was written on: a function that was restructured (many statements differ from the reference's, or the
            # function is new) is another way of writing things, and the rule gives no verdict there.  Rules that look for
            # a bad construct wherever it occurs (the lints and the abstract interpreters) are not shape rules.
            es = self.edit_size(construct)
            if es is None and getattr(self, "repo", None) is not None and construct in self.repo.defs:
                verdict = UNRESOLVED
                detail = "the function is not one the rule was written on (not a verdict): " + (detail or "")
            elif es is not None and es[0] + es[1] > EDIT_GATE:
                verdict = UNRESOLVED
                detail = (f"the function was restructured (+{es[0]}/-{es[1]} statements against the reference): "
                          f"the rule gives no verdict there: ") + (detail or "")
        inst = Instance(rule, construct, loc, what, verdict, detail, stmt or "", facts or {},
                        nontrivial)
        self.instances.append(inst)
        return inst

    def ok(self, rule, construct, loc, what, detail="", **kw):
        return self.add(rule, construct, loc, what, OK, detail, **kw)

    def bad(self, rule, construct, loc, what, detail="", **kw):
        return self.add(rule, construct, loc, what, VIOLATION, detail, **kw)

    def unresolved(self, rule, construct, loc, what, detail="", **kw):
        return self.add(rule, construct, loc, what, UNRESOLVED, detail, **kw)

    def info(self, rule, construct, loc, what, detail="", **kw):
        return self.add(rule, construct, loc, what, INFO, detail, nontrivial=False, **kw)

    def judge(self, recognised: bool, ok: bool, rule, construct, loc, what, detail_ok="",
              detail_bad="", detail_unrec="shape of the code is outside the recognised idioms",
              **kw):
        """Three-way verdict: unrecognised shape -> UNRESOLVED (never a violation);
        recognised shape with the wrong content -> VIOLATION."""
        if not recognised:
            return self.unresolved(rule, construct, loc, what, detail_unrec, **kw)
        return self.check(ok, rule, construct, loc, what, detail_ok, detail_bad, **kw)

    def shape(self, cond: bool, rule, construct, loc, what, detail_ok="", detail_unrec="", **kw):
        """A check by the *shape* of the code (normalised statement text, a named local, an
        idiom): a match is OK, anything else is UNRESOLVED -- never a violation, because an
        equivalent spelling that the rule does not know is not a defect."""
        if cond:
            return self.ok(rule, construct, loc, what, detail_ok, **kw)
        return self.unresolved(rule, construct, loc, what,
                               detail_unrec or "shape of the code is outside the recognised idioms", **kw)

    # ---- when is a leaf difference found by the matcher a verdict? --------------------------------------------
    _NAMELESS = ("constant", "operator", "attribute", "keyword", "value")

    def _unknown_locals(self, construct):
        """locals of the def `construct` that the reference does not know (None: the def itself is unknown)"""
        cache = self.__dict__.setdefault("_unk_cache", {})
        if construct in cache:
            return cache[construct]
        res = None
        repo = getattr(self, "repo", None)
        if repo is not None:
            from . import names
            d = repo.defs.get(construct)
            top = d
            while top is not None and top.parent is not None:
                top = top.parent
            if d is not None:
                mod = d.module.name
                qual = d.qualname[len(mod) + 1:]
                res = names.unknown_locals(d.node, mod, qual)
                if res is not None and top is not d:
                    # names of the enclosing function are visible here too
                    up = names.unknown_locals(top.node, mod, top.qualname[len(mod) + 1:])
                    res = res | (up or set())
        cache[construct] = res
        return res

    def edit_size(self, construct):
        """how many statements of the (outermost) function `construct` lives in differ from the reference's: (added, removed)"""
        cache = self.__dict__.setdefault("_edit_cache", {})
        if construct in cache:
            return cache[construct]
        res = None
        repo = getattr(self, "repo", None)
        d = repo.defs.get(construct) if repo is not None else None
        if d is not None:
            from . import names
            top = d
            while top.parent is not None:
                top = top.parent
            mod = top.module.name
            res = names.edit_size(top.node, mod, top.qualname[len(mod) + 1:])
        cache[construct] = res
        return res

    def definite_leaf(self, construct, node, diffs) -> bool:
        """The statement the rule is about is there and says something else -- only when it is identified without
        relying on the differing leaf and every local in it is one the rule knows (sa/names.py): a statement over
        temporaries or helpers a later edit introduced is another spelling, never a verdict."""
        import ast as _ast
        if node is None or not diffs:
            return False
        unk = self._unknown_locals(construct)
        if unk is None:
            return False
        ids = {n.id for n in _ast.walk(node) if isinstance(n, _ast.Name)}
        if ids & unk:
            return False
        targets = set()
        if isinstance(node, _ast.Assign):
            targets = {t.id for t in node.targets if isinstance(t, _ast.Name)}
        elif isinstance(node, (_ast.AugAssign, _ast.AnnAssign)) and isinstance(node.target, _ast.Name):
            targets = {node.target.id}
        repo = getattr(self, "repo", None)
        d = repo.defs.get(construct) if repo is not None else None
        known = set()
        if d is not None:
            from . import names, match
            top = d
            while top.parent is not None:
                top = top.parent
            mod = d.module.name
            known = names.known_locals(mod, top.qualname[len(mod) + 1:]) | set(match._GLOBALS) | set(top.params) | set(d.params)
            # module-level functions, classes and imports denote what the model resolves them to; module-level constants do not
            known |= {k for k, b in d.module.bindings.items() if b.kind in ("def", "class", "import")}
        for kind, a, b in diffs:
            if kind == "name":
                if a in targets or a in unk:
                    return False  # the bound name is what identifies an assignment
                if a not in known:
                    return False  # a module-level name (a constant moved out of the function, a helper): what it denotes is not known here
        return True

    def text(self, rule, construct, loc, what, actual, accepted, fixed=(), stmt=None, facts=None):
        """Three-way comparison of a piece of repo code with the accepted forms of a rule
        (see sa/match.py): same -> OK; same skeleton but a different constant / attribute /
        operator / non-renamable name -> VIOLATION (the statement is there and says something
        else); any other shape -> UNRESOLVED."""
        from . import match
        accepted = [accepted] if isinstance(accepted, (str, ast.AST)) else list(accepted)
        v, d = match.best(actual, accepted, fixed)
        src = (actual if isinstance(actual, str) else norm_src(actual)) if actual is not None else ""
        if v == match.SAME:
            return self.ok(rule, construct, loc, what, src[:100], stmt=stmt, facts=facts)
        if v == match.LEAF and isinstance(actual, ast.AST) and self.definite_leaf(construct, actual, d):
            return self.add(rule, construct, loc, what, VIOLATION,
                            f"`{src[:120]}` differs from the form the definition requires: {match.describe(d)}",
                            stmt=stmt, facts=facts, definite=True)
        return self.unresolved(rule, construct, loc, what,
                               f"`{src[:100]}` is not one of the recognised spellings" if src else "statement not found",
                               stmt=stmt, facts=facts)

    def text_in(self, rule, construct, d, what, accepted, fixed=(), stmt=None, body=None):
        """Like text(), searching the statements of def `d` (or `body`) for the accepted form."""
        from . import match
        accepted = [accepted] if isinstance(accepted, (str, ast.AST)) else list(accepted)
        stmts = body if body is not None else d.node.body
        v, node, diffs = match.find(stmts, accepted, fixed)
        loc = d.loc(node) if node is not None else d.loc()
        if v == match.SAME:
            return self.ok(rule, construct, loc, what, norm_src(node)[:100], stmt=stmt)
        if v == match.LEAF and self.definite_leaf(d.qualname, node, diffs):
            return self.add(rule, construct, loc, what, VIOLATION,
                            f"`{norm_src(node)[:120]}` differs from the form the definition requires: {match.describe(diffs)}",
                            stmt=stmt, definite=True)
        return self.unresolved(rule, construct, loc, what, "no statement of a recognised form found", stmt=stmt)

    def text_group(self, rule, construct, d, items, fixed=(), body=None, ordered=()):
        """items: [(what, accepted form(s), stmt key)].  All forms are matched against the statements
        of `d` under one consistent renaming of local names (sa/match.find_group).

        ordered: [(key_a, key_b, why)] -- when both statements are found exactly, sit in the same block and
        b writes a name that a reads, a must come first; the reverse order is a definite violation (the two
        statements are the ones the rule is about, and exchanging them changes what a reads)."""
        from . import match
        stmts = body if body is not None else d.node.body
        res = match.find_group(stmts, [it[1] for it in items], fixed)
        out = []
        found = {key: node for (what, _, key), (v, node, diffs) in zip(items, res) if v == match.SAME}
        for ka, kb, why in ordered:
            na, nb = found.get(ka), found.get(kb)
            if na is None or nb is None:
                continue
            blk = next((getattr(x, f) for x in ast.walk(ast.Module(body=list(stmts), type_ignores=[])) for f in ("body", "orelse", "finalbody")
                        if isinstance(getattr(x, f, None), list) and any(y is na for y in getattr(x, f)) and any(y is nb for y in getattr(x, f))), None)
            if blk is None:
                continue
            ia, ib = next(i for i, y in enumerate(blk) if y is na), next(i for i, y in enumerate(blk) if y is nb)
            wb = {n.id for n in ast.walk(nb) if isinstance(n, ast.Name) and isinstance(n.ctx, ast.Store)} | \
                 {n.target.id for n in ast.walk(nb) if isinstance(n, ast.AugAssign) and isinstance(n.target, ast.Name)}
            ra = {n.id for n in ast.walk(na) if isinstance(n, ast.Name) and isinstance(n.ctx, ast.Load)}
            if ia > ib and (wb & ra):
                self.add(rule, construct, d.loc(na), why, VIOLATION,
                         f"`{norm_src(nb)[:60]}` comes before `{norm_src(na)[:60]}` and changes `{sorted(wb & ra)[0]}`, which the latter reads: {why}",
                         stmt=f"order:{ka}<{kb}", definite=True)
            else:
                self.ok(rule, construct, d.loc(na), why, f"`{norm_src(na)[:40]}` precedes `{norm_src(nb)[:40]}`", stmt=f"order:{ka}<{kb}")
        for (what, _, key), (v, node, diffs) in zip(items, res):
            loc = d.loc(node) if node is not None else d.loc()
            if v == match.SAME:
                out.append(self.ok(rule, construct, loc, what, norm_src(node)[:100], stmt=key))
                self._dominance(rule, construct, d, stmts, node, what, key)
            elif v == match.LEAF and self.definite_leaf(d.qualname, node, diffs):
                out.append(self.add(rule, construct, loc, what, VIOLATION,
                                    f"`{norm_src(node)[:120]}` differs from the form the definition requires: {match.describe(diffs)}",
                                    stmt=key, definite=True))
            else:
                out.append(self.unresolved(rule, construct, loc, what, "no statement of a recognised form found", stmt=key))
        return out

    # ---- must-pass-through, against the reference taken on the confirmed tree --------------------------------
    def _dominance(self, rule, construct, d, stmts, node, what, key):
        """An anchored statement that every normal path of its function passed through when the instances were
        confirmed (sa/reference/dominance.json) must still be on every path to a normal return: a new early return,
        a new branch around it, or a fast path that skips it is a shape the rule cannot vouch for (UNRESOLVED)."""
        if not isinstance(node, ast.stmt):
            return
        dom = _dominates_exit(d.node, node)
        if dom is None:
            return
        rec_key = f"{rule}|{construct}|{key}"
        self.dominance_seen[rec_key] = dom
        ref = _dominance_reference().get(self.prop, {})
        if ref.get(rec_key) is True and not dom:
            self.unresolved(rule, construct, d.loc(node), what + " -- on every path to a normal return",
                            f"`{norm_src(node)[:70]}` was on every path to a normal return when this instance was confirmed; now a path reaches a "
                            f"return without passing through it (a new early return, branch or fast path)", stmt=f"dom:{key}")

    def guard(self, fn, *args, **kw):
        """Run one part of a check; a vanished anchor inside it becomes an UNRESOLVED instance
        (exit 2 unless another part reports a definite violation) instead of aborting the run."""
        from .model import AnalysisError
        try:
            return fn(*args, **kw)
        except AnalysisError as e:
            self.rules.setdefault("R-ANCHOR", "every anchor (def, statement, idiom) a rule needs is present")
            self.floors.setdefault("R-ANCHOR", 0)
            self.ceilings.setdefault("R-ANCHOR", 0)
            inst = self.unresolved("R-ANCHOR", getattr(fn, "__module__", "?") + "." + getattr(fn, "__name__", "?"), "",
                                   "anchor present", str(e), stmt=str(e)[:80])
            inst.facts["hard"] = public_anchor_vanished(str(e))
            return None

    def check(self, cond: bool, rule, construct, loc, what, detail_ok="", detail_bad="", **kw):
        if cond:
            return self.ok(rule, construct, loc, what, detail_ok, **kw)
        return self.bad(rule, construct, loc, what, detail_bad, **kw)


def public_anchor_vanished(msg: str) -> bool:
    """A *public* def / class / module of the package that a rule is anchored on is gone: no behaviour-preserving edit
    does that (the public interface changed), so the analysis is broken (exit 2).  A private helper, a nested function,
    a local name or a statement idiom that is gone is an ordinary refactoring: no verdict, not an error."""
    import re
    m = re.match(r"anchor-vanished: (def|class|module) ([\w.<>]+)$", msg.strip())
    if not m:
        return False
    parts = m.group(2).split(".")
    if "<locals>" in parts:
        return False
    last = parts[-1]
    dunder = last.startswith("__") and last.endswith("__")
    return dunder or not any(p.startswith("_") for p in parts if not (p.startswith("__") and p.endswith("__")))


def strict_mode() -> bool:
    """VERIF_STRICT=1: every undecided instance fails the run (exit 2).  Used by the self-validation and corpus tools to
    tell 'noticed but not decided' from 'passed'.  The registered commands run without it: an instance the analysis cannot
    decide is reported as NO-VERDICT, listed in the evidence, and does not change the exit status (only a definite
    violation is an alarm; only a broken analysis -- crash, public anchor gone, rule with no instances and nothing to
    explain it -- is exit 2)."""
    return os.environ.get("VERIF_STRICT") == "1" or bool(os.environ.get("VERIF_SELFTEST_CHILD"))


# ----------------------------------------------------------------- dominance reference

_DOM_REF = None


def _dominance_reference() -> dict:
    global _DOM_REF
    if _DOM_REF is None:
        p = os.path.join(VERIF, "sa", "reference", "dominance.json")
        try:
            with open(p, encoding="utf-8") as f:
                _DOM_REF = json.load(f)
        except FileNotFoundError:
            _DOM_REF = {}
    return _DOM_REF


def _dominates_exit(fn_node: ast.AST, stmt: ast.AST):
    """Is `stmt` on every path from the entry of its (innermost enclosing) function to a normal return?
    None when the statement is not found in a function body."""
    from .cfg import CFG
    # innermost function containing the statement
    owner = None
    for f in ast.walk(fn_node):
        if isinstance(f, (ast.FunctionDef, ast.AsyncFunctionDef)) and any(x is stmt for x in ast.walk(f)):
            owner = f  # ast.walk is breadth-first: the last hit is the innermost
    if owner is None:
        return None
    try:
        g = CFG(owner.body)
    except Exception:  # noqa: BLE001  (a construct the CFG does not model: no reference fact)
        return None
    target = g.stmt_node.get(id(stmt))
    if target is None:
        return None
    seen, todo = {g.entry}, [g.entry]
    while todo:
        n = todo.pop()
        if n is g.exit:
            return False
        for m, l in g.succ[n]:
            if m is target or m in seen or l == "exc" or m is g.raise_exit:
                continue
            seen.add(m)
            todo.append(m)
    return True


# ----------------------------------------------------------------- findings


def load_known(path: Optional[str] = None) -> list[dict]:
    path = path or os.path.join(VERIF, "known_findings.json")
    if not os.path.exists(path):
        return []
    with open(path, encoding="utf-8") as f:
        data = json.load(f)
    return data.get("findings", [])


def match_known(inst: Instance, prop: str, known: list[dict]) -> Optional[dict]:
    for k in known:
        if k.get("status") != "known":
            continue  # 'fixed' entries suppress nothing
        if (k.get("property") == prop and k.get("rule") == inst.rule
                and k.get("construct") == inst.construct and k.get("stmt", "") == inst.stmt):
            return k
    return None


# ----------------------------------------------------------------- finishing


def finish(col: Collector, tier: str, t0: float, extra_coverage: Optional[dict] = None,
           selftest: Optional[dict] = None, write: bool = True) -> int:
    prop = col.prop
    known = load_known()
    lines = []
    viol, known_hits, unresolved = [], [], []
    by_rule: dict[str, list[Instance]] = {}
    for i in col.instances:
        by_rule.setdefault(i.rule, []).append(i)
        if i.verdict == VIOLATION:
            k = match_known(i, prop, known)
            if k is not None:
                known_hits.append((i, k))
            else:
                viol.append(i)
        elif i.verdict == UNRESOLVED:
            unresolved.append(i)

    errors, soft = [], []
    strict = strict_mode()
    hard_anchor = [i for i in unresolved if i.rule == "R-ANCHOR" and i.facts.get("hard")]
    for i in hard_anchor:
        errors.append(f"public anchor gone: {i.detail}")
    for rid, floor in col.floors.items():
        n = len([i for i in by_rule.get(rid, []) if i.verdict != INFO])
        if n < floor:
            msg = (f"rule {rid}: {n} instances found, floor is {floor} "
                   f"(rule would pass vacuously)")
            # a shortfall that the undecided instances of this run explain (an anchor of the rule was not found) is
            # part of that no-verdict; a shortfall with nothing undecided means the rule itself is broken
            (errors if (strict or not unresolved) else soft).append(msg)
    for rid in by_rule:
        if rid not in col.rules:
            errors.append(f"rule {rid} used but not declared")
    for rid, ceil in col.ceilings.items():
        n = len([i for i in by_rule.get(rid, []) if i.verdict == UNRESOLVED])
        if n > ceil:
            (errors if strict else soft).append(f"rule {rid}: {n} unresolved instances, ceiling is {ceil}")

    for i in col.instances:
        if i.verdict in (VIOLATION, UNRESOLVED):
            es = col.edit_size(i.construct) if os.environ.get("VERIF_SHOW_EDIT") and i.verdict == VIOLATION else None
            print(f"{i.loc} {i.rule} [{i.construct}] {i.what}: {i.verdict} -- " + (f"[edit +{es[0]}/-{es[1]}{' shape' if i.rule in col.shape_rules else ''}] " if es else "") + f"{i.detail}")
    if unresolved and not strict:
        print(f"NO-VERDICT property={prop} {len(unresolved)} instance(s) could not be decided on this tree (listed above as UNRESOLVED "
              f"and in the evidence file); they are neither a pass nor an alarm")
    n_ok = len([i for i in col.instances if i.verdict == OK])
    print(f"{prop}: {len(col.instances)} instances over {len(col.rules)} rules: "
          f"{n_ok} OK, {len(viol)} VIOLATION, {len(known_hits)} known, "
          f"{len(unresolved)} UNRESOLVED  ({time.time() - t0:.2f}s, tier={tier})")
    for rid in sorted(col.rules):
        xs = by_rule.get(rid, [])
        print(f"  {rid:<12} {len(xs):>3} instances "
              f"({len([x for x in xs if x.verdict == OK])} ok) -- {col.rules[rid]}")

    for i, k in known_hits:
        print(f"KNOWN-FINDING: property={prop} {k.get('id', '')} {i.rule} {i.construct}: "
              f"{k.get('what', i.detail)}")

    code = 0
    replay_paths = []
    if viol:
        code = 1
        rdir = os.path.join(VERIF, "replay")
        if os.environ.get("VERIF_SELFTEST_CHILD"):
            # runs against scratch copies (self-validation, seeds): nobody replays these
            import tempfile
            rdir = os.path.join(tempfile.gettempdir(), "verif_scratch_replay")
        os.makedirs(rdir, exist_ok=True)
        for i in viol:
            h = hashlib.sha1(repr(i.key(prop)).encode()).hexdigest()[:10]
            p = os.path.join(rdir, f"{prop}-{i.rule}-{h}.json")
            with open(p, "w", encoding="utf-8") as f:
                json.dump({"property": prop, **i.to_json()}, f, indent=1)
            replay_paths.append(p)
            print(f"VIOLATION property={prop} replay={p}")
    elif errors:
        code = 2
    for e in errors:
        print(f"ANALYSIS-ERROR property={prop} {e}")
    for e in soft:
        print(f"NO-VERDICT property={prop} {e}")

    if write:
        write_evidence(col, tier, t0, viol, known_hits, unresolved, errors + soft, extra_coverage,
                       selftest)
    return code


def write_evidence(col: Collector, tier, t0, viol, known_hits, unresolved, errors,
                   extra_coverage=None, selftest=None) -> None:
    decided = [i for i in col.instances if i.verdict in (OK, VIOLATION, UNRESOLVED)]
    ok = [i for i in decided if i.verdict == OK]
    distinct = {(i.rule, i.construct, i.what, i.stmt) for i in decided if i.nontrivial}
    samples = []
    seen_rules = {}
    for i in col.instances:
        if i.verdict == INFO:
            continue
        if seen_rules.get(i.rule, 0) < 3 or i.verdict != OK:
            seen_rules[i.rule] = seen_rules.get(i.rule, 0) + 1
            samples.append(i.to_json())
    per_rule = {}
    for i in decided:
        r = per_rule.setdefault(i.rule, {"instances": 0, "ok": 0, "violation": 0,
                                         "unresolved": 0, "floor": col.floors.get(i.rule, 0)})
        r["instances"] += 1
        r[{OK: "ok", VIOLATION: "violation", UNRESOLVED: "unresolved"}[i.verdict]] += 1
    exhaustive = bool(col.rules) and set(col.rules) <= col.exhaustive_rules
    cov = {
        "explanation": " ".join(f"[{rid}] {txt}" for rid, txt in sorted(col.rules.items())),
        "obligations": len(decided),
        "discharged": len(ok),
        "evaluations": max(len(decided), 1),
        "distinct_nontrivial": len(distinct),
        "rule": "one case = one instance of a rule (a def, call site, statement, table cell, "
                "CFG path or decision-table row found in /repo's current source); distinct = "
                "different (rule, construct, slot values, statement); non-trivial = the verdict "
                "depended on facts extracted from the code beyond the anchor existing",
        "samples": samples[:60],
        "exhaustive": exhaustive,
        "exhaustive_rules": sorted(col.exhaustive_rules),
        "per_rule": per_rule,
        "analysed": col.analysed,
        "unresolved": [i.to_json() for i in unresolved],
        "known_findings_hit": [{"id": k.get("id"), **i.to_json()} for i, k in known_hits],
        "violations": [i.to_json() for i in viol],
        "analysis_errors": errors,
        "not_decided": col.not_decided,
        "checker_cmd": f"/venv/bin/python check.py {col.prop} --tier {tier}",
        "trusted_base": ["CPython ast module", "the rule implementations under /verif/sa",
                         "assumptions listed in this file"],
    }
    if extra_coverage:
        cov.update(extra_coverage)
    if selftest is not None:
        cov["selftest"] = selftest
    ev = {
        "property_id": col.prop,
        "tier": tier,
        "seed": int(os.environ.get("VERIF_SEED", "0") or 0),
        "level": "other",
        "coverage": cov,
        "assumptions": col.assumptions,
        "wall_s": round(time.time() - t0, 3),
        "violations": len(viol),
    }
    edir = os.path.join(VERIF, "evidence")
    os.makedirs(edir, exist_ok=True)
    with open(os.path.join(edir, f"{col.prop}.json"), "w", encoding="utf-8") as f:
        json.dump(ev, f, indent=1, default=str)
