"""Positive / negative examples for the stateful-transform lint (must match on every run)."""


class Transform:
    pass


class StaleList(Transform):
    def __init__(self):
        self._removals = []
        self.callbacks = [lambda br: self._removals.append(br)]

    def __call__(self, x):
        return list(self._removals)


class ReassignsMatrix(Transform):
    def __init__(self, tm):
        self.tm = tm

    def __call__(self, x):
        self.tm = self.tm @ self.tm
        return x


class Balanced(Transform):
    def __init__(self):
        self.callbacks = []

    def __call__(self, x):
        out = []
        self.callbacks.append(out.append)
        for cb in self.callbacks:
            cb(x)
        self.callbacks.pop()
        return out


class Plain(Transform):
    def __init__(self, k):
        self.k = k

    def __call__(self, x):
        return x * self.k


class WritesThroughAlias(Transform):
    def __init__(self, tm):
        self.tm = tm

    def __call__(self, x):
        tm = np.asarray(self.tm, dtype=np.float32)  # no copy: the dtype already matches
        tm[:3, 3] += x
        return tm


class AliasOnlyOnOtherArm(Transform):
    def __init__(self, tm):
        self.tm = tm

    def __call__(self, x, centre):
        if centre:
            tm = self.tm.copy()
            tm[:3, 3] += x
        else:
            tm = self.tm
        return tm
