"""Positive / negative examples for the cache lint (sa/rules/memo.py)."""
from functools import lru_cache


class KeyOmitsKwargs:
    def __init__(self):
        self._values = {}

    def get(self, feat, **kwargs):
        if feat not in self._values:
            self._values[feat] = self.evaluate(feat, **kwargs)
        return self._values[feat]


def key_is_projection(trees, transform):
    done = {}
    out = []
    for t in trees:
        new_t = done.get(t.source)
        if new_t is None:
            new_t = transform(t)
            done[t.source] = new_t
        out.append(new_t)
    return out


@lru_cache(maxsize=8)
def cached_file_read(fname):
    with open(fname) as f:
        return f.read()


def complete_key(xs, f):
    seen = {}
    for x in xs:
        if x not in seen:
            seen[x] = f(x)
    return seen
