"""Kept positive examples for sa/rules/deadstore.py (never imported by the library)."""


def build(limit=2, scale=1.0):
    return (limit, scale)


def late_alias(limit=2, k_limit=None):
    out = build(limit=limit)
    if k_limit is not None:
        limit = k_limit  # dead: `limit` was consumed above
    return out


def late_alias_branch(x, limit=2, old=None, flag=False):
    if flag:
        y = build(limit)
        limit = old or limit
        return y
    return build(limit)


def early_alias(limit=2, k_limit=None):
    if k_limit is not None:
        limit = k_limit
    return build(limit=limit)


def alias_read_in_closure(limit=2, k_limit=None):
    def go():
        return build(limit)
    first = build(limit)
    limit = k_limit
    return first, go()


def rebound_then_used_in_loop(items, limit=2, step=1):
    out = []
    for it in items:
        out.append(build(limit))
        limit = limit + step
    return out
