"""Kept examples for sa/rules/zerolen.py (never imported by the library)."""
import numpy as np


def lerp_rows(x, xp, fp):
    i = np.searchsorted(xp, x, side="right") - 1
    i = np.clip(i, 0, len(xp) - 2)
    t = (x - xp[i]) / (xp[i + 1] - xp[i])
    return fp[i] + t[:, None] * (fp[i + 1] - fp[i])


def lerp_named(new_d, cum, src):
    seg = np.searchsorted(cum, new_d, side="right") - 1
    seg_start = cum[seg]
    seg_length = cum[seg + 1] - seg_start
    t = (new_d - seg_start) / seg_length
    return src[seg] + t[:, None] * (src[seg + 1] - src[seg])


def uses_interp(x, xp, fp):
    return np.interp(x, xp, fp)


def guarded(x, xp, fp):
    i = np.searchsorted(xp, x, side="right") - 1
    den = xp[i + 1] - xp[i]
    t = np.where(den > 0, (x - xp[i]) / np.where(den > 0, den, 1), 0.0)
    return fp[i] + t * (fp[i + 1] - fp[i])
