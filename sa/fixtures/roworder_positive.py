"""Positive / negative examples for the row-order kind inference (sa/rules/roworder.py)."""
import numpy as np


def mixed_orders(df, names):
    ids, pids = df[names.id].to_numpy(), df[names.pid].to_numpy()
    indices = np.argsort(ids)
    new_ids = np.arange(len(ids))
    new_pids = np.where(pids == -1, -1, np.searchsorted(ids[indices], pids))  # still in file order
    for col in df.columns:
        df[col] = df[col][indices].to_numpy()
    df[names.id], df[names.pid] = new_ids, new_pids


def permuted_consistently(df, names):
    ids, pids = df[names.id].to_numpy(), df[names.pid].to_numpy()
    indices = np.argsort(ids)
    new_pids = np.where(pids[indices] == -1, -1, np.searchsorted(ids[indices], pids[indices]))
    for col in df.columns:
        df[col] = df[col][indices].to_numpy()
    df[names.pid] = new_pids


def through_sorter(df, names):
    ids, pids = df[names.id].to_numpy(), df[names.pid].to_numpy()
    (new_ids, new_pids), indices = sort_nodes_impl((ids, pids))  # noqa: F821
    for col in df.columns:
        df[col] = df[col][indices].to_numpy()
    df[names.id], df[names.pid] = new_ids, new_pids
