"""Kept positive examples for sa/rules/inplace.py (never imported by the library)."""
import numpy as np


def scale_out(data, f, dtype):
    if data.ndim == 3:
        data = np.expand_dims(data, -1)
    return np.multiply(data, f, out=data).astype(dtype)


def scale_aug(data, f):
    data = np.moveaxis(data, 2, 0)
    data *= f
    return data


def fresh_first(data, f):
    data = data * f
    data *= 2
    data[0] = 0
    return data


def slice_store(data):
    data[..., 0] = 0
    return data
