"""Kept examples for sa/rules/stale.py (never imported by the library)."""


def redirect_tree(t, n, sort=True):
    return t.copy()


def hoisted_handle(tree1, tree2, node1, node2):
    tree, tree2 = tree1.copy(), tree2.copy()
    c = tree.node(node1)
    r = tree2.node(node2)
    if not r.is_root():
        tree2 = redirect_tree(tree2, node2, sort=False)
    return r.xyz() - c.xyz()  # r still looks at the tree before re-rooting


def handle_after_rebind(tree1, tree2, node1, node2):
    tree, tree2 = tree1.copy(), tree2.copy()
    if not tree2.node(node2).is_root():
        tree2 = redirect_tree(tree2, node2, sort=False)
    r = tree2.node(node2)
    return r.xyz()


def handle_retaken(tree2, node2):
    r = tree2.node(node2)
    tree2 = redirect_tree(tree2, node2, sort=False)
    r = tree2.node(node2)
    return r.xyz()
