"""Kept positive examples for sa/rules/sinsqrt.py (never imported by the library)."""
import numpy as np


def rot_sqrt(theta):
    cos = np.cos(theta)
    sin = np.sqrt(1 - cos * cos)
    return np.array([[cos, -sin], [sin, cos]])


def rot_copysign(theta):
    c = np.cos(theta)
    s = np.copysign(np.sqrt(1.0 - c ** 2), theta)
    return np.array([[c, -s], [s, c]])


def rot_fine(theta):
    c, s = np.cos(theta), np.sin(theta)
    return np.array([[c, -s], [s, c]])
