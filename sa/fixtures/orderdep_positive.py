"""Positive examples for the numbering-dependence lint (must match on every run)."""
import numpy as np


def path_length_forward(xyz, pid):
    dist = np.zeros(len(pid))
    for i in range(1, len(pid)):
        dist[i] = dist[pid[i]] + np.linalg.norm(xyz[i] - xyz[pid[i]])
    return dist


def mark_forward(new_ids, pids, REMOVAL=-2):
    for n, pid in enumerate(pids):
        if pid != -1 and new_ids[pid] == REMOVAL:
            new_ids[n] = REMOVAL
    return new_ids


def not_a_recurrence(xyz, pid):
    seg = np.zeros(len(pid))
    for i in range(1, len(pid)):
        seg[i] = np.linalg.norm(xyz[i] - xyz[pid[i]])  # reads another array at the parent: fine
    return seg


def keep_backward(types, pid, wanted):
    keep = types == wanted
    for i in range(len(keep) - 1, 0, -1):
        if keep[i]:
            keep[pid[i]] = True  # pushes the flag up one level per row: complete only for sorted numbering
    return keep


def count_children(pid):
    n_children = np.zeros(len(pid), dtype=int)
    for i in range(1, len(pid)):
        n_children[pid[i]] += 1  # writes the parent's slot, reads nothing of its own: order free
    return n_children
