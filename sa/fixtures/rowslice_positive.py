"""Kept examples for sa/rules/rowslice.py (never imported by the library)."""


def subtree_rows_after(swc_like, n: int):
    ids = []
    topo = (swc_like.id()[n:], swc_like.pid()[n:])
    return topo, ids


def children_from_start(topology, root=0):
    ids, pids = topology
    out = {}
    for idx, pid in zip(ids[root:], pids[root:]):
        out.setdefault(pid, []).append(idx)
    return out


def all_but_root(tree, n: int):
    return tree.pid()[1:], tree.id()[1:]
