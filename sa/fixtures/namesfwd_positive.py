"""Kept examples for sa/rules/namesfwd.py (never imported by the library)."""


class DictSWC:
    def __init__(self, source="", names=None, **cols):
        self.cols, self.source, self.names = cols, source, names


class V:
    def detach_without_names(self):
        return DictSWC(**{k: self.get_ndata(k) for k in self.keys()}, source=self.source)

    def detach_with_names(self):
        return DictSWC(**{k: self.get_ndata(k) for k in self.keys()}, source=self.source, names=self.names)

    def literal_columns(self, n):
        return DictSWC(id=list(range(n)), pid=[-1] * n)
