"""Kept examples for sa/rules/loopvar.py (never imported by the library)."""


def renumber(sub):
    return (list(range(len(sub))), [-1] * len(sub)), list(sub)


def counter_takes_over(sub, out):
    (new_id, new_pid), mapping = renumber(sub)
    n = len(new_id)
    for new_id, old_id in enumerate(mapping):
        out[new_id] = old_id
    return n, {"id": new_id, "pid": new_pid}  # new_id is the last counter value here


def counter_not_read_after(sub, out):
    (new_id, new_pid), mapping = renumber(sub)
    cols = {"id": new_id, "pid": new_pid}
    for new_id, old_id in enumerate(mapping):
        out[new_id] = old_id
    return cols


def default_then_loop(items):
    last = 0
    for last in range(len(items)):
        pass
    return last


def rebound_after_loop(sub, out):
    (new_id, new_pid), mapping = renumber(sub)
    n = len(new_id)
    for new_id, old_id in enumerate(mapping):
        out[new_id] = old_id
    (new_id, new_pid), mapping = renumber(sub)
    return n, new_id
