"""Kept examples for sa/rules/rootpos.py (never imported by the library)."""


def reroot_fast_path(tree, new_root: int):
    tree = tree.copy()
    if new_root == 0:
        return tree
    path = [tree.node(new_root)]
    return path


def cat_needs_reroot(tree1, tree2, node1: int, node2: int):
    if node2 != 0:
        tree2 = redirect_tree(tree2, node2)
    return tree1.node(node1), tree2


def asks_the_node(tree, new_root: int):
    if tree.node(new_root).is_root():
        return tree.copy()
    return None


def count_is_zero(tree, k: int, n_children: int):
    if n_children == 0:
        return tree.node(k)
    return None
