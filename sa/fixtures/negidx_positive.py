"""Kept examples for sa/rules/negidx.py (never imported by the library)."""
import numpy as np


def count_children_all_rows(tree):
    n_children = np.zeros(tree.number_of_nodes(), dtype=np.int32)
    np.add.at(n_children, tree.pid(), 1)
    return n_children > 1


def count_children_named(tree):
    pid = tree.pid()
    n_children = np.zeros(len(pid), dtype=np.int32)
    n_children[pid] += 1
    return n_children


def count_children_masked(tree):
    pid = tree.pid()
    n_children = np.zeros(len(pid), dtype=np.int32)
    np.add.at(n_children, pid[pid != -1], 1)
    return n_children
