"""Kept examples for sa/rules/colname.py (never imported by the library)."""


def store_by_literal_loop(x, y, xyzw):
    for key, col in zip("xyz", xyzw):
        y.ndata[key] = col
    return y


def store_by_names(x, y, xyzw):
    y.ndata[x.names.x] = xyzw[0]
    y.ndata[x.names.y] = xyzw[1]
    y.ndata[x.names.z] = xyzw[2]
    return y


def read_by_literal(t):
    return t.ndata["pid"] == -1


def keys_from_parameter(t, keys):
    for key in keys:
        t.ndata[key] = t.ndata[key] * 2
    return t
