"""Kept examples for sa/rules/axiskind.py (never imported by the library)."""


def _tp3f(v):
    return (float(v[0]), float(v[1]), float(v[2]))


def slice_at_x_step(coord_min, coord_max, stride):
    xmin, ymin, zmin = _tp3f(coord_min + stride / 2)
    xmax, ymax, zmax = _tp3f(coord_max)
    dx, dy, dz = _tp3f(stride)
    out = []
    for i in range(10):
        z = zmin + i * dx  # a length along X added to a position along Z
        out.append(((xmin, ymin, z), (xmax, ymax, z + dz)))
    return out


def half_x_voxel_everywhere(coord_min, coord_max, stride, offset=None):
    if offset is None:
        offset = 0.5 * stride[0]
    return _tp3f(coord_min + offset)  # one axis' half voxel added to all three axes


def swapped_components(coord_min, coord_max, stride):
    xmin, ymin, zmin = _tp3f(coord_min)
    return (ymin, xmin, zmin)


def fine(coord_min, coord_max, stride, offset=None):
    eps = 1e-6
    offset = offset or (stride / 2)
    xmin, ymin, zmin = _tp3f(coord_min + offset)
    xmax, ymax, zmax = _tp3f(coord_max)
    z = zmin
    out = []
    while z < zmax:
        out.append(((xmin, ymin, z), (xmax, ymax, z + stride[2] - eps), _tp3f(stride)))
        z += stride[2]
    n = int((zmax - zmin) / stride[2])
    return out, n
