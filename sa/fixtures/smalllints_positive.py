"""Kept examples for sa/rules/smalllints.py (never imported by the library)."""
import numpy as np


def scale_or_default(sx: float, sy: float = None, sz: float = None):
    sy = sy or sx  # a factor of 0 is replaced by sx
    return sx, sy, sz


def scale_is_none(sx: float, sy: float = None):
    if sy is None:
        sy = sx
    return sx, sy


def degenerate_line(a_pt, b_pt):
    d = b_pt - a_pt
    a = np.dot(d, d)
    if np.isclose(a, 0):
        return []
    return [a]


def jump_floor_log(parent):
    n = len(parent)
    anc = parent.copy()
    for _ in range(int(np.log2(n))):
        anc = anc[anc]
    return anc


def jump_to_fixpoint(parent):
    anc = parent.copy()
    while True:
        nxt = anc[anc]
        if np.array_equal(nxt, anc):
            return anc
        anc = nxt


class SharedTable:
    branches: dict = {}

    @classmethod
    def build(cls, items):
        t = cls()
        for k, v in items:
            t.branches.setdefault(k, []).append(v)
        return t


class OwnTable:
    branches: dict = {}

    def __init__(self):
        self.branches = {}

    def add(self, k, v):
        self.branches.setdefault(k, []).append(v)
