"""Kept examples for sa/rules/opaque.py (never imported by the library)."""


def hand_down_if_truthy(children, enter=None, root=0):
    params = {}
    stack = [root]
    while stack:
        idx = stack.pop()
        pre = params.pop(idx, None)
        cur = enter(idx, pre) if enter is not None else None
        for c in children.get(idx, []):
            stack.append(c)
            if cur:                      # a depth of 0 is dropped
                params[c] = cur


def hand_down_always(children, enter=None, root=0):
    params = {root: None}
    stack = [root]
    while stack:
        idx = stack.pop()
        pre = params.pop(idx)
        cur = enter(idx, pre) if enter is not None else None
        for c in children.get(idx, []):
            stack.append(c)
            params[c] = cur


def default_with_or(items, leave):
    out = []
    for i in items:
        v = leave(i, [])
        out.append(v or -1)
    return out


def callback_is_none_test(items, leave=None):
    out = []
    for i in items:
        v = leave(i, []) if leave is not None else None
        if v is not None:
            out.append(v)
    return out
