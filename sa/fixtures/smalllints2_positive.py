"""Kept examples for sa/rules/smalllints2.py (never imported by the library)."""
import os
import warnings
from typing import IO, Union

import numpy as np

PathOrIO = Union[str, IO]


def basename_of_stream(swc_file: PathOrIO, bad: bool):
    if bad:
        warnings.warn(f"non-positive radius in `{os.path.basename(swc_file)}`")


def abspath_if_str(swc_file: PathOrIO):
    return os.path.abspath(swc_file) if isinstance(swc_file, str) else ""


def block_move(df, indices):
    df.iloc[:] = df.iloc[indices].to_numpy()


def column_by_column(df, indices):
    for col in df.columns:
        df[col] = df[col][indices].to_numpy()


def index_from_comprehension(pid, children, ns, node1):
    link = np.array([n.id for n in children]) + ns
    pid[link] = node1


def index_with_dtype(pid, children, ns, node1):
    link = np.array([n.id for n in children], dtype=np.int64) + ns
    pid[link] = node1


def cursor_node(tree, ids, fn):
    cursor = tree.Node(tree, 0)
    out = []
    for i in ids:
        cursor.idx = i
        out.append(fn(cursor))
    return out


def squared_in_input_dtype(points):
    diff = points.reshape((-1, 1, 3)) - points.reshape((1, -1, 3))
    return np.sqrt(np.einsum("ijk,ijk->ij", diff, diff))


def norm_promotes(points):
    return np.linalg.norm(points.reshape((-1, 1, 3)) - points.reshape((1, -1, 3)), axis=2)
