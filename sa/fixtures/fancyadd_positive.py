"""Positive / negative examples for the repeated-index accumulation lint."""
import numpy as np


def lossy(v, pid, w):
    child = np.flatnonzero(pid >= 0)
    parent = pid[child]
    v[parent] += w[child]
    return v


def scalar_loop(v, pid, w):
    for child, parent in enumerate(pid):
        if parent >= 0:
            v[parent] += w[child]
    return v


def add_at(v, pid, w):
    child = np.flatnonzero(pid >= 0)
    parent = pid[child]
    np.add.at(v, parent, w[child])
    return v
