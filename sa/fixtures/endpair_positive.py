"""Kept positive examples for sa/rules/endpair.py (never imported by the library)."""
import numpy as np


def far_end_slip(frustum, sphere):
    if np.allclose(sphere.center, frustum.c2) and np.allclose(sphere.radius, frustum.r2):
        return frustum.c1, frustum.r2  # slip: radius of the wrong end
    return frustum.c2, frustum.r2


def match_slip(c, r, fc):
    if np.allclose(c, fc.c2) and np.allclose(r, fc.r1):  # slip: centre of end 2, radius of end 1
        return 1
    return 0


def fine(fc, c1, r1):
    if np.allclose(c1, fc.c1) and np.allclose(r1, fc.r1):
        c2, r2 = fc.c2, fc.r2
    else:
        c2, r2 = fc.c1, fc.r1
    return FrustumCone(fc.c1, fc.c2, fc.r1, fc.r2), c2, r2
