"""Kept examples for sa/rules/endpoints.py (never imported by the library)."""
import numpy as np


def span_equals_len(old_ids, id_map):
    if old_ids[-1] - old_ids[0] == len(old_ids) - 1:
        return id_map - old_ids[0]
    return None


def span_named_first(old_ids, old_pids):
    n, first = len(old_ids), old_ids[0]
    if old_ids[-1] - first == n - 1 and np.all(old_pids < old_ids):
        return np.arange(n)
    return None


def plus_one_form(idx, data):
    if idx[-1] + 1 - idx[0] == len(idx):
        return data[idx[0]:idx[-1] + 1]
    return data[idx]


def with_diff_check(idx, data):
    if len(idx) > 0 and idx[-1] - idx[0] == len(idx) - 1 and np.all(np.diff(idx) == 1):
        return data[idx[0]:idx[-1] + 1]
    return data[idx]


def unrelated(a, b):
    if a[-1] - b[0] == len(a) - 1:
        return 1
    return 0
