"""Kept examples for sa/rules/orderkind.py (never imported by the library)."""
import numpy as np


class PathStats:
    def __init__(self, tree):
        self.tree = tree

    def _paths(self):
        return self.tree.get_paths()

    def get_length(self):
        return np.array([p.length() for p in self._paths()])

    def tortuosity_tips_over_paths(self):
        xyz = self.tree.xyz()
        tips = np.array([n.id for n in self.tree.get_tips()])
        straight = np.linalg.norm(xyz[tips] - xyz[0], axis=1)
        length = self.get_length()
        return straight / length            # k-th tip (id order) over k-th path (traversal order)

    def tortuosity_per_path(self):
        return np.array([p.straight_line_distance() for p in self._paths()]) / self.get_length()

    def tip_distance_over_total(self):
        xyz = self.tree.xyz()
        tips = np.array([n.id for n in self.tree.get_tips()])
        straight = np.linalg.norm(xyz[tips] - xyz[0], axis=1)
        return straight / np.sum(self.get_length())   # a reduction has no order
