"""Kept examples for sa/rules/outarg.py (never imported by the library)."""
import numpy as np


def scale_in_callers_buffer(data, k, dtype=None):
    if data.ndim == 3:
        data = np.expand_dims(data, -1)
    if dtype is not None:
        out = data if np.issubdtype(data.dtype, np.floating) else None
        data = np.multiply(data, k, out=out).astype(dtype)
    return data


def scale_into_fresh(data, k, dtype=None):
    if data.ndim == 3:
        data = np.expand_dims(data, -1)
    if dtype is not None:
        data = (data * k).astype(dtype)
    return data


def inplace_after_copy(data, k):
    data = np.array(data, dtype=float)
    data *= k
    return data


def inplace_on_view(data, k):
    view = data[..., 0]
    view *= k
    return view
