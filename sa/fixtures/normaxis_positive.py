"""Kept examples for sa/rules/normaxis.py (never imported by the library)."""
import numpy as np


def heights_all_children(sphere, children):
    centers = np.stack([c.center for c in children])
    return np.linalg.norm(centers - sphere.center)


def heights_per_child(sphere, children):
    centers = np.stack([c.center for c in children])
    return np.linalg.norm(centers - sphere.center, axis=1)


def one_vector(a, b):
    return np.linalg.norm(a.xyz() - b.xyz())
