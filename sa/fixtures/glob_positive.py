"""Kept examples for sa/rules/globlint.py (never imported by the library)."""
import glob
import os


def listing_by_glob(root, ext=".swc"):
    pattern = os.path.join(root, "**", f"*{ext}")
    return [f for f in glob.iglob(pattern, recursive=True) if os.path.isfile(f)]


def listing_escaped(root, ext=".swc"):
    return glob.glob(os.path.join(glob.escape(root), "**", "*" + ext), recursive=True)


def listing_by_walk(root, ext=".swc"):
    out = []
    for r, _, files in os.walk(root):
        out.extend(os.path.join(r, f) for f in files if os.path.splitext(f)[-1] == ext)
    return out
