"""Kept examples for sa/rules/idxguard.py (never imported by the library)."""


class T:
    def number_of_nodes(self):
        return 0

    def number_of_edges(self):
        return self.number_of_nodes() - 1

    def __len__(self):
        return self.number_of_nodes()

    def start_bounded_by_edges(self, **kwargs):
        root = kwargs.get("root", 0)
        if not 0 <= root < self.number_of_edges():
            raise IndexError(f"The start node ({root}) is out of range.")
        return root

    def start_bounded_by_nodes(self, root=0):
        if not 0 <= root < self.number_of_nodes():
            raise IndexError(f"The start node ({root}) is out of range.")
        return root

    def getitem_normalised(self, key):
        length = len(self)
        if key < -length or key >= length:
            raise IndexError(f"The index ({key}) is out of range.")
        if key < 0:
            key += length
        return key
