"""Constant-domain statement walker on top of the folder.

Walks a statement list with an environment of *folded constants* (never live
objects of the repo), follows the branch a folded test selects, and records the
calls it meets as effects.  Anything outside the constant sub-language raises
``Unfoldable`` so that the caller reports UNRESOLVED.
"""

from __future__ import annotations

import ast
from typing import Callable, Optional

from .fold import Folder, Unfoldable, _bind


class Outcome:
    def __init__(self):
        self.effects: list[tuple[str, list]] = []  # (callee text, folded args)
        self.returned = False
        self.value = None
        self.raised: Optional[str] = None
        self.trace: list[str] = []


class _Break(Exception):
    pass


class _Continue(Exception):
    pass


class _Return(Exception):
    pass


class _Raise(Exception):
    pass


def run(stmts: list[ast.stmt], folder: Folder, effect_calls: Callable[[ast.Call], bool],
        out: Optional[Outcome] = None, opaque_calls: Callable[[ast.Call], bool] = lambda c: False
        ) -> Outcome:
    out = out or Outcome()
    try:
        _block(stmts, folder, effect_calls, opaque_calls, out)
    except _Return:
        out.returned = True
    except _Raise:
        pass
    return out


def _block(stmts, f: Folder, eff, opaque, out: Outcome):
    for s in stmts:
        _stmt(s, f, eff, opaque, out)


def _stmt(s, f: Folder, eff, opaque, out: Outcome):
    if isinstance(s, ast.Assign):
        v = f.eval(s.value)
        for t in s.targets:
            _bind(f.env, t, v)
    elif isinstance(s, ast.AnnAssign):
        if s.value is not None:
            _bind(f.env, s.target, f.eval(s.value))
    elif isinstance(s, ast.AugAssign):
        if not isinstance(s.target, ast.Name):
            raise Unfoldable(s, "augmented target")
        cur = f.eval(s.target)
        v = f.eval(ast.BinOp(left=ast.Constant(cur), op=s.op, right=s.value))
        f.env[s.target.id] = v
    elif isinstance(s, ast.If):
        t = f.eval(s.test)
        out.trace.append(f"L{s.lineno}:{'T' if t else 'F'}")
        _block(s.body if t else s.orelse, f, eff, opaque, out)
    elif isinstance(s, ast.Expr):
        if isinstance(s.value, ast.Call):
            c = s.value
            if eff(c):
                out.effects.append((ast.unparse(c.func), [f.eval(a) for a in c.args]))
            elif opaque(c):
                pass
            else:
                f.eval(c)
        elif isinstance(s.value, ast.Constant):
            pass
        else:
            f.eval(s.value)
    elif isinstance(s, ast.Return):
        out.value = f.eval(s.value) if s.value is not None else None
        raise _Return()
    elif isinstance(s, ast.Raise):
        out.raised = ast.unparse(s.exc) if s.exc is not None else "re-raise"
        raise _Raise()
    elif isinstance(s, ast.Pass):
        pass
    elif isinstance(s, ast.For):
        seq = f.eval(s.iter)
        try:
            for item in seq:
                _bind(f.env, s.target, item)
                try:
                    _block(s.body, f, eff, opaque, out)
                except _Continue:
                    continue
        except _Break:
            return
        _block(s.orelse, f, eff, opaque, out)
    elif isinstance(s, ast.Break):
        raise _Break()
    elif isinstance(s, ast.Continue):
        raise _Continue()
    elif isinstance(s, ast.Assert):
        if not f.eval(s.test):
            out.raised = "AssertionError"
            raise _Raise()
    else:
        raise Unfoldable(s, "statement kind")
