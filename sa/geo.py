"""E5 -- geometric types: (kind, degree) abstract interpretation of numeric code.

kinds
  P   absolute position (depends on where the neuron sits)          degree 1
  V   displacement / direction (difference of positions)            degree k
  C   single coordinate or other component of P/V (pose dependent)  degree k
  E   element-wise product of vectors (becomes S when summed)       degree k
  S   pose-independent scalar (norm, dot, radius, ratio, angle)     degree k
  N   count / index / bool
  L   numeric literal / tolerance: unifies with any degree
  Obj role-typed object (tree, centred tree, node, path, sphere, cone, ...)
  Seq / Tup containers;  Top unknown;  Bad definite misuse (carries a reason)

degree = power of length (Fraction); scaling the neuron by s multiplies a value of degree k
by s**k.  A rule violation is *definite* misuse only: norm of an absolute position, adding
two positions, comparing or adding different degrees, a P/V/C/E or wrong degree reaching an
observable.  Anything unknown is Top and makes the instance UNRESOLVED.
"""

from __future__ import annotations

import ast
from fractions import Fraction
from typing import Optional

from .model import Def, dotted, norm_src

F = Fraction


def P(): return ("P", F(1))
def V(k=1): return ("V", F(k))
def Cc(k=1): return ("C", F(k))
def E(k=2): return ("E", F(k))
def S(k=0): return ("S", F(k))
N = ("N",)
L = ("L",)
TOP = ("Top",)


def Obj(role, centred=False): return ("Obj", role, centred)
def Seq(t): return ("Seq", t)
def Tup(ts): return ("Tup", tuple(ts))
def Bad(why): return ("Bad", why)


def kind(t): return t[0]
def deg(t): return t[1] if kind(t) in "PVCES" and len(t) > 1 else None


def show(t) -> str:
    k = kind(t)
    if k in ("P", "V", "C", "E", "S"):
        return f"{k}^{t[1]}"
    if k == "Obj":
        return f"{t[1]}{'(centred)' if t[2] else ''}"
    if k == "Seq":
        return f"[{show(t[1])}]"
    if k == "Tup":
        return "(" + ", ".join(show(x) for x in t[1]) + ")"
    if k == "Bad":
        return f"Bad({t[1]})"
    return k


def join(a, b):
    if a == b:
        return a
    if a is None:
        return b
    if b is None:
        return a
    if kind(a) == "Bad":
        return a
    if kind(b) == "Bad":
        return b
    if kind(a) == "L":
        return b if kind(b) in ("S", "N", "L") else TOP
    if kind(b) == "L":
        return a if kind(a) in ("S", "N", "L") else TOP
    if kind(a) == "N" and kind(b) == "S" or kind(a) == "S" and kind(b) == "N":
        return a if kind(a) == "S" else b
    if kind(a) == kind(b) == "Seq":
        return Seq(join(a[1], b[1]))
    if kind(a) == kind(b) == "Tup" and len(a[1]) == len(b[1]):
        return Tup([join(x, y) for x, y in zip(a[1], b[1])])
    if kind(a) == kind(b) == "S":
        return Bad(f"values of degree {a[1]} and {b[1]} are merged")
    return TOP


def elem(t):
    if kind(t) == "Seq":
        return t[1]
    if kind(t) in ("P", "V", "S", "C", "E", "N", "L", "Bad"):
        return t  # an array of such values
    return TOP


# --------------------------------------------------------------------------- arithmetic


def add(a, b, sub=False):
    ka, kb = kind(a), kind(b)
    if "Bad" in (ka, kb):
        return a if ka == "Bad" else b
    if ka == "Seq" or kb == "Seq":
        if ka == "Seq" and kb == "Seq" and not sub:
            return Seq(join(a[1], b[1]))  # list concatenation
        return add(elem(a), elem(b), sub)
    if ka == "L":
        return b if kb in ("S", "N", "L", "C") else (TOP if kb in ("P", "V", "E") else b)
    if kb == "L":
        return a if ka in ("S", "N", "L", "C") else (TOP if ka in ("P", "V", "E") else a)
    if ka == "N" and kb == "N":
        return N
    if ka == "N":
        return b if kb == "S" and b[1] == 0 else (Bad(f"a count is {'subtracted from' if sub else 'added to'} a quantity of degree {b[1]}") if kb == "S" else TOP)
    if kb == "N":
        return add(b, a, sub)
    if ka == "P" and kb == "P":
        return V(1) if sub else Bad("two absolute positions are added")
    if ka == "P" and kb == "V":
        return P() if b[1] == 1 else Bad(f"a displacement of degree {b[1]} is added to a position")
    if ka == "V" and kb == "P":
        return Bad("a position is subtracted from a displacement") if sub else add(b, a)
    if ka == kb and ka in ("V", "S", "C", "E"):
        if a[1] != b[1]:
            return Bad(f"quantities of degree {a[1]} and {b[1]} are {'subtracted' if sub else 'added'}")
        return a
    if {ka, kb} == {"C", "S"} or {ka, kb} == {"C", "V"} or {ka, kb} == {"C", "P"}:
        return Cc((a if ka == "C" else b)[1])
    return TOP


def mul(a, b):
    ka, kb = kind(a), kind(b)
    if "Bad" in (ka, kb):
        return a if ka == "Bad" else b
    if ka in ("L", "N"):
        return b if kb != "Seq" else b
    if kb in ("L", "N"):
        return a
    if ka == "Seq" or kb == "Seq":
        return mul(elem(a), elem(b))
    if ka == "S" and kb == "S":
        return S(a[1] + b[1])
    if ka == "S" and kb in ("V", "C", "E"):
        return (kb, a[1] + b[1])
    if kb == "S" and ka in ("V", "C", "E"):
        return (ka, a[1] + b[1])
    if ka == "V" and kb == "V":
        return E(a[1] + b[1])
    if ka == "C" or kb == "C":
        if kb in ("C", "S", "V") and ka in ("C", "S", "V"):
            return Cc(a[1] + b[1])
    if "P" in (ka, kb):
        return Bad("an absolute position is multiplied")
    return TOP


def div(a, b):
    ka, kb = kind(a), kind(b)
    if "Bad" in (ka, kb):
        return a if ka == "Bad" else b
    if kb in ("L", "N"):
        return a
    if ka == "Seq" or kb == "Seq":
        return div(elem(a), elem(b))
    if kb == "S":
        if ka in ("S", "V", "C", "E"):
            return (ka, a[1] - b[1])
        if ka in ("L", "N"):
            return S(-b[1])
        if ka == "P":
            return Bad("an absolute position is divided by a scalar")
    if kb == "C" and ka in ("C", "S", "L", "N"):
        return Cc((a[1] if ka in ("C", "S") else 0) - b[1])
    if kb in ("V", "E") and ka in ("V", "E"):
        return Cc(a[1] - b[1])
    return TOP


def power(a, n: Optional[Fraction]):
    ka = kind(a)
    if ka in ("L", "N", "Bad"):
        return a
    if n is None:
        return a if ka == "S" and a[1] == 0 else TOP
    if ka == "S":
        return S(a[1] * n)
    if ka == "Seq":
        return power(elem(a), n)
    if ka in ("V", "E") and n == 2:
        return E(a[1] * 2)
    if ka == "C":
        return Cc(a[1] * n)
    if ka == "P":
        return Bad("an absolute position is raised to a power")
    return TOP


def compare(a, b):
    ka, kb = kind(a), kind(b)
    for t in (a, b):
        if kind(t) == "Bad":
            return t
    a, b = (elem(a) if ka == "Seq" else a), (elem(b) if kb == "Seq" else b)
    ka, kb = kind(a), kind(b)
    if ka in ("L", "N") or kb in ("L", "N") or "Top" in (ka, kb) or "Obj" in (ka, kb):
        return N
    if ka in "SVCE" and kb in "SVCE" and a[1] != b[1]:
        return Bad(f"quantities of degree {a[1]} and {b[1]} are compared")
    return N


def reduce_sum(a):
    a = elem(a)
    if kind(a) == "E":
        return S(a[1])
    if kind(a) == "V":
        return Cc(a[1])  # sum of the components of a vector is pose dependent
    if kind(a) == "P":
        return Bad("the coordinates of an absolute position are summed")
    return a


def norm(a):
    a = elem(a)
    k = kind(a)
    if k == "P":
        return Bad("norm of an absolute position (distance from the coordinate origin, not from the soma)")
    if k == "V":
        return S(a[1])
    if k == "S":
        return a
    if k == "C":
        return Cc(a[1])
    if k == "E":
        return Cc(a[1])
    if k in ("L", "N", "Bad"):
        return a
    return TOP


# --------------------------------------------------------------------------- sources

SCALAR_ATTR = {"r": S(1), "radius": S(1), "r1": S(1), "r2": S(1)}
POINT_ATTR = {"center": "P", "c1": "P", "c2": "P"}
COORD = {"x", "y", "z"}
NODE_ROLES = ("Node",)
PATH_ROLES = ("Path", "Branch", "Compartment")


class Geo:
    """Evaluator for one def with on-demand summaries of repo callees."""

    def __init__(self, ctx, declared: dict, max_depth: int = 5):
        self.ctx = ctx
        self.repo = ctx.repo
        self.declared = declared  # qualname -> return type for observables (assume/guarantee)
        self.memo: dict = {}
        self.max_depth = max_depth
        self.notes: list = []  # (def, node, Bad type) met while evaluating
        self.fields: dict = {}  # class qualname -> {"self.attr": type} (from the constructor)

    # ---- roles from annotations
    def role_of_annotation(self, ann: Optional[ast.AST]):
        if ann is None:
            return TOP
        s = norm_src(ann).replace('"', "").replace("'", "")
        if s in ("float", "np.float32", "np.float64"):
            return TOP
        if s in ("int", "bool"):
            return N
        if s.endswith("Tree.Node") or s == "Node" or s.endswith(".Node"):
            return Obj("Node")
        if s in ("Tree", "T", "SWCLike", "DictSWC") or s.endswith("| str") and s.startswith("Tree"):
            return Obj("Tree")
        if s in ("Branch", "Tree.Branch", "Path", "Tree.Path", "Compartment", "Tree.Compartment", "Segment"):
            return Obj("Path")
        if s.startswith("list[") and ("Branch" in s or s == "list[T]"):
            return Seq(Obj("Path"))
        if s == "VolSphere":
            return Obj("Sphere")
        if s == "VolFrustumCone":
            return Obj("Cone")
        if s.startswith("list[VolSphere"):
            return Seq(Obj("Sphere"))
        return TOP

    # ---- def evaluation
    def summary(self, d: Def, args: tuple, self_t=None, depth=0):
        key = (d.qualname, args, self_t)
        if key in self.memo:
            return self.memo[key]
        if depth > self.max_depth:
            return TOP
        self.memo[key] = TOP  # recursion guard
        env = {}
        params = list(d.params)
        if params and params[0] in ("self", "cls") and not d.is_staticmethod():
            env[params[0]] = self_t if self_t is not None else TOP
            params = params[1:]
        for p, a in zip(params, args):
            env[p] = a
        for p in params[len(args):]:
            env[p] = self.role_of_annotation(d.param_annotation(p))
            if env[p] == TOP:
                env[p] = L  # defaulted numeric parameter (eps, percentile, ...)
        fr = Frame(self, d, env, depth)
        out = fr.run()
        self.memo[key] = out
        return out


class Frame:
    def __init__(self, geo: Geo, d: Def, env: dict, depth: int = 0):
        self.g = geo
        self.d = d
        self.env = env
        self.depth = depth
        self.ret = None
        self.bads: list = []

    def note(self, node, t):
        if kind(t) == "Bad":
            self.bads.append((node, t))
            self.g.notes.append((self.d, node, t))
        return t

    def run(self):
        self.block(self.d.node.body if not isinstance(self.d.node, ast.Lambda) else [ast.Return(value=self.d.node.body)])
        return self.ret if self.ret is not None else ("None",)

    # ---- statements
    def block(self, body):
        for s in body:
            self.stmt(s)

    def bind(self, target, t):
        if isinstance(target, ast.Name):
            self.env[target.id] = t
        elif isinstance(target, (ast.Tuple, ast.List)):
            if kind(t) == "Tup" and len(t[1]) == len(target.elts):
                for x, y in zip(target.elts, t[1]):
                    self.bind(x, y)
            else:
                e = elem(t) if kind(t) == "Seq" else TOP
                for x in target.elts:
                    self.bind(x, e)
        elif isinstance(target, ast.Attribute) and dotted(target.value) == "self":
            self.env["self." + target.attr] = t

    def stmt(self, s):
        if isinstance(s, ast.Assign):
            t = self.ev(s.value)
            for tg in s.targets:
                self.bind(tg, t)
        elif isinstance(s, ast.AnnAssign):
            if s.value is not None:
                self.bind(s.target, self.ev(s.value))
        elif isinstance(s, ast.AugAssign):
            cur = self.ev(s.target)
            v = self.ev(s.value)
            t = self.binop(s.op, cur, v, s)
            self.bind(s.target, t)
        elif isinstance(s, ast.Return):
            t = self.ev(s.value) if s.value is not None else ("None",)
            self.ret = t if self.ret is None else join(self.ret, t)
        elif isinstance(s, ast.If):
            self.ev_cond(s.test)
            before = dict(self.env)
            self.block(s.body)
            a = self.env
            self.env = dict(before)
            self.block(s.orelse)
            b = self.env
            self.env = {k: (a[k] if k in a and k in b and a[k] == b[k] else join(a.get(k), b.get(k)))
                        for k in set(a) | set(b)}
        elif isinstance(s, (ast.For,)):
            it = self.ev(s.iter)
            self.bind(s.target, elem(it) if kind(it) == "Seq" else (N if kind(it) == "N" else TOP))
            for _ in range(2):
                self.block(s.body)
        elif isinstance(s, ast.While):
            self.ev_cond(s.test)
            for _ in range(2):
                self.block(s.body)
                self.ev_cond(s.test)
        elif isinstance(s, ast.Expr):
            self.ev(s.value)
        elif isinstance(s, ast.Assert):
            self.ev_cond(s.test)
        elif isinstance(s, (ast.With,)):
            self.block(s.body)
        elif isinstance(s, ast.Try):
            self.block(s.body)
            for h in s.handlers:
                self.block(h.body)
            self.block(s.orelse)
            self.block(s.finalbody)
        elif isinstance(s, ast.Match):
            for c in s.cases:
                self.block(c.body)
        # defs, raise, pass, nonlocal, ...: nothing

    def ev_cond(self, e):
        if isinstance(e, ast.BoolOp):
            for v in e.values:
                self.ev_cond(v)
        elif isinstance(e, ast.UnaryOp) and isinstance(e.op, ast.Not):
            self.ev_cond(e.operand)
        else:
            self.ev(e)

    # ---- expressions
    def binop(self, op, a, b, node):
        if isinstance(op, ast.Add):
            t = add(a, b)
        elif isinstance(op, ast.Sub):
            t = add(a, b, sub=True)
        elif isinstance(op, (ast.Mult, ast.MatMult)):
            t = mul(a, b) if isinstance(op, ast.Mult) else self.dot(a, b)
        elif isinstance(op, (ast.Div, ast.FloorDiv)):
            t = div(a, b)
        elif isinstance(op, ast.Pow):
            t = TOP
        elif isinstance(op, ast.Mod):
            t = a
        else:
            t = TOP
        return self.note(node, t)

    def dot(self, a, b):
        a, b = elem(a), elem(b)
        if kind(a) == "V" and kind(b) == "V":
            return S(a[1] + b[1])
        if kind(a) == "S" and kind(b) == "S":
            return S(a[1] + b[1])
        if "P" in (kind(a), kind(b)):
            return Bad("dot product with an absolute position")
        if kind(a) == "Bad":
            return a
        if kind(b) == "Bad":
            return b
        return TOP

    def ev(self, e) -> tuple:
        t = self._ev(e)
        return self.note(e, t)

    def _ev(self, e):
        if e is None:
            return ("None",)
        if isinstance(e, ast.Constant):
            if isinstance(e.value, bool):
                return N
            if isinstance(e.value, (int, float)):
                return L
            return ("Const",)
        if isinstance(e, ast.Name):
            if e.id in self.env:
                return self.env[e.id]
            if e.id in ("eps", "EPS"):
                return L
            if e.id in self.d.nested:
                return ("Closure", self.d.nested[e.id])
            # enclosing scope (closures)
            return self.env.get("^" + e.id, TOP)
        if isinstance(e, ast.NamedExpr):
            t = self.ev(e.value)
            self.bind(e.target, t)
            return t
        if isinstance(e, ast.UnaryOp):
            t = self.ev(e.operand)
            return N if isinstance(e.op, ast.Not) else t
        if isinstance(e, ast.BinOp):
            if isinstance(e.op, ast.Pow):
                a = self.ev(e.left)
                n = None
                if isinstance(e.right, ast.Constant) and isinstance(e.right.value, (int, float)):
                    n = F(str(e.right.value))
                else:
                    self.ev(e.right)
                return power(a, n)
            return self.binop(e.op, self.ev(e.left), self.ev(e.right), e)
        if isinstance(e, ast.BoolOp):
            ts = [self.ev(v) for v in e.values]
            out = ts[0]
            for t in ts[1:]:
                out = join(out, t)
            return out
        if isinstance(e, ast.Compare):
            left = self.ev(e.left)
            out = N
            for c in e.comparators:
                r = self.ev(c)
                if any(isinstance(o, (ast.In, ast.NotIn, ast.Is, ast.IsNot)) for o in e.ops):
                    left = r
                    continue
                t = compare(left, r)
                if kind(t) == "Bad":
                    out = t
                left = r
            return out
        if isinstance(e, ast.IfExp):
            self.ev_cond(e.test)
            return join(self.ev(e.body), self.ev(e.orelse))
        if isinstance(e, (ast.Tuple,)):
            return Tup([self.ev(x) for x in e.elts])
        if isinstance(e, ast.List):
            if not e.elts:
                return Seq(None)
            ts = [self.ev(x) for x in e.elts]
            out = ts[0]
            for t in ts[1:]:
                out = join(out, t)
            return Seq(out)
        if isinstance(e, (ast.ListComp, ast.GeneratorExp, ast.SetComp)):
            saved = dict(self.env)
            for g in e.generators:
                it = self.ev(g.iter)
                self.bind(g.target, self.iter_elem(it, g.iter))
                for c in g.ifs:
                    self.ev_cond(c)
            t = self.ev(e.elt)
            self.env = saved
            return Seq(t)
        if isinstance(e, ast.Subscript):
            return self.subscript(e)
        if isinstance(e, ast.Attribute):
            return self.attribute(e)
        if isinstance(e, ast.Call):
            return self.call(e)
        if isinstance(e, ast.Lambda):
            return ("Lambda", e)
        if isinstance(e, ast.Starred):
            return self.ev(e.value)
        if isinstance(e, ast.JoinedStr):
            return ("Const",)
        return TOP

    def iter_elem(self, it, node):
        if kind(it) == "Seq":
            return it[1] if it[1] is not None else TOP
        if kind(it) == "Obj" and it[1] == "Tree":
            return Obj("Node", it[2])
        if kind(it) == "Obj" and it[1] in PATH_ROLES:
            return Obj("Node", it[2])
        if kind(it) in ("N",):
            return N
        if kind(it) == "Tup":
            out = None
            for t in it[1]:
                out = join(out, t)
            return out
        if kind(it) in ("S", "V", "P", "C", "E"):
            return it if kind(it) in ("S", "C") else (Cc(it[1]) if False else it)
        return TOP

    def subscript(self, e):
        base = self.ev(e.value)
        idx = e.slice
        self.ev(idx) if not isinstance(idx, (ast.Slice, ast.Tuple)) else None
        kb = kind(base)
        if kb == "Obj":
            if base[1] in PATH_ROLES and not isinstance(idx, ast.Slice):
                return Obj("Node", base[2])
            if base[1] == "Tree":
                return Obj("Node", base[2]) if not isinstance(idx, ast.Slice) else Seq(Obj("Node", base[2]))
            return TOP
        if kb == "Tup":
            if isinstance(idx, ast.Constant) and isinstance(idx.value, int) and -len(base[1]) <= idx.value < len(base[1]):
                return base[1][idx.value]
            out = None
            for t in base[1]:
                out = join(out, t)
            return out
        if kb == "Seq":
            if isinstance(idx, ast.Slice):
                return base
            if isinstance(idx, ast.Tuple):
                return base[1] if base[1] is not None else TOP
            return base[1] if base[1] is not None else TOP
        if kb == "Rec":  # xyzr record
            s = norm_src(idx)
            if s in (":, :3", "..., :3", ":, 0:3"):
                return base[1]
            if s in (":, 3", "..., 3", ":, -1"):
                return S(1)
            if s in (":, 3:", ":, -1:"):
                return S(1)
            if isinstance(idx, ast.Slice):
                return base
            return TOP
        if kb in ("P", "V"):
            # selecting rows keeps the kind; selecting a coordinate column gives a component
            if isinstance(idx, ast.Tuple):
                last = idx.elts[-1]
                if isinstance(last, ast.Constant) and isinstance(last.value, int) and len(idx.elts) >= 2:
                    return Cc(base[1])
                if isinstance(last, ast.Slice) and (last.lower is not None or last.upper is not None) and len(idx.elts) >= 2:
                    return Cc(base[1])
                return base
            return base
        if kb in ("S", "C", "E", "N", "L", "Bad"):
            return base
        return TOP

    def attribute(self, e):
        dn = dotted(e)
        if dn and dn in self.env:
            return self.env[dn]
        if dn in ("np.pi", "math.pi", "np.inf", "np.nan", "np.e"):
            return L
        a = e.attr
        if isinstance(e.value, ast.Name) and e.value.id in ("self", "cls") and self.d.cls is not None \
                and self.d.params and self.d.params[0] == e.value.id:
            self_t = self.env.get(e.value.id, TOP)
            if kind(self_t) != "Obj" or self_t[1] in ("Feat", "Sholl", "LM"):
                m = self.d.cls.lookup_method(a)
                if m is not None and m.is_property():
                    if m.qualname in self.g.declared:
                        return self.g.declared[m.qualname]
                    return self.g.summary(m, (), self_t, self.depth + 1)
                if ("self." + a) in self.g.fields.get(self.d.cls.qualname, {}):
                    return self.g.fields[self.d.cls.qualname]["self." + a]
                ann = self.d.cls.lookup_annotation(a)
                if ann is not None:
                    t = self.g.role_of_annotation(ann[1])
                    if t != TOP:
                        return t
        base = self.ev(e.value)
        kb = kind(base)
        if kb == "Obj":
            role, cen = base[1], base[2]
            if a in COORD and role == "Node":
                return Cc(1)
            if a in SCALAR_ATTR:
                return SCALAR_ATTR[a]
            if a in POINT_ATTR and role in ("Sphere", "Cone"):
                return P()
            if a == "attach":
                return Obj("Tree", cen)
            if a in ("id", "pid", "type", "idx"):
                return N
            if a == "T":
                return base
            return TOP
        if a == "T":
            return base
        if a in ("shape", "size", "ndim"):
            return N
        if dn and dn.startswith("self.") and ("self." + a) in self.env:
            return self.env["self." + a]
        return TOP

    # ---- calls
    def call(self, c: ast.Call):
        f = c.func
        fn = dotted(f) or ""
        args = [self.ev(a) for a in c.args]
        kw = {k.arg: self.ev(k.value) for k in c.keywords if k.arg}
        last = fn.rsplit(".", 1)[-1] if fn else (f.attr if isinstance(f, ast.Attribute) else "")
        # numpy / math / builtins ------------------------------------------------
        if fn in ("np.linalg.norm", "numpy.linalg.norm"):
            return norm(args[0]) if args else TOP
        if fn in ("np.dot", "np.matmul", "np.inner", "np.vdot"):
            return self.dot(args[0], args[1]) if len(args) >= 2 else TOP
        if fn == "np.cross" and len(args) >= 2:
            a, b = elem(args[0]), elem(args[1])
            if kind(a) == "V" and kind(b) == "V":
                return V(a[1] + b[1])
            if "P" in (kind(a), kind(b)):
                return Bad("cross product with an absolute position")
            return TOP
        if fn in ("np.allclose", "np.isclose", "numpy.allclose", "numpy.isclose", "math.isclose") and len(args) >= 2:
            a, b = elem(args[0]), elem(args[1])
            rt = next((k.value for k in c.keywords if k.arg in ("rtol", "rel_tol")), None)
            rel = not (isinstance(rt, ast.Constant) and rt.value == 0) and not (rt is None and fn == "math.isclose" and False)
            if rel and "P" in (kind(a), kind(b)):
                self.note(c, Bad("absolute positions are compared with a relative tolerance (default rtol): the tolerance grows with the distance "
                                 "from the coordinate origin, so the outcome changes when the neuron is translated"))
                return N
            return compare(a, b)
        if fn in ("np.sqrt", "math.sqrt") and args:
            return power(args[0], F(1, 2))
        if fn in ("np.arccos", "np.arcsin", "np.arctan", "math.acos", "math.asin", "np.cos", "np.sin", "np.tan",
                  "math.cos", "math.sin", "np.degrees", "np.radians", "math.degrees", "math.radians", "np.rad2deg", "np.deg2rad",
                  "np.exp", "np.log", "math.exp", "math.log"):
            a = elem(args[0]) if args else TOP
            if kind(a) == "S" and a[1] != 0:
                return Bad(f"{last} of a quantity of degree {a[1]} (not dimensionless)")
            if kind(a) in ("P", "V", "C", "E"):
                return Bad(f"{last} of a pose-dependent quantity ({show(a)})")
            return S(0) if kind(a) in ("S", "L", "N") else a
        if fn in ("np.sum", "sum", "np.nansum", "math.fsum") and args:
            if "axis" in kw or len(args) > 1:
                return reduce_sum(args[0])
            t = args[0]
            return reduce_sum(t)
        if fn in ("np.mean", "np.average", "np.median", "np.max", "np.min", "max", "min", "np.amax", "np.amin", "abs", "np.abs",
                  "np.clip", "float", "np.float32", "np.float64", "np.array", "np.asarray", "np.sort", "np.squeeze", "np.concatenate",
                  "np.stack", "np.cumsum", "np.maximum", "np.minimum", "np.diff", "np.ptp", "np.nanmax", "np.nanmin", "np.round", "round",
                  "np.ravel", "np.unique", "np.percentile", "list", "tuple", "reversed", "sorted", "np.flip", "np.atleast_1d", "np.ceil", "np.floor"):
            if not args:
                return TOP
            if fn in ("max", "min", "np.maximum", "np.minimum", "np.clip") and len(args) >= 2 and "key" not in kw:
                # a length / area / volume clamped by a numeric literal: the result no longer scales with the neuron
                for t_, a_ in zip(args, c.args):
                    lit = a_.operand if isinstance(a_, ast.UnaryOp) else a_
                    if isinstance(lit, ast.Constant) and isinstance(lit.value, (int, float)) and not isinstance(lit.value, bool) and lit.value != 0:
                        others = [elem(x) if kind(x) == "Seq" else x for x, y in zip(args, c.args) if y is not a_]
                        dim = [x for x in others if kind(x) in ("S", "E") and x[1] != 0]
                        if dim:
                            self.note(c, Bad(f"a quantity of degree {dim[0][1]} is clamped by the literal {ast.unparse(a_)} in `{ast.unparse(c)[:60]}`: the result does not scale "
                                             f"with the neuron (the same neuron in other units or at another size gives a different answer)"))
                out = args[0]
                for t in args[1:]:
                    out = join(elem(out) if kind(out) == "Seq" else out, elem(t) if kind(t) == "Seq" else t)
                return out
            t = args[0]
            if fn in ("max", "min", "np.max", "np.min", "np.amax", "np.amin", "np.mean", "np.median", "np.average", "np.ptp", "np.percentile",
                      "np.nanmax", "np.nanmin"):
                t = elem(t) if kind(t) == "Seq" else t
                if kind(t) == "Tup":
                    return t
                if kind(t) in ("P", "V") and "axis" not in kw:
                    return Cc(t[1])
                return t
            if fn in ("np.array", "np.asarray", "list", "tuple", "np.concatenate", "np.stack", "sorted", "np.sort") and kind(t) == "Seq":
                inner = t[1]
                if inner is not None and kind(inner) in ("P", "V", "S", "C", "E", "N", "L", "Bad"):
                    return inner
                if inner is not None and kind(inner) == "Seq":
                    return inner[1] if inner[1] is not None else TOP
                return t
            if fn == "np.diff":
                t = elem(t)
                return V(1) if kind(t) == "P" else t
            return t
        if fn in ("len", "np.count_nonzero", "int", "np.argmax", "np.argmin", "np.nonzero", "np.where", "np.arange", "range", "np.isclose",
                  "np.allclose", "np.logical_and", "np.logical_or", "np.logical_not", "isinstance", "callable", "np.any", "np.all", "bool",
                  "np.int32", "np.argsort", "enumerate", "np.flatnonzero", "np.setdiff1d", "np.isin"):
            if fn == "np.arange" and args:
                out = None
                for t in args:
                    out = join(out, t)
                return out
            if fn in ("np.isclose", "np.allclose") and len(args) >= 2:
                t = compare(args[0], args[1])
                return t if kind(t) == "Bad" else N
            if fn == "enumerate" and args:
                return Seq(Tup([N, self.iter_elem(args[0], None)]))
            return N
        if fn in ("np.zeros", "np.ones", "np.zeros_like", "np.ones_like", "np.empty", "np.full", "np.linspace", "np.identity", "np.eye"):
            if fn == "np.linspace" and len(args) >= 2:
                return join(args[0], args[1])
            return L
        if fn == "zip":
            return Seq(Tup([self.iter_elem(a, None) for a in args]))
        if fn == "np.linalg.multi_dot":
            return TOP
        # methods on typed receivers ------------------------------------------------
        if isinstance(f, ast.Attribute):
            recv = self.ev(f.value)
            m = f.attr
            kr = kind(recv)
            if kr == "Obj":
                t = self.method(recv, m, args, kw, c)
                if t is not None:
                    return t
            if kr in ("P", "V", "S", "C", "E", "L", "N", "Bad", "Seq", "Rec"):
                if m in ("item", "copy", "astype", "flatten", "ravel", "squeeze", "tolist", "reshape", "transpose", "clip", "round"):
                    return recv
                if m in ("max", "min", "mean", "std", "ptp"):
                    t = elem(recv) if kr == "Seq" else recv
                    if kind(t) in ("P", "V") and not (args or kw):
                        return Cc(t[1])
                    return t
                if m == "sum":
                    return reduce_sum(recv)
                if m == "dot" and args:
                    return self.dot(recv, args[0])
                if m in ("append", "extend", "insert"):
                    if isinstance(f.value, ast.Name) and kr == "Seq" and args:
                        new = Seq(join(recv[1], args[0] if m != "extend" else elem(args[0])))
                        self.env[f.value.id] = new
                    return ("None",)
                if m in ("pop",):
                    return elem(recv)
                if m in ("argmax", "argmin", "argsort", "nonzero", "any", "all", "count", "index"):
                    return N
        # repo callee ---------------------------------------------------------------
        t = self.repo_call(c, args, kw)
        if t is not None:
            return t
        return TOP

    def method(self, recv, m, args, kw, c):
        role, cen = recv[1], recv[2]
        pos = V(1) if cen else P()
        if m == "xyz":
            return pos
        if m == "xyzr":
            return ("Rec", pos)
        if m == "xyzw":
            return TOP
        if m in ("x", "y", "z"):
            return Cc(1)
        if m == "r":
            return S(1)
        if m in ("id", "pid", "type", "number_of_nodes", "number_of_edges", "origin_id", "origin_pid", "is_furcation", "is_tip",
                 "is_soma", "is_root", "keys", "get_tips", "get_furcations", "get_bifurcations"):
            return N if m not in ("get_tips", "get_furcations", "get_bifurcations", "keys") else Seq(N)
        if m in ("soma", "node", "parent"):
            return Obj("Node", cen)
        if m == "children":
            return Seq(Obj("Node", cen))
        if m in ("branch", "path"):
            return Obj("Path", cen)
        if m in ("get_branches", "get_paths", "get_compartments"):
            return Seq(Obj("Path", cen)) if m != "get_compartments" or role != "Tree" else Obj("Segs", cen)
        if m in ("get_segments",):
            return Obj("Segs", cen) if role == "Tree" else Seq(Obj("Path", cen))
        if m in ("subtree", "copy", "detach"):
            return Obj("Tree" if m == "subtree" else role, cen)
        if m == "traverse":
            return self.traverse_callbacks(recv, kw)
        if m in ("length", "distance", "straight_line_distance", "height"):
            return S(1)
        if m in ("tortuosity",):
            return S(0)
        if m in ("get_volume", "get_volume_spherical_cap"):
            return S(3)
        if m in ("intersect", "union", "subtract"):
            return Obj("Vol", False)
        return None

    def traverse_callbacks(self, recv, kw):
        """tree.traverse(enter=f, leave=g) with f, g nested defs: evaluate them as closures
        (node parameter = node of the receiver; nonlocal writes flow back)."""
        out = TOP
        for role in ("enter", "leave"):
            v = kw.get(role)
            if not (isinstance(v, tuple) and v and v[0] == "Closure"):
                continue
            nd = v[1]
            params = nd.params
            ret = None
            for _ in range(2):
                env = {"^" + k: t for k, t in self.env.items()}
                env.update({k: t for k, t in self.env.items()})
                if params:
                    env[params[0]] = Obj("Node", recv[2])
                if len(params) > 1:
                    env[params[1]] = Seq(ret) if role == "leave" else (ret if ret is not None else ("None",))
                fr = Frame(self.g, nd, env, self.depth + 1)
                ret = fr.run()
                if _ == 1:
                    self.bads += fr.bads
                last = fr
            nl = {n for st in ast.walk(nd.node) if isinstance(st, ast.Nonlocal) for n in st.names}
            for n in nl:  # writes of the last (stabilised) evaluation flow back to the enclosing def
                if n in last.env:
                    self.env[n] = join(self.env.get(n), last.env[n])
            out = ret if ret is not None else TOP
        return out

    def repo_call(self, c: ast.Call, args, kw):
        g = self.g
        targets = []
        try:
            targets = g.ctx.cg.resolve_callable(c.func, self.d)
        except Exception:  # noqa: BLE001
            targets = []
        defs = [t[0] for t in targets if t[0] is not None and t[1] == "strong"]
        if not defs:
            return None
        callee = defs[0]
        fn = dotted(c.func) or ""
        if callee.qualname.endswith("TranslateOrigin.transform") or fn.endswith("TranslateOrigin.transform"):
            return Obj("Tree", True)
        if callee.name == "__init__" and callee.cls is not None:
            nm = callee.cls.name
            if nm == "VolSphere":
                if args and kind(elem(args[0])) not in ("P", "V", "Top"):
                    return Bad(f"sphere centre is {show(args[0])}")
                if len(args) > 1 and kind(args[1]) == "S" and args[1][1] != 1:
                    return Bad(f"sphere radius has degree {args[1][1]}")
                return Obj("Sphere", False)
            if nm == "VolFrustumCone":
                return Obj("Cone", False)
            if nm in ("Sholl",):
                return Obj("Sholl", False)
            if nm in ("Tree",):
                return Obj("Tree", False)
            return TOP
        if callee.qualname in g.declared:
            # a declared closed form: its scalar parameters are lengths -- an argument of another degree is a definite misuse
            ps = [p for p in callee.params if p not in ("self", "cls")] if not callee.is_staticmethod() else list(callee.params)
            for i, p in enumerate(ps):
                t = args[i] if i < len(args) else kw.get(p)
                want = getattr(g, "arg_types", {}).get(p)
                if t is None or want is None:
                    continue
                t = elem(t)
                if kind(t) == "S" and kind(want) == "S" and t[1] != want[1]:
                    self.note(c, Bad(f"argument `{p}` of {callee.name} is a quantity of degree {t[1]} where degree {want[1]} (a length) is expected"))
                elif kind(t) in ("P", "V", "C", "E"):
                    self.note(c, Bad(f"argument `{p}` of {callee.name} is pose dependent ({show(t)}) where a length is expected"))
            return g.declared[callee.qualname]
        self_t = None
        if isinstance(c.func, ast.Attribute):
            self_t = self.ev(c.func.value)
            if kind(self_t) in ("Lambda",):
                self_t = None
        a = list(args)
        # keyword arguments by name
        params = [p for p in callee.params if p not in ("self", "cls")]
        full = []
        for i, p in enumerate(params):
            if i < len(a):
                full.append(a[i])
            elif p in kw:
                full.append(kw[p])
            else:
                break
        return g.summary(callee, tuple(full), self_t if (callee.params and callee.params[0] in ("self", "cls")) else None, self.depth + 1)
