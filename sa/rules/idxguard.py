"""No valid node index is refused.

For every `raise IndexError` in the tree classes the conditions under which it is reached (pathcond) are folded exactly for a tree of n nodes (n = 1, 2, 5) and
every index 0..n-1 (and -n..-1 where the function normalises negative indices before the test): if the raise is reached for such an index, a node of the tree
cannot be addressed -- typically the last one, when the bound is the number of edges (n - 1) or `len - 1` with a strict comparison.
The folder knows: integer literals, + - on them, comparisons and chains, and / or / not, `len(self)`, `self.number_of_nodes()` -> n, `self.number_of_edges()` -> n - 1,
`length` / `n` style locals bound to those, and one free integer name (the index; `kwargs.get("root", 0)` style locals included).  Anything else: not decided, not reported.
"""
from __future__ import annotations

import ast

from .. import pathcond
from ..model import dotted, norm_src


class _No(Exception):
    pass


def _ev(e, env):
    if isinstance(e, ast.Constant) and isinstance(e.value, (int, bool)):
        return e.value
    if isinstance(e, ast.Name):
        if e.id in env:
            return env[e.id]
        raise _No(e.id)
    if isinstance(e, ast.UnaryOp):
        v = _ev(e.operand, env)
        if isinstance(e.op, ast.USub):
            return -v
        if isinstance(e.op, ast.Not):
            return not v
        raise _No("unary")
    if isinstance(e, ast.BinOp) and isinstance(e.op, (ast.Add, ast.Sub)):
        a, b = _ev(e.left, env), _ev(e.right, env)
        return a + b if isinstance(e.op, ast.Add) else a - b
    if isinstance(e, ast.BoolOp):
        vals = [_ev(v, env) for v in e.values]
        return all(vals) if isinstance(e.op, ast.And) else any(vals)
    if isinstance(e, ast.Compare):
        left = _ev(e.left, env)
        for op, c in zip(e.ops, e.comparators):
            right = _ev(c, env)
            f = {ast.Lt: left < right, ast.LtE: left <= right, ast.Gt: left > right, ast.GtE: left >= right, ast.Eq: left == right, ast.NotEq: left != right}.get(type(op))
            if f is None:
                raise _No("cmp")
            if not f:
                return False
            left = right
        return True
    if isinstance(e, ast.Call):
        fn = dotted(e.func) or ""
        if fn == "len" and len(e.args) == 1 and norm_src(e.args[0]) in ("self", "self.id()", "self.pid()", "self.ndata[self.names.id]"):
            return env["__n__"]
        if fn in ("self.number_of_nodes",) and not e.args:
            return env["__n__"]
        if fn in ("self.number_of_edges",) and not e.args:
            return env["__n__"] - 1
        if fn in ("int", "operator.index") and len(e.args) == 1:
            return _ev(e.args[0], env)
    raise _No(type(e).__name__)


def find(fn) -> list:
    if isinstance(fn, ast.Lambda):
        return []
    out = []
    raises = [s for s in ast.walk(fn) if isinstance(s, ast.Raise) and s.exc is not None and "IndexError" in norm_src(s.exc)[:30]]
    for r in raises:
        tests, _complete = pathcond.conditions_at(fn, r)
        tests = [(t, pol) for t, pol in tests if not any(isinstance(n, ast.Call) and (dotted(n.func) or "") == "isinstance" for n in ast.walk(t))]
        if not tests:
            continue
        # locals bound to the node count, and the index name
        sizes = {}
        for st in ast.walk(fn):
            if isinstance(st, ast.Assign) and len(st.targets) == 1 and isinstance(st.targets[0], ast.Name):
                try:
                    _ev(st.value, {"__n__": 7})
                    sizes[st.targets[0].id] = st.value
                except _No:
                    pass
        free = set()
        for t, _p in tests:
            for n in ast.walk(t):
                if isinstance(n, ast.Name) and n.id not in sizes and n.id != "self" and n.id != "len" and n.id != "int":
                    free.add(n.id)
        if len(free) != 1:
            continue
        idx = free.pop()
        # does the function add the length to a negative index before the test?  then -n..-1 are valid, too
        normalises = any(isinstance(s, ast.AugAssign) and isinstance(s.target, ast.Name) and s.target.id == idx and isinstance(s.op, ast.Add) and s.lineno < r.lineno for s in ast.walk(fn))
        refused = None
        try:
            for n in (1, 2, 5):
                env0 = {"__n__": n}
                for k, v in sizes.items():
                    env0[k] = _ev(v, env0)
                for i in range(n):
                    env = dict(env0)
                    env[idx] = i
                    if all(bool(_ev(t, env)) == pol for t, pol in tests):
                        refused = (n, i)
                        break
                if refused:
                    break
        except _No:
            continue
        out.append((r, idx, refused, normalises, [norm_src(t) if pol else f"not ({norm_src(t)})" for t, pol in tests]))
    return out


RULE_TEXT = ("no valid node index is refused: the conditions guarding every `raise IndexError` of the tree classes, folded exactly for trees of 1, 2 and 5 nodes, are false for every "
             "index 0..n-1 (bound = number of nodes, not number of edges / len - 1)")


def run(ctx, col, modules, rule="R-IDXGUARD", floor=1):
    import os
    from ..model import Repo
    col.rule(rule, RULE_TEXT, floor=floor)
    n = 0
    for d in ctx.repo.all_defs():
        if d.module.name not in modules or d.is_lambda:
            continue
        for r, idx, refused, _norm, conds in find(d.node):
            n += 1
            col.check(refused is None, rule, d.qualname, d.loc(r), f"`{idx}` in 0..n-1 never reaches the IndexError", " and ".join(conds)[:120],
                      f"with {refused[0] if refused else '?'} node(s), `{idx}` = {refused[1] if refused else '?'} satisfies `{' and '.join(conds)[:120]}` and is refused with IndexError: "
                      f"the last node of every tree (a single-node tree: its only node) cannot be used", stmt=f"idxguard:{idx}", definite=True)
    here = os.path.dirname(os.path.dirname(os.path.abspath(__file__)))
    fx = Repo(here, pkg="fixtures")
    found = {d.name: [x[2] for x in find(d.node)] for d in fx.all_defs() if d.module.name.endswith("idxguard_positive") and not d.is_lambda}
    ok = found.get("start_bounded_by_edges") == [(1, 0)] and found.get("start_bounded_by_nodes") == [None] and found.get("getitem_normalised") == [None]
    col.check(ok, rule, "sa.fixtures.idxguard_positive", "sa/fixtures/idxguard_positive.py:1", f"folder recognises its kept examples ({n} guard(s) folded)", str(found), f"fixture results {found}", stmt="fixture")
    return n
