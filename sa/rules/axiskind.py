"""Axis kinds: a quantity that belongs to one coordinate axis is never combined with another axis.

Abstract values: X / Y / Z (a length along that axis: a component of a position, of the voxel size, of a bounding-box corner),
VEC (a per-axis triple: positions, voxel sizes, corners), NUM (a pure number: literals, counts, ratios of same-axis lengths),
TOP (unknown).  Transfer: v[k] of a VEC is axis k; unpacking a VEC (or `_tp3f(VEC)`) gives X, Y, Z; NUM leaves the kind of the other
operand; same-axis operands keep the axis; the ratio of two same-axis lengths is a NUM.  Definite mistakes:
  * X (+|-|compare) Z        -- lengths of two different axes are added / compared         (`z = zmin + i * dx`)
  * VEC (+|-) X              -- one axis' length is added to all three axes               (`coord_min + 0.5 * stride[0]`)
  * X / Z                    -- a count along one axis computed with another axis' step
  * a position tuple (a, b, c) whose k-th component has the kind of another axis
Anisotropic voxels are the normal case (resolution is per axis), so each of these changes the result.
Anything the table does not know is TOP and silences the operation it takes part in.
"""
from __future__ import annotations

import ast

from ..model import dotted, norm_src

AXES = ("X", "Y", "Z")
VEC, NUM, TOP = "VEC", "NUM", "TOP"
KEEP_CALLS = {"float", "int", "abs", "ceil", "floor", "round", "rint", "trunc", "item", "astype", "asarray", "array", "float32", "float64", "copy", "fabs", "absolute", "around"}


class AxisKinds:
    def __init__(self, fn, sources: dict, self_attrs: dict = None, tuple_calls=("_tp3f", "tuple", "list")):
        self.fn = fn
        self.env = dict(sources)
        self.self_attrs = dict(self_attrs or {})
        self.tuple_calls = tuple_calls
        self.findings = []  # (node, message)
        self._seen = set()

    def report(self, node, msg):
        k = (getattr(node, "lineno", 0), getattr(node, "col_offset", 0), msg[:40])
        if k not in self._seen:
            self._seen.add(k)
            self.findings.append((node, msg))

    # ---------------------------------------------------------------- expressions
    def kind(self, e):
        if e is None:
            return TOP
        if isinstance(e, ast.Constant):
            return NUM if isinstance(e.value, (int, float)) and not isinstance(e.value, bool) else TOP
        if isinstance(e, ast.Name):
            return self.env.get(e.id, TOP)
        if isinstance(e, ast.Attribute):
            if isinstance(e.value, ast.Name) and e.value.id == "self" and e.attr in self.self_attrs:
                return self.self_attrs[e.attr]
            if e.attr == "T":
                return self.kind(e.value)
            return TOP
        if isinstance(e, ast.Tuple) or isinstance(e, ast.List):
            ks = [self.kind(x) for x in e.elts]
            if len(ks) == 3:
                for i, k in enumerate(ks):
                    if k in AXES and k != AXES[i]:
                        self.report(e, f"component {i} ({AXES[i]}) of the triple `{norm_src(e)[:60]}` is `{norm_src(e.elts[i])}`, a length along {k}")
                if all(k in AXES or k == NUM for k in ks) and any(k in AXES for k in ks):
                    return ("TRIPLE", tuple(ks))
            return TOP
        if isinstance(e, ast.UnaryOp):
            return self.kind(e.operand)
        if isinstance(e, ast.Subscript):
            base = self.kind(e.value)
            if base == VEC or (isinstance(base, tuple) and base[0] == "TRIPLE"):
                i = e.slice
                if isinstance(i, ast.UnaryOp) and isinstance(i.op, ast.USub) and isinstance(i.operand, ast.Constant):
                    idx = -i.operand.value
                elif isinstance(i, ast.Constant) and isinstance(i.value, int):
                    idx = i.value
                else:
                    return VEC if isinstance(i, ast.Slice) and i.lower is None and i.upper is None else TOP
                if -3 <= idx < 3:
                    return AXES[idx % 3]
            return TOP
        if isinstance(e, ast.BinOp):
            a, b = self.kind(e.left), self.kind(e.right)
            return self.combine(e, e.op, a, b)
        if isinstance(e, ast.BoolOp):
            ks = {self._flat(self.kind(v)) for v in e.values}
            ks.discard(TOP)
            return ks.pop() if len(ks) == 1 else TOP
        if isinstance(e, ast.IfExp):
            a, b = self._flat(self.kind(e.body)), self._flat(self.kind(e.orelse))
            self.kind(e.test)
            return a if a == b else TOP
        if isinstance(e, ast.Compare):
            left = self.kind(e.left)
            for c in e.comparators:
                right = self.kind(c)
                self.combine(e, ast.Sub(), left, right, what="compared with")
                left = right
            return NUM
        if isinstance(e, ast.Call):
            fn = dotted(e.func) or ""
            last = fn.rsplit(".", 1)[-1]
            args = [self.kind(a) for a in e.args]
            for k in e.keywords:
                self.kind(k.value)
            if isinstance(e.func, ast.Attribute) and not fn.startswith(("np.", "numpy.", "math.")) and last in KEEP_CALLS:
                return self.kind(e.func.value)
            if last in KEEP_CALLS and args:
                return args[0]
            if last in self.tuple_calls and args:
                return args[0]
            if last in ("min", "max", "minimum", "maximum") and len(args) == 2:
                return self.combine(e, ast.Sub(), args[0], args[1], what="compared with")
            if last == "range":
                return NUM
            return TOP
        return TOP

    @staticmethod
    def _flat(k):
        return VEC if isinstance(k, tuple) else k

    def combine(self, node, op, a, b, what=None):
        a, b = self._flat(a), self._flat(b)
        if TOP in (a, b):
            return TOP
        verb = what or {ast.Add: "added to", ast.Sub: "subtracted from", ast.Mult: "multiplied with", ast.Div: "divided by"}.get(type(op), "combined with")
        if a == NUM:
            return b
        if b == NUM:
            return a
        if isinstance(op, (ast.Mult,)):
            return TOP  # products of lengths (areas, volumes) are outside this table
        if a in AXES and b in AXES:
            if a != b:
                self.report(node, f"`{norm_src(node)[:70]}`: a length along {a} is {verb} a length along {b}")
                return TOP
            return NUM if isinstance(op, (ast.Div, ast.FloorDiv)) else a
        if (a == VEC and b in AXES) or (b == VEC and a in AXES):
            one = b if a == VEC else a
            self.report(node, f"`{norm_src(node)[:70]}`: a length along {one} only is {verb} all three axes of a per-axis triple")
            return TOP
        if a == VEC and b == VEC:
            return NUM if isinstance(op, (ast.Div, ast.FloorDiv)) and what is None and False else VEC
        return TOP

    # ---------------------------------------------------------------- statements
    def run(self):
        for _ in range(2):  # twice: what a loop body binds is seen by its head
            self.block(self.fn.body)
        return self.findings

    def block(self, body):
        for s in body:
            self.stmt(s)

    def bind(self, t, k):
        if isinstance(t, ast.Name):
            self.env[t.id] = self._flat(k) if not (isinstance(k, tuple)) else k
        elif isinstance(t, (ast.Tuple, ast.List)):
            kk = k
            if kk == VEC and len(t.elts) == 3:
                for x, ax in zip(t.elts, AXES):
                    self.bind(x, ax)
            elif isinstance(kk, tuple) and kk[0] == "TRIPLE" and len(t.elts) == 3:
                for x, ax in zip(t.elts, kk[1]):
                    self.bind(x, ax)
            else:
                for x in t.elts:
                    self.bind(x, TOP)

    def stmt(self, s):
        if isinstance(s, ast.Assign):
            if isinstance(s.value, ast.Tuple) and len(s.targets) == 1 and isinstance(s.targets[0], ast.Tuple) and len(s.value.elts) == len(s.targets[0].elts):
                for t, v in zip(s.targets[0].elts, s.value.elts):
                    self.bind(t, self.kind(v))
                return
            k = self.kind(s.value)
            for t in s.targets:
                self.bind(t, k)
        elif isinstance(s, ast.AnnAssign) and s.value is not None:
            self.bind(s.target, self.kind(s.value))
        elif isinstance(s, ast.AugAssign):
            cur = self.kind(s.target) if isinstance(s.target, ast.Name) else TOP
            k = self.combine(s, s.op, cur, self.kind(s.value))
            if isinstance(s.target, ast.Name) and cur != TOP and k == TOP and self._flat(cur) in AXES + (VEC,):
                pass  # keep the declared kind of the accumulator after a reported mix
            elif isinstance(s.target, ast.Name):
                self.env[s.target.id] = k
        elif isinstance(s, (ast.If, ast.While)):
            self.kind(s.test)
            self.block(s.body)
            self.block(s.orelse)
        elif isinstance(s, ast.For):
            it = self.kind(s.iter)
            self.bind(s.target, NUM if it == NUM else TOP)
            self.block(s.body)
            self.block(s.orelse)
        elif isinstance(s, ast.Expr):
            self.kind(s.value.value if isinstance(s.value, (ast.Yield, ast.YieldFrom, ast.Await)) and s.value.value is not None else s.value)
        elif isinstance(s, ast.Return):
            self.kind(s.value)
        elif isinstance(s, (ast.With, ast.Try)):
            for f in ("body", "orelse", "finalbody"):
                self.block(getattr(s, f, []) or [])
            for h in getattr(s, "handlers", []) or []:
                self.block(h.body)
        elif isinstance(s, ast.Assert):
            self.kind(s.test)


def check_function(col, rule, d, sources: dict, self_attrs: dict, what: str):
    ak = AxisKinds(d.node, sources, self_attrs)
    found = ak.run()
    for node, msg in found:
        col.bad(rule, d.qualname, d.loc(node), what, msg + ": with anisotropic voxels (the resolution is given per axis) the sampled positions / the slice count are wrong, "
                "for isotropic ones nothing shows", stmt=f"axis:{msg[:50]}", definite=True)
    if not found:
        col.ok(rule, d.qualname, d.loc(), what, f"{len(ak.env)} names typed, no mixing of axes", stmt="axis")
    return found


def fixture_ok() -> dict:
    import os
    from ..model import Repo
    here = os.path.dirname(os.path.dirname(os.path.abspath(__file__)))
    fx = Repo(here, pkg="fixtures")
    out = {}
    for d in fx.all_defs():
        if d.module.name.endswith("axiskind_positive") and not d.is_lambda and d.parent is None:
            ak = AxisKinds(d.node, {"coord_min": VEC, "coord_max": VEC, "stride": VEC, "offset": VEC}, {"resolution": VEC})
            out[d.name] = len(ak.run())
    return out
