"""Transforms are applied many times: applying one must not leave it changed.

Reports, for every class in the given modules that derives from Transform:
  * an assignment to `self.<attr>` (plain, augmented or subscript store) in a method other than
    __init__ (and other than property setters);
  * an in-place mutation of a container held in `self.<attr>` (append / extend / add / update /
    insert / setdefault / remove / discard) in such a method, or inside a callback created in
    __init__, that is not undone in the same function (a later `.pop()` / `.clear()` of the same
    attribute) -- e.g. a removal list that keeps the ids collected for the previous tree.
Zero expected on today's tree; positive examples are kept in sa/fixtures.
"""

from __future__ import annotations

import ast

from ..model import Def, dotted, norm_src

MUTATORS = {"append", "extend", "add", "update", "insert", "setdefault", "remove", "discard", "sort", "reverse"}
UNDO = {"pop", "clear"}


def _self_attr(e):
    """`self.X` / `self.X[...]` -> X"""
    while isinstance(e, ast.Subscript):
        e = e.value
    if isinstance(e, ast.Attribute) and isinstance(e.value, ast.Name) and e.value.id == "self":
        return e.attr
    return None


def scan_function(fn: ast.AST, in_init: bool):
    """[(kind, attr, node)] persistent changes of self made by this function body (nested defs and
    lambdas included: they run later, on some call)."""
    out = []
    undone = set()
    body_nodes = list(ast.walk(fn))
    for n in body_nodes:
        if isinstance(n, ast.Call) and isinstance(n.func, ast.Attribute) and n.func.attr in UNDO:
            a = _self_attr(n.func.value)
            if a:
                undone.add((a, getattr(n, "lineno", 0)))
    for n in body_nodes:
        nested = _in_nested(fn, n)
        if isinstance(n, (ast.Assign, ast.AugAssign, ast.AnnAssign)):
            tg = n.targets if isinstance(n, ast.Assign) else [n.target]
            for t in tg:
                for tt in (t.elts if isinstance(t, (ast.Tuple, ast.List)) else [t]):
                    a = _self_attr(tt)
                    if a and (not in_init or nested):
                        if isinstance(n, ast.AnnAssign) and n.value is None:
                            continue
                        out.append(("assign", a, n))
        if isinstance(n, ast.Call) and isinstance(n.func, ast.Attribute) and n.func.attr in MUTATORS:
            a = _self_attr(n.func.value)
            if a and (not in_init or nested):
                later_undo = any(u == a and ln >= getattr(n, "lineno", 0) for u, ln in undone)
                if nested or not later_undo:
                    out.append(("mutate", a, n))
    return out


def _in_nested(fn, node) -> bool:
    for x in ast.walk(fn):
        if x is fn:
            continue
        if isinstance(x, (ast.FunctionDef, ast.Lambda)) and any(node is y for y in ast.walk(x)):
            return True
    return False


def is_transform(repo, c) -> bool:
    return any(b.name == "Transform" or b.qualname.endswith(".Transform") for b in c.mro()) or \
        any(x.endswith("Transform") for k in c.mro() for x in k.ext_bases)


def check(ctx, col, rule: str, modules: tuple):
    import os
    from ..model import Repo
    repo = ctx.repo
    n_cls = hits = 0
    for c in repo.classes.values():
        if c.module.name not in modules or not is_transform(repo, c):
            continue
        n_cls += 1
        for name, d in c.methods.items():
            if d.is_property() or any(x.endswith(".setter") for x in d.decorators) or d.is_staticmethod() or d.is_classmethod():
                continue
            for kind, attr, node in scan_function(d.node, in_init=(name == "__init__")):
                hits += 1
                col.bad(rule, d.qualname, d.loc(node), f"applying `{c.name}` leaves the transform object unchanged",
                        f"`{norm_src(node)[:90]}` changes `self.{attr}` " + ("whenever the callback created here runs" if name == "__init__" else f"in `{name}`")
                        + " and nothing in that function undoes it: what one application leaves behind changes the result of the next "
                        "(stale node lists, a matrix already conjugated, arrays shared between results)", stmt=f"state:{attr}", definite=True)
    here = os.path.dirname(os.path.dirname(os.path.abspath(__file__)))
    fx = Repo(here, pkg="fixtures")
    found = {}
    for c in fx.classes.values():
        if c.module.name.endswith("stateless_positive"):
            found[c.name] = sum(len(scan_function(d.node, in_init=(n == "__init__"))) for n, d in c.methods.items())
    ok = found.get("StaleList", 0) >= 1 and found.get("ReassignsMatrix", 0) >= 1 and found.get("Balanced", 1) == 0 and found.get("Plain", 1) == 0
    col.check(ok, rule, "sa.fixtures.stateless_positive", "sa/fixtures/stateless_positive.py:1",
              f"lint recognises its kept positive examples ({n_cls} transform classes scanned, {hits} hit(s))", str(found),
              f"fixture results {found}", stmt="fixture")


def check_memo(ctx, col, rule: str, modules: tuple):
    """Objects that carry the geometry (trees, nodes, paths, branches): a method other than __init__ / a setter that stores to
    `self.<attr>` keeps a value computed from the coordinates of that moment.  The library copies trees with deepcopy and then
    overwrites the coordinate columns in place (all affine transforms, the node setters), so the kept value outlives the
    geometry it was computed from."""
    repo = ctx.repo
    n_cls = hits = 0
    for c in repo.classes.values():
        if c.module.name not in modules:
            continue
        n_cls += 1
        for name, d in c.methods.items():
            if name in ("__init__", "__new__", "__setstate__", "__setattr__", "__post_init__") or any(x.endswith(".setter") for x in d.decorators) \
                    or d.is_staticmethod() or d.is_classmethod():
                continue
            for kind, attr, node in scan_function(d.node, in_init=False):
                hits += 1
                col.bad(rule, d.qualname, d.loc(node), f"`{c.name}.{name}` computes from the current coordinates and keeps nothing on the object",
                        f"`{norm_src(node)[:90]}` keeps a value on `self.{attr}`: trees are copied with deepcopy and their coordinate columns are then "
                        f"overwritten in place (every affine transform, the node setters), so the kept value describes the geometry before the edit -- "
                        f"a scaled copy still reports the unscaled quantity", stmt=f"memo:{attr}", definite=True)
    col.analysed[f"memo_scope_classes:{rule}"] = n_cls
    col.ok(rule, "memo-scan", "", f"{n_cls} geometry-carrying classes scanned for values kept on self outside construction", f"{hits} hit(s)", stmt="memo-scan")
    return hits
