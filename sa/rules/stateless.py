"""Transforms are applied many times: applying one must not leave it changed.

Reports, for every class in the given modules that derives from Transform:
  * an assignment to `self.<attr>` (plain, augmented or subscript store) in a method other than
    __init__ (and other than property setters);
  * an in-place mutation of a container held in `self.<attr>` (append / extend / add / update /
    insert / setdefault / remove / discard) in such a method, or inside a callback created in
    __init__, that is not undone in the same function (a later `.pop()` / `.clear()` of the same
    attribute) -- e.g. a removal list that keeps the ids collected for the previous tree.
Zero expected on today's tree; positive examples are kept in sa/fixtures.
"""

from __future__ import annotations

import ast

from ..model import Def, dotted, norm_src

MUTATORS = {"append", "extend", "add", "update", "insert", "setdefault", "remove", "discard", "sort", "reverse"}
UNDO = {"pop", "clear"}


def _self_attr(e):
    """`self.X` / `self.X[...]` -> X"""
    while isinstance(e, ast.Subscript):
        e = e.value
    if isinstance(e, ast.Attribute) and isinstance(e.value, ast.Name) and e.value.id == "self":
        return e.attr
    return None


def scan_function(fn: ast.AST, in_init: bool):
    """[(kind, attr, node)] persistent changes of self made by this function body (nested defs and
    lambdas included: they run later, on some call)."""
    out = []
    undone = set()
    body_nodes = list(ast.walk(fn))
    for n in body_nodes:
        if isinstance(n, ast.Call) and isinstance(n.func, ast.Attribute) and n.func.attr in UNDO:
            a = _self_attr(n.func.value)
            if a:
                undone.add((a, getattr(n, "lineno", 0)))
    for n in body_nodes:
        nested = _in_nested(fn, n)
        if isinstance(n, (ast.Assign, ast.AugAssign, ast.AnnAssign)):
            tg = n.targets if isinstance(n, ast.Assign) else [n.target]
            for t in tg:
                for tt in (t.elts if isinstance(t, (ast.Tuple, ast.List)) else [t]):
                    a = _self_attr(tt)
                    if a and (not in_init or nested):
                        if isinstance(n, ast.AnnAssign) and n.value is None:
                            continue
                        out.append(("assign", a, n))
        if isinstance(n, ast.Call) and isinstance(n.func, ast.Attribute) and n.func.attr in MUTATORS:
            a = _self_attr(n.func.value)
            if a and (not in_init or nested):
                later_undo = any(u == a and ln >= getattr(n, "lineno", 0) for u, ln in undone)
                if nested or not later_undo:
                    out.append(("mutate", a, n))
    return out


VIEW_CALLS = {"asarray", "asanyarray", "atleast_1d", "atleast_2d", "ascontiguousarray", "squeeze", "ravel", "reshape", "transpose", "view", "swapaxes", "moveaxis"}


def _alias_of_self(e):
    """attr X if the expression denotes the very storage of `self.X` (no copy): self.X, a basic slice / .T / view / reshape of it,
    np.asarray(self.X, ...) (no copy when the dtype already matches -- which is the case for what the object stored itself)"""
    if isinstance(e, ast.Attribute) and e.attr == "T":
        return _alias_of_self(e.value)
    if isinstance(e, ast.Subscript):
        sl = e.slice
        parts = sl.elts if isinstance(sl, ast.Tuple) else [sl]
        if all(isinstance(x, ast.Slice) or (isinstance(x, ast.Constant) and x.value in (None, Ellipsis)) for x in parts):
            return _alias_of_self(e.value)
        return None
    if isinstance(e, ast.Call):
        fn = dotted(e.func) or ""
        last = fn.rsplit(".", 1)[-1]
        if last in VIEW_CALLS:
            if isinstance(e.func, ast.Attribute) and not fn.startswith(("np.", "numpy.")):
                return _alias_of_self(e.func.value)  # self.X.reshape(...)
            if e.args and not any(k.arg == "copy" for k in e.keywords):
                return _alias_of_self(e.args[0])
        return None
    return _self_attr(e) if not isinstance(e, ast.Subscript) else None


def scan_aliases(fn: ast.AST, in_init: bool):
    """[(kind, attr, node)]: stores through a local name that (on some path reaching the store) is bound to the storage of `self.X`"""
    if in_init or isinstance(fn, ast.Lambda):
        return []
    from .. import cfg as cfgmod
    binds = []  # (stmt, name, attr)
    for n in ast.walk(fn):
        if isinstance(n, ast.Assign) and len(n.targets) == 1 and isinstance(n.targets[0], ast.Name):
            a = _alias_of_self(n.value)
            if a:
                binds.append((n, n.targets[0].id, a))
    if not binds:
        return []
    g = cfgmod.CFG(fn.body, getattr(fn, "name", ""))
    out = []

    def stores_through(node_ast, name):
        res = []
        cand = [node_ast] if isinstance(node_ast, (ast.Assign, ast.AugAssign)) else []
        for st in cand:
            tg = st.targets if isinstance(st, ast.Assign) else [st.target]
            for t in tg:
                for tt in (t.elts if isinstance(t, (ast.Tuple, ast.List)) else [t]):
                    if isinstance(tt, ast.Subscript):
                        b = tt
                        while isinstance(b, ast.Subscript):
                            b = b.value
                        if isinstance(b, ast.Name) and b.id == name:
                            res.append(st)
                    elif isinstance(st, ast.AugAssign) and isinstance(tt, ast.Name) and tt.id == name:
                        res.append(st)  # `a op= e` on an ndarray is in place
        if isinstance(node_ast, ast.Expr) and isinstance(node_ast.value, ast.Call):
            c = node_ast.value
            for k in c.keywords:
                if k.arg == "out" and isinstance(k.value, ast.Name) and k.value.id == name:
                    res.append(node_ast)
            if isinstance(c.func, ast.Attribute) and isinstance(c.func.value, ast.Name) and c.func.value.id == name and c.func.attr in ("fill", "sort", "put", "itemset", "resize", "partition"):
                res.append(node_ast)
        return res

    for st, name, attr in binds:
        n0 = g.node_of(st)
        if n0 is None:
            continue
        seen = set()
        stack = [m for m, _l in g.succ[n0]]
        while stack:
            n = stack.pop()
            if n in seen:
                continue
            seen.add(n)
            a = n.ast
            hits = stores_through(a, name) if a is not None else []
            for h in hits:
                out.append(("alias-store", attr, h))
            rebinds = isinstance(a, ast.Assign) and any(isinstance(t, ast.Name) and t.id == name for t in a.targets)
            if isinstance(a, ast.AugAssign) and isinstance(a.target, ast.Name) and a.target.id == name:
                rebinds = False
            if rebinds:
                continue
            stack.extend(m for m, _l in g.succ[n])
    # one report per store
    uniq, seen_ids = [], set()
    for k, a, h in out:
        if id(h) not in seen_ids:
            seen_ids.add(id(h))
            uniq.append((k, a, h))
    return uniq


def _in_nested(fn, node) -> bool:
    for x in ast.walk(fn):
        if x is fn:
            continue
        if isinstance(x, (ast.FunctionDef, ast.Lambda)) and any(node is y for y in ast.walk(x)):
            return True
    return False


def is_transform(repo, c) -> bool:
    return any(b.name == "Transform" or b.qualname.endswith(".Transform") for b in c.mro()) or \
        any(x.endswith("Transform") for k in c.mro() for x in k.ext_bases)


def check(ctx, col, rule: str, modules: tuple):
    import os
    from ..model import Repo
    repo = ctx.repo
    n_cls = hits = 0
    for c in repo.classes.values():
        if c.module.name not in modules or not is_transform(repo, c):
            continue
        n_cls += 1
        for name, d in c.methods.items():
            if d.is_property() or any(x.endswith(".setter") for x in d.decorators) or d.is_staticmethod() or d.is_classmethod():
                continue
            for kind, attr, node in scan_function(d.node, in_init=(name == "__init__")) + scan_aliases(d.node, in_init=(name == "__init__")):
                hits += 1
                col.bad(rule, d.qualname, d.loc(node), f"applying `{c.name}` leaves the transform object unchanged",
                        f"`{norm_src(node)[:90]}` changes `self.{attr}` " + ("whenever the callback created here runs" if name == "__init__" else f"in `{name}`")
                        + " and nothing in that function undoes it: what one application leaves behind changes the result of the next "
                        "(stale node lists, a matrix already conjugated, arrays shared between results)", stmt=f"state:{attr}", definite=True)
    here = os.path.dirname(os.path.dirname(os.path.abspath(__file__)))
    fx = Repo(here, pkg="fixtures")
    found = {}
    for c in fx.classes.values():
        if c.module.name.endswith("stateless_positive"):
            found[c.name] = sum(len(scan_function(d.node, in_init=(n == "__init__")) + scan_aliases(d.node, in_init=(n == "__init__"))) for n, d in c.methods.items())
    ok = found.get("StaleList", 0) >= 1 and found.get("ReassignsMatrix", 0) >= 1 and found.get("Balanced", 1) == 0 and found.get("Plain", 1) == 0 \
        and found.get("WritesThroughAlias", 0) == 1 and found.get("AliasOnlyOnOtherArm", 1) == 0
    col.check(ok, rule, "sa.fixtures.stateless_positive", "sa/fixtures/stateless_positive.py:1",
              f"lint recognises its kept positive examples ({n_cls} transform classes scanned, {hits} hit(s))", str(found),
              f"fixture results {found}", stmt="fixture")


def check_memo(ctx, col, rule: str, modules: tuple):
    """Objects that carry the geometry (trees, nodes, paths, branches): a method other than __init__ / a setter that stores to
    `self.<attr>` keeps a value computed from the coordinates of that moment.  The library copies trees with deepcopy and then
    overwrites the coordinate columns in place (all affine transforms, the node setters), so the kept value outlives the
    geometry it was computed from."""
    repo = ctx.repo
    n_cls = hits = 0
    for c in repo.classes.values():
        if c.module.name not in modules:
            continue
        n_cls += 1
        for name, d in c.methods.items():
            if name in ("__init__", "__new__", "__setstate__", "__setattr__", "__post_init__") or any(x.endswith(".setter") for x in d.decorators) \
                    or d.is_staticmethod() or d.is_classmethod():
                continue
            for kind, attr, node in scan_function(d.node, in_init=False):
                hits += 1
                col.bad(rule, d.qualname, d.loc(node), f"`{c.name}.{name}` computes from the current coordinates and keeps nothing on the object",
                        f"`{norm_src(node)[:90]}` keeps a value on `self.{attr}`: trees are copied with deepcopy and their coordinate columns are then "
                        f"overwritten in place (every affine transform, the node setters), so the kept value describes the geometry before the edit -- "
                        f"a scaled copy still reports the unscaled quantity", stmt=f"memo:{attr}", definite=True)
    col.analysed[f"memo_scope_classes:{rule}"] = n_cls
    col.ok(rule, "memo-scan", "", f"{n_cls} geometry-carrying classes scanned for values kept on self outside construction", f"{hits} hit(s)", stmt="memo-scan")
    return hits


CORE_MODULES = ("swcgeom.core.tree", "swcgeom.core.path", "swcgeom.core.node", "swcgeom.core.branch", "swcgeom.core.compartment",
                "swcgeom.core.branch_tree", "swcgeom.core.swc", "swcgeom.core.segment")


def run_memo(ctx, col, rule: str = "R-MEMO"):
    """Declare and run the kept-on-the-object lint over the tree / view classes (one text for every property that relies on it)."""
    col.rule(rule, "nothing computed from the tree is kept on the tree / node / path / branch object: outside construction and setters no "
             "method of these classes stores to self -- copies are deep and topology and coordinates are then edited in place (re-rooting, "
             "concatenation, node setters, transforms), so a kept children index, decomposition or measure describes the tree before the edit; "
             "zero expected, positive examples are those of the transform-state lint", floor=1)
    return check_memo(ctx, col, rule, CORE_MODULES)
