"""Recurrences along the node numbering.

A loop that walks the rows in storage order (`for i in range(n)`, `for i, p in
enumerate(pids)`, `for i in ids`) and, for row i, *reads a slot of an array it also
writes in that loop* at the row's parent (`acc[pid[i]]`, `acc[p]`) computes the right
thing only if every parent is stored before its children.  Trees are well formed under
any numbering that keeps the root first, so such a loop is numbering dependent.  The
library's own traversals (explicit stack / `traverse`) do not have this shape.
"""

from __future__ import annotations

import ast

from ..model import Def, dotted, norm_src, own_nodes

PARENT_WORDS = ("pid", "parent")


def _mentions_parent(e: ast.AST, parent_names: set) -> bool:
    for n in ast.walk(e):
        if isinstance(n, ast.Name) and (n.id in parent_names or any(w in n.id.lower() for w in PARENT_WORDS)):
            return True
        if isinstance(n, ast.Attribute) and any(w in n.attr.lower() for w in PARENT_WORDS):
            return True
        if isinstance(n, ast.Call) and isinstance(n.func, ast.Attribute) and n.func.attr in ("pid", "parent"):
            return True
    return False


def find(d: Def):
    """[(loop, store stmt, array name, parent-indexed read)] -- definite recurrences only."""
    out = []
    for loop in [n for n in own_nodes(d) if isinstance(n, ast.For)]:
        it = loop.iter
        fn = dotted(it.func) if isinstance(it, ast.Call) else None
        row_vars, parent_names = set(), set()
        if fn == "range":
            if isinstance(loop.target, ast.Name):
                row_vars.add(loop.target.id)
        elif fn == "enumerate" and isinstance(loop.target, ast.Tuple) and len(loop.target.elts) == 2:
            a, b = loop.target.elts
            if isinstance(a, ast.Name):
                row_vars.add(a.id)
            if isinstance(b, ast.Name) and it.args and _mentions_parent(it.args[0], set()):
                parent_names.add(b.id)
        elif fn == "zip" and isinstance(loop.target, ast.Tuple) and len(it.args) == 1 and isinstance(it.args[0], ast.Starred):
            # for idx, pid in zip(*topology): the roles are in the names
            for tg in loop.target.elts:
                if isinstance(tg, ast.Name):
                    if any(w in tg.id.lower() for w in PARENT_WORDS):
                        parent_names.add(tg.id)
                    else:
                        row_vars.add(tg.id)
        elif fn == "zip" and isinstance(loop.target, ast.Tuple):
            for tg, src in zip(loop.target.elts, it.args):
                if isinstance(tg, ast.Name):
                    if _mentions_parent(src, set()):
                        parent_names.add(tg.id)
                    else:
                        row_vars.add(tg.id)
        else:
            continue
        if not row_vars:
            continue
        # arrays stored at the row index inside the loop
        for st in ast.walk(loop):
            tgt = None
            if isinstance(st, ast.Assign) and len(st.targets) == 1:
                tgt, val = st.targets[0], st.value
            elif isinstance(st, ast.AugAssign):
                tgt, val = st.target, st.value
            if not (isinstance(tgt, ast.Subscript) and isinstance(tgt.value, ast.Name)):
                continue
            idx_names = {n.id for n in ast.walk(tgt.slice) if isinstance(n, ast.Name)}
            if not (idx_names & row_vars) or _mentions_parent(tgt.slice, parent_names):
                continue
            arr = tgt.value.id
            # local aliases of a parent id: `p = pid[i]`
            pnames = set(parent_names)
            for a in ast.walk(loop):
                if isinstance(a, ast.Assign) and len(a.targets) == 1 and isinstance(a.targets[0], ast.Name) \
                        and _mentions_parent(a.value, parent_names) and not isinstance(a.value, ast.Compare):
                    pnames.add(a.targets[0].id)
            # the value stored, and the conditions under which the store happens
            deps = [val] + _guards(loop, st)
            hit = None
            for dep in deps:
                for rd in ast.walk(dep):
                    if isinstance(rd, ast.Subscript) and isinstance(rd.value, ast.Name) and rd.value.id == arr \
                            and _mentions_parent(rd.slice, pnames):
                        hit = rd
                        break
                    if isinstance(rd, ast.Compare) and len(rd.ops) == 1 and isinstance(rd.ops[0], (ast.In, ast.NotIn)) \
                            and isinstance(rd.comparators[0], ast.Name) and rd.comparators[0].id == arr \
                            and _mentions_parent(rd.left, pnames):
                        hit = rd
                        break
                if hit is not None:
                    break
            if hit is not None:
                out.append((loop, st, arr, hit))
        # the mirrored recurrence: row i *writes the slot of its parent* (`keep[pid[i]] = ...`) depending on its own slot of the same array
        # (`if keep[i]`), i.e. information is pushed up one level per row in storage order: complete only if every child is visited before
        # its parent is read, which a single sweep guarantees only when the numbering is sorted
        for st in ast.walk(loop):
            tgt = None
            if isinstance(st, ast.Assign) and len(st.targets) == 1:
                tgt, val = st.targets[0], st.value
            elif isinstance(st, ast.AugAssign):
                tgt, val = st.target, st.value
            if not (isinstance(tgt, ast.Subscript) and isinstance(tgt.value, ast.Name)):
                continue
            pnames = set(parent_names)
            for a in ast.walk(loop):
                if isinstance(a, ast.Assign) and len(a.targets) == 1 and isinstance(a.targets[0], ast.Name) \
                        and _mentions_parent(a.value, parent_names) and not isinstance(a.value, ast.Compare) \
                        and ({n.id for n in ast.walk(a.value) if isinstance(n, ast.Name)} & row_vars):
                    pnames.add(a.targets[0].id)
            sl_names = {n.id for n in ast.walk(tgt.slice) if isinstance(n, ast.Name)}
            parent_slot = (_mentions_parent(tgt.slice, set()) and bool(sl_names & row_vars)) or bool(sl_names & pnames)
            if not parent_slot:
                continue
            arr = tgt.value.id
            hit = None
            for dep in [val] + _guards(loop, st):
                for rd in ast.walk(dep):
                    if isinstance(rd, ast.Subscript) and isinstance(rd.value, ast.Name) and rd.value.id == arr:
                        rn = {n.id for n in ast.walk(rd.slice) if isinstance(n, ast.Name)}
                        if (rn & row_vars) and not _mentions_parent(rd.slice, pnames):
                            hit = rd
                            break
                if hit is not None:
                    break
            if hit is not None and not any(o[1] is st for o in out):
                out.append((loop, st, arr, hit))
    return out


def _guards(loop: ast.For, st: ast.AST) -> list:
    """tests of the if/while statements of the loop body that enclose st"""
    out = []

    def rec(body, acc):
        for x in body:
            if x is st:
                out.extend(acc)
                return True
            if isinstance(x, (ast.If, ast.While)):
                if rec(x.body, acc + [x.test]) or rec(x.orelse, acc + [x.test]):
                    return True
            elif isinstance(x, (ast.For, ast.With, ast.Try)):
                for f in ("body", "orelse", "finalbody"):
                    if rec(getattr(x, f, []) or [], acc):
                        return True
        return False
    rec(loop.body, [])
    return out


def _sortedness_test(e: ast.AST) -> bool:
    """does the expression test that parents are stored before their children (parent position < own position)?"""
    for c in ast.walk(e):
        if isinstance(c, ast.Compare) and len(c.ops) >= 1 and all(isinstance(o, (ast.Lt, ast.LtE, ast.Gt, ast.GtE)) for o in c.ops):
            sides = [c.left] + list(c.comparators)
            txt = [norm_src(x) for x in sides]
            parentish = [any(w in t.lower() for w in PARENT_WORDS) for t in txt]
            rowish = [("arange" in t or "range(" in t or t in ("i", "idx", "k", "n") or ".id()" in t or t.endswith("ids") or "index" in t.lower()) for t in txt]
            if any(parentish) and any(r and not p for r, p in zip(rowish, parentish)):
                return True
        if isinstance(c, ast.Call) and "sorted" in (dotted(c.func) or "").lower() and "sorted(" != (dotted(c.func) or "") + "(":
            return True
    return False


def guarded_by_sortedness(ctx, d: Def) -> bool:
    """the recurrence runs only on tables checked to be stored parents-first: the function tests it itself, or it is a private helper all of whose
    call sites in its module sit under such a test (directly, or through a predicate function that makes the comparison)"""
    if _sortedness_test(d.node):
        return True
    if not d.name.startswith("_"):
        return False
    mod = d.module
    preds = set()
    for other in ctx.repo.all_defs():
        if other.module is mod and not other.is_lambda and other is not d and _sortedness_test(other.node) and any(isinstance(r, ast.Return) for r in ast.walk(other.node)):
            preds.add(other.name)
    sites = []
    for other in ctx.repo.all_defs():
        if other.module is not mod or other.is_lambda or other is d:
            continue
        for c in own_nodes(other):
            if isinstance(c, ast.Call) and (dotted(c.func) or "").rsplit(".", 1)[-1] == d.name:
                sites.append((other, c))
    if not sites:
        return False
    for other, c in sites:
        ok = False
        cur = ctx.repo.parent(c)
        while cur is not None and cur is not other.node:
            if isinstance(cur, (ast.If, ast.IfExp, ast.While)):
                t = cur.test
                if _sortedness_test(t) or any(isinstance(x, ast.Call) and (dotted(x.func) or "").rsplit(".", 1)[-1] in preds for x in ast.walk(t)):
                    ok = True
                    break
            cur = ctx.repo.parent(cur)
        if not ok:
            # an early-exit guard: `if not pred(...): return slow(...)` in front of the call
            for st in other.node.body:
                if getattr(st, "lineno", 0) >= getattr(c, "lineno", 0):
                    break
                if isinstance(st, ast.If) and (_sortedness_test(st.test) or any(isinstance(x, ast.Call) and (dotted(x.func) or "").rsplit(".", 1)[-1] in preds for x in ast.walk(st.test))) \
                        and any(isinstance(x, (ast.Return, ast.Raise)) for x in ast.walk(ast.Module(body=st.body, type_ignores=[]))):
                    ok = True
        if not ok:
            return False
    return True


def check(ctx, col, rule: str, modules: tuple, what: str = "the scanned modules"):
    """Zero-expected rule with kept positive examples."""
    import os
    from ..model import Repo
    n_defs = hits = 0
    for d in ctx.repo.all_defs():
        if d.module.name not in modules or d.is_lambda:
            continue
        n_defs += 1
        found_here = find(d)
        if found_here and guarded_by_sortedness(ctx, d):
            for loop, st, arr, rd in found_here:
                col.unresolved(rule, d.qualname, d.loc(st), f"recurrence over `{arr}` along the row order",
                               f"`{norm_src(st)}` is a recurrence along the storage order, but it runs under a test that the table is stored parents-first "
                               f"(whether that test is strong enough is not decided here)", stmt=f"rec:{arr}")
            continue
        for loop, st, arr, rd in found_here:
            hits += 1
            col.bad(rule, d.qualname, d.loc(st), f"recurrence over `{arr}` along the row order",
                    f"`{norm_src(st)}` inside `for {norm_src(loop.target)} in {norm_src(loop.iter)}` depends on "
                    f"`{norm_src(rd)}` (the parent's slot, filled by an earlier iteration only if the parent has a "
                    f"smaller row index): the result depends on the node numbering, which well-formed trees do not "
                    f"constrain beyond the root being first", stmt=f"rec:{arr}")
    col.analysed[f"order_scope_defs:{rule}"] = n_defs
    here = os.path.dirname(os.path.dirname(os.path.abspath(__file__)))
    fx = Repo(here, pkg="fixtures")
    found = {d.name: len(find(d)) for d in fx.all_defs() if d.module.name.endswith("orderdep_positive")}
    ok = found.get("path_length_forward") == 1 and found.get("mark_forward") == 1 and found.get("not_a_recurrence") == 0 \
        and found.get("keep_backward") == 1 and found.get("count_children") == 0
    col.check(ok, rule, "sa.fixtures.orderdep_positive", "sa/fixtures/orderdep_positive.py:1",
              f"lint recognises its kept positive examples ({n_defs} defs of {what} scanned, {hits} hit(s))",
              str(found), f"fixture results {found}: the lint no longer recognises its positive examples", stmt="fixture")
