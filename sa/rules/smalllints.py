"""Four small construct lints (zero expected on a correct tree, each with kept examples in sa/fixtures/smalllints_positive.py).

R-FALSY   `p or default` / `x = p or q` where p is a numeric option of a geometric routine (a scale factor, an angle, an offset): the value 0 is a
          legitimate choice and is silently replaced by the default ("is None" is what was meant).
R-ATOL    `np.isclose(q, 0)` / `np.allclose(q, 0)` (default atol 1e-8) or `abs(q) < <small literal>` on a quantity that carries a length unit:
          the test is not scale invariant -- for a morphology in small units (or a squared length) ordinary geometry counts as degenerate.
R-ROUNDS  pointer jumping / doubling (`a = a[a]`, `anc[i] = anc[anc[i]]`) repeated `int(log2(n))` times: floor(log2 n) rounds cover paths of
          length < 2**floor(log2 n) only; chains longer than that are not resolved (it needs ceil, and one more round to be safe).
R-SHARED  a class-level mutable default (`branches = {}`) that some code fills in place through an instance without the class ever giving the
          instance its own container: every instance shares one dict / list and sees the others' entries.
"""
from __future__ import annotations

import ast

from ..model import dotted, norm_src

NUMERIC_ANN = ("float", "int", "Optional[float]", "Optional[int]", "float | None", "int | None", "Optional[float | int]", "float | int", "int | float")


def _params_with_ann(fn):
    a = fn.args
    out = {}
    for x in a.posonlyargs + a.args + a.kwonlyargs:
        out[x.arg] = norm_src(x.annotation) if x.annotation is not None else None
    return out


def find_falsy(fn) -> list:
    if isinstance(fn, ast.Lambda):
        return []
    ps = _params_with_ann(fn)
    out = []
    for b in ast.walk(fn):
        if isinstance(b, ast.BoolOp) and isinstance(b.op, ast.Or) and len(b.values) >= 2:
            first = b.values[0]
            if isinstance(first, ast.Name) and first.id in ps and ps[first.id] is not None \
                    and any(ps[first.id].replace("np.", "").replace("typing.", "") == t for t in NUMERIC_ANN):
                out.append((b, first.id))
    return out


SMALL = 1e-3


def _is_zero(e) -> bool:
    return isinstance(e, ast.Constant) and isinstance(e.value, (int, float)) and not isinstance(e.value, bool) and e.value == 0


def find_atol(fn, dimensional) -> list:
    """dimensional(expr) -> True when the expression carries a length unit (decided by the caller's typing)"""
    out = []
    for c in ast.walk(fn):
        if isinstance(c, ast.Call) and (dotted(c.func) or "").rsplit(".", 1)[-1] in ("isclose", "allclose") and len(c.args) >= 2:
            a, b = c.args[0], c.args[1]
            for x, y in ((a, b), (b, a)):
                if _is_zero(y) and dimensional(x):
                    out.append((c, norm_src(x)))
        if isinstance(c, ast.Compare) and len(c.ops) == 1 and isinstance(c.ops[0], (ast.Lt, ast.LtE)):
            left, right = c.left, c.comparators[0]
            if isinstance(left, ast.Call) and (dotted(left.func) or "").rsplit(".", 1)[-1] in ("abs", "fabs", "absolute") and left.args \
                    and isinstance(right, ast.Constant) and isinstance(right.value, float) and 0 < right.value <= SMALL and dimensional(left.args[0]):
                out.append((c, norm_src(left.args[0])))
    return out


def find_rounds(fn) -> list:
    out = []
    for lp in ast.walk(fn):
        if not isinstance(lp, ast.For):
            continue
        it = lp.iter
        if not (isinstance(it, ast.Call) and isinstance(it.func, ast.Name) and it.func.id == "range" and len(it.args) == 1):
            continue
        n = it.args[0]
        floor_log = isinstance(n, ast.Call) and isinstance(n.func, ast.Name) and n.func.id == "int" and n.args and isinstance(n.args[0], ast.Call) \
            and (dotted(n.args[0].func) or "").rsplit(".", 1)[-1] == "log2"
        if not floor_log:
            continue
        jumping = False
        for st in ast.walk(lp):
            if isinstance(st, ast.Assign) and len(st.targets) == 1:
                t, v = st.targets[0], st.value
                base = t.value if isinstance(t, ast.Subscript) else t
                if isinstance(base, ast.Name):
                    nm = base.id
                    for s in ast.walk(v):
                        if isinstance(s, ast.Subscript) and isinstance(s.value, ast.Name) and any(isinstance(x, ast.Name) and x.id == nm for x in ast.walk(s.slice)) :
                            jumping = True
        if jumping:
            out.append((lp, norm_src(n)))
    return out


MUTATORS = ("append", "extend", "setdefault", "update", "add", "insert")


def find_shared(cls_node: ast.ClassDef) -> list:
    """class-level mutable defaults that are filled through an instance while no method of the class binds a fresh container to the instance"""
    defaults = {}
    for st in cls_node.body:
        tgt = val = None
        if isinstance(st, ast.Assign) and len(st.targets) == 1 and isinstance(st.targets[0], ast.Name):
            tgt, val = st.targets[0].id, st.value
        elif isinstance(st, ast.AnnAssign) and isinstance(st.target, ast.Name) and st.value is not None:
            tgt, val = st.target.id, st.value
        if tgt and (isinstance(val, (ast.Dict, ast.List, ast.Set)) or (isinstance(val, ast.Call) and isinstance(val.func, ast.Name) and val.func.id in ("dict", "list", "set", "defaultdict"))):
            defaults[tgt] = st
    if not defaults:
        return []
    rebound, mutated = set(), {}
    for n in ast.walk(cls_node):
        if isinstance(n, (ast.Assign, ast.AnnAssign)):
            tg = n.targets if isinstance(n, ast.Assign) else [n.target]
            for t in tg:
                if isinstance(t, ast.Attribute) and t.attr in defaults and isinstance(t.value, ast.Name):
                    rebound.add(t.attr)
                if isinstance(t, ast.Subscript) and isinstance(t.value, ast.Attribute) and t.value.attr in defaults and isinstance(t.value.value, ast.Name):
                    mutated.setdefault(t.value.attr, n)
        if isinstance(n, ast.Call) and isinstance(n.func, ast.Attribute) and n.func.attr in MUTATORS:
            recv = n.func.value
            while isinstance(recv, ast.Subscript):
                recv = recv.value  # x.branches[idx].append(v) fills the table held in x.branches
            if isinstance(recv, ast.Attribute) and recv.attr in defaults and isinstance(recv.value, ast.Name):
                mutated.setdefault(recv.attr, n)
    return [(defaults[a], a, node) for a, node in mutated.items() if a not in rebound]


def fixtures() -> dict:
    import os
    from ..model import Repo
    here = os.path.dirname(os.path.dirname(os.path.abspath(__file__)))
    fx = Repo(here, pkg="fixtures")
    out = {}
    for d in fx.all_defs():
        if d.module.name.endswith("smalllints_positive") and not d.is_lambda and d.parent is None and d.cls is None:
            out[d.name] = (len(find_falsy(d.node)), len(find_atol(d.node, lambda e: True)), len(find_rounds(d.node)))
    for c in fx.classes.values():
        if c.module.name.endswith("smalllints_positive"):
            out[c.name] = len(find_shared(c.node))
    return out


def fixtures_ok(col, rule):
    fx = fixtures()
    ok = fx.get("scale_or_default") == (1, 0, 0) and fx.get("scale_is_none") == (0, 0, 0) and fx.get("degenerate_line") == (0, 1, 0) \
        and fx.get("jump_floor_log") == (0, 0, 1) and fx.get("jump_to_fixpoint") == (0, 0, 0) and fx.get("SharedTable") == 1 and fx.get("OwnTable") == 0
    col.check(ok, rule, "sa.fixtures.smalllints_positive", "sa/fixtures/smalllints_positive.py:1", "the small lints recognise their kept examples", str(fx), f"fixture results {fx}", stmt="fixture")


def run_falsy(ctx, col, modules, rule="R-FALSY"):
    col.rule(rule, "a numeric option of a geometric routine (scale factor, angle, offset) is never defaulted with `p or default`: the legitimate value 0 "
             "would silently be replaced (zero expected, examples kept)", floor=1)
    hits = 0
    for d in ctx.repo.all_defs():
        if d.module.name not in modules or d.is_lambda:
            continue
        for b, name in find_falsy(d.node):
            hits += 1
            col.bad(rule, d.qualname, d.loc(b), "the value 0 of a numeric option is honoured",
                    f"`{norm_src(b)[:70]}` replaces `{name} = 0` by the default: 0 is falsy, but a scale factor / angle / offset of 0 is a choice, not 'not given'", stmt=f"falsy:{name}", definite=True)
    fixtures_ok(col, rule)
    return hits


def run_rounds(ctx, col, modules, rule="R-ROUNDS"):
    col.rule(rule, "pointer jumping is repeated often enough: no doubling loop bounded by int(log2(n)) (floor) rounds (zero expected, examples kept)", floor=1)
    hits = 0
    for d in ctx.repo.all_defs():
        if d.module.name not in modules or d.is_lambda or d.parent is not None:
            continue
        for lp, bound in find_rounds(d.node):
            hits += 1
            col.bad(rule, d.qualname, d.loc(lp), "pointer jumping runs until every chain is resolved",
                    f"`for ... in range({bound})` doubles the distance looked at {bound} = floor(log2 n) times: chains of 2**floor(log2 n) nodes or more are not resolved "
                    f"(a deep unbranched neurite keeps nodes that should have been marked / joined)", stmt="rounds", definite=True)
    fixtures_ok(col, rule)
    return hits


def run_shared(ctx, col, modules, rule="R-SHARED"):
    col.rule(rule, "no container is shared between instances through a class-level mutable default that is filled in place (zero expected, examples kept)", floor=1)
    hits = 0
    for c in ctx.repo.classes.values():
        if c.module.name not in modules:
            continue
        for st, attr, node in find_shared(c.node):
            hits += 1
            col.bad(rule, c.qualname, f"{c.module.relpath}:{getattr(node, 'lineno', 0)}", "every instance has its own containers",
                    f"`{norm_src(st)}` is a class-level default and `{norm_src(node)[:70]}` fills it through an instance, while nothing ever binds a fresh container to the "
                    f"instance: all `{c.name}` objects share one `{attr}` and see each other's entries", stmt=f"shared:{attr}", definite=True)
    fixtures_ok(col, rule)
    return hits


def run_atol(ctx, col, modules, rule="R-ATOL", dimensionless=("t", "t1", "t2", "cos", "sin", "ratio")):
    col.rule(rule, "degeneracy tests on lengths are scale invariant: no np.isclose / np.allclose of a length-carrying quantity against 0 (absolute tolerance 1e-8) and no "
             "`abs(q) < small literal` in the geometric helpers -- for a morphology in small units, or a squared length, ordinary geometry would count as degenerate "
             "(zero expected, examples kept)", floor=1)
    hits = 0
    for d in ctx.repo.all_defs():
        if d.module.name not in modules or d.is_lambda or d.parent is not None:
            continue
        dim = lambda e: not (isinstance(e, ast.Name) and e.id in dimensionless)
        for c, what in find_atol(d.node, dim):
            hits += 1
            col.bad(rule, d.qualname, d.loc(c), "degeneracy tests are scale invariant",
                    f"`{norm_src(c)[:70]}` compares `{what}`, which carries a length unit, with 0 under a fixed absolute tolerance: the same shape in smaller units "
                    f"(or a short segment: the quantity is a squared length) is declared degenerate and takes the wrong branch, so volumes do not scale with s^3", stmt=f"atol:{what[:30]}", definite=True)
    fixtures_ok(col, rule)
    return hits


def own_container_on_every_path(ctx, col, rule, class_qual: str, attr: str, what: str):
    """A class-level mutable default (`comments: list[str] = []`) is harmless only while every constructed object binds a container of its own:
    in the class's __init__ every path to a normal return passes `self.<attr> = <fresh container>` (CFG must-pass)."""
    from .. import cfg as cfgmod
    c = ctx.repo.get_class(class_qual)
    init = c.methods.get("__init__")
    if init is None:
        col.unresolved(rule, class_qual, "", what, "no __init__", stmt=f"own:{attr}")
        return
    g = cfgmod.CFG(init.node.body, "__init__")

    def binds(n):
        a = n.ast
        if isinstance(a, (ast.Assign, ast.AnnAssign)):
            tg = a.targets if isinstance(a, ast.Assign) else [a.target]
            for t in tg:
                if isinstance(t, ast.Attribute) and t.attr == attr and isinstance(t.value, ast.Name) and t.value.id == "self":
                    v = a.value
                    if v is None:
                        return False
                    # a fresh container on both arms of a conditional expression, a list(...) / [...] / [] ...
                    def fresh(e):
                        if isinstance(e, ast.IfExp):
                            return fresh(e.body) and fresh(e.orelse)
                        if isinstance(e, (ast.List, ast.Dict, ast.Set, ast.ListComp, ast.DictComp)):
                            return True
                        if isinstance(e, ast.Call) and isinstance(e.func, ast.Name) and e.func.id in ("list", "dict", "set", "sorted"):
                            return True
                        return False
                    return fresh(v)
        return False
    ok = g.must_pass(g.entry, [g.exit], binds)
    col.check(ok, rule, init.qualname, init.loc(), what, f"every path through {class_qual.rsplit('.', 1)[-1]}.__init__ binds a fresh `self.{attr}`",
              f"some path through `{class_qual.rsplit('.', 1)[-1]}.__init__` reaches its end without binding a fresh container to `self.{attr}`: such objects fall back to the class-level "
              f"`{attr}` default, ONE list shared by every tree built that way -- an edit of the comments of one result shows up in its input and in unrelated trees", stmt=f"own:{attr}", definite=True)
