"""Accepted-and-ignored options.

A function that takes a parameter `p`, never uses it, and calls (or constructs) something of the package that has a
parameter of the same name without passing it, silently replaces the caller's choice of `p` by the callee's default: the
property it implements then fails for every non-default `p`.  Reported only under exactly these conditions (unused
parameters as such are common and harmless: interface conformity, deprecated arguments).
"""

from __future__ import annotations

import ast

from ..model import Def, norm_src, own_nodes


def _own_params(d: Def):
    a = d.node.args
    return [x.arg for x in a.posonlyargs + a.args + a.kwonlyargs if x.arg not in ("self", "cls")]


def find(ctx, d: Def):
    """[(param, call node, callee Def)]"""
    if isinstance(d.node, ast.Lambda):
        return []
    used = {n.id for n in ast.walk(d.node) if isinstance(n, ast.Name) and isinstance(n.ctx, ast.Load)}
    unused = [p for p in _own_params(d) if p not in used and not p.startswith("_")]
    if not unused:
        return []
    # a body that only raises / passes / is abstract does not count
    body = [s for s in d.node.body if not (isinstance(s, ast.Expr) and isinstance(s.value, ast.Constant))]
    if all(isinstance(s, (ast.Raise, ast.Pass)) for s in body) or any(x.endswith(("abstractmethod", "overload", "deprecated")) for x in d.decorators):
        return []
    out = []
    for e in ctx.cg.out.get(d, []):
        if e.callee is None or e.strength not in ("strong",) or not isinstance(e.call, ast.Call):
            continue
        cal = e.callee
        cparams = [x.arg for x in cal.node.args.posonlyargs + cal.node.args.args + cal.node.args.kwonlyargs] if not isinstance(cal.node, ast.Lambda) else []
        own_kw = d.node.args.kwarg.arg if d.node.args.kwarg is not None else None
        if any(k.arg is None and not (isinstance(k.value, ast.Name) and k.value.id == own_kw) for k in e.call.keywords):
            continue  # some other mapping is splatted: cannot tell (the function's own **kwargs cannot contain its named parameters)
        passed_kw = {k.arg for k in e.call.keywords}
        npos = len(e.call.args) + (1 if cparams and cparams[0] in ("self", "cls") else 0)
        if any(isinstance(a, ast.Starred) for a in e.call.args):
            continue
        for p in unused:
            if p in cparams and p not in passed_kw and cparams.index(p) >= npos:
                out.append((p, e.call, cal))
    return out


def check(ctx, col, rule: str, modules: tuple, what: str = "every option a function accepts reaches the code that implements it"):
    n = hits = 0
    for d in ctx.repo.all_defs():
        if d.module.name not in modules or d.is_lambda:
            continue
        n += 1
        for p, call, cal in find(ctx, d):
            hits += 1
            col.bad(rule, d.qualname, d.loc(call), what,
                    f"`{d.name}` accepts `{p}` and never uses it, while `{norm_src(call)[:70]}` calls `{cal.qualname.split('.')[-2] if cal.name == '__init__' else cal.name}`, "
                    f"which has a parameter `{p}` of its own, without passing it: the caller's `{p}` is replaced by the callee's default", stmt=f"ignored:{p}", definite=True)
    col.ok(rule, "ignored-param-scan", "", f"{n} functions looked at for accepted-and-ignored options", f"{hits} hit(s)", stmt="ignored-scan")
    col.analysed[f"ignoredparam_defs:{rule}"] = n
    return hits


RULE_TEXT = ("no option is accepted and ignored: a parameter a function never uses, while it calls something of the package that has a parameter of the same "
             "name without passing it (the caller's choice is silently replaced by the callee's default); zero expected")


def run(ctx, col, modules: tuple, rule: str = "R-OPTION"):
    col.rule(rule, RULE_TEXT, floor=1)
    n = check(ctx, col, rule, tuple(modules))
    from . import deadstore
    return n + deadstore.run(ctx, col, tuple(modules))
