"""`a[idx] += x` with an index ARRAY applies the update once per distinct index (numpy buffers the
read-modify-write): contributions of rows that share an index are lost.  When the index is built
from parent ids (several children share a parent) this is a definite loss; np.add.at is the
accumulating form.  Zero expected on today's tree; a positive example is kept in sa/fixtures."""

from __future__ import annotations

import ast

from ..model import Def, dotted, norm_src, own_nodes

PARENT_WORDS = ("pid", "parent")


def _array_valued(d: Def, name: str) -> bool:
    """is `name` bound to an array expression (fancy index / column / nonzero ...) in d?"""
    for n in own_nodes(d):
        if isinstance(n, ast.Assign):
            for t in n.targets:
                tg = t.elts if isinstance(t, (ast.Tuple, ast.List)) else [t]
                vals = n.value.elts if isinstance(n.value, (ast.Tuple, ast.List)) and len(getattr(n.value, "elts", [])) == len(tg) else [n.value] * len(tg)
                for tt, v in zip(tg, vals):
                    if isinstance(tt, ast.Name) and tt.id == name:
                        if isinstance(v, ast.Subscript) and not isinstance(v.slice, ast.Constant):
                            return True
                        if isinstance(v, ast.Call) and ((dotted(v.func) or "").rsplit(".", 1)[-1] in
                                                         ("pid", "flatnonzero", "nonzero", "array", "asarray", "where", "to_numpy", "get_ndata")):
                            return True
    return False


def find(d: Def):
    out = []
    for n in own_nodes(d):
        if isinstance(n, ast.AugAssign) and isinstance(n.target, ast.Subscript) and isinstance(n.op, (ast.Add, ast.Sub, ast.Mult)):
            sl = n.target.slice
            names = [x.id for x in ast.walk(sl) if isinstance(x, ast.Name)]
            parentish = [x for x in names if any(w in x.lower() for w in PARENT_WORDS)]
            if parentish and any(_array_valued(d, x) for x in parentish) and not _in_loop_over(d, n, parentish):
                out.append(n)
    return out


def _in_loop_over(d: Def, node, names) -> bool:
    """`for child, parent in ...: acc[parent] += x` updates one scalar slot per iteration: fine."""
    for lp in own_nodes(d):
        if isinstance(lp, ast.For) and any(node is y for y in ast.walk(lp)):
            bound = {x.id for x in ast.walk(lp.target) if isinstance(x, ast.Name)}
            if bound & set(names):
                return True
    return False


def check(ctx, col, rule: str, modules: tuple):
    import os
    from ..model import Repo
    n_defs = hits = 0
    for d in ctx.repo.all_defs():
        if d.module.name not in modules or d.is_lambda:
            continue
        n_defs += 1
        for n in find(d):
            hits += 1
            col.bad(rule, d.qualname, d.loc(n), "accumulation over an index array with repeated entries uses np.add.at",
                    f"`{norm_src(n)[:90]}`: with an index array, `+=` is applied once per distinct index, so of several rows that share "
                    f"a parent only one contributes (np.add.at accumulates)", stmt="fancy-add", definite=True)
    here = os.path.dirname(os.path.dirname(os.path.abspath(__file__)))
    fx = Repo(here, pkg="fixtures")
    found = {d.name: len(find(d)) for d in fx.all_defs() if d.module.name.endswith("fancyadd_positive")}
    ok = found.get("lossy") == 1 and found.get("scalar_loop") == 0 and found.get("add_at") == 0
    col.check(ok, rule, "sa.fixtures.fancyadd_positive", "sa/fixtures/fancyadd_positive.py:1",
              f"lint recognises its kept positive example ({n_defs} defs scanned, {hits} hit(s))", str(found), f"fixture results {found}", stmt="fixture")
