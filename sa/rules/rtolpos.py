"""Relative tolerance applied to absolute positions (syntactic companion of the geometric-type rule).

`np.allclose(p, q)` / `np.isclose(p, q)` compare with `atol + rtol * |q|`; the default rtol = 1e-5 makes the admitted gap grow
with the distance of the points from the coordinate origin.  Where the operands are node positions (`.xyz()`, `.center`,
`xyz` columns) the outcome of the test changes when the neuron is translated -- unless rtol=0 is passed.
"""

from __future__ import annotations

import ast

from ..model import Def, dotted, norm_src, own_nodes
from ..util import expand_names


def _is_position(d, e) -> bool:
    for x in expand_names(d, e):
        for n in ast.walk(x):
            if isinstance(n, ast.Call) and isinstance(n.func, ast.Attribute) and n.func.attr in ("xyz", "xyzw"):
                return True
            if isinstance(n, ast.Attribute) and n.attr in ("center", "c1", "c2"):
                return True
    return False


def find(d: Def):
    out = []
    for c in own_nodes(d):
        if isinstance(c, ast.Call) and (dotted(c.func) or "") in ("np.allclose", "np.isclose", "numpy.allclose", "numpy.isclose") and len(c.args) >= 2:
            rt = next((k.value for k in c.keywords if k.arg == "rtol"), c.args[2] if len(c.args) > 2 else None)
            if isinstance(rt, ast.Constant) and rt.value == 0:
                continue
            if _is_position(d, c.args[0]) or _is_position(d, c.args[1]):
                # a difference of positions is fine
                if all(isinstance(a, ast.BinOp) and isinstance(a.op, ast.Sub) for a in c.args[:1]):
                    continue
                out.append(c)
    return out


RULE_TEXT = ("node positions are never compared with a relative tolerance (np.allclose / np.isclose with rtol != 0 on .xyz() / .center operands): the admitted gap "
             "would grow with the distance from the coordinate origin, so the outcome would change under translation; zero expected")


def run(ctx, col, quals: tuple, rule: str = "R-RTOL"):
    col.rule(rule, RULE_TEXT, floor=1)
    hits = 0
    for q in quals:
        d = ctx.repo.get_def(q)
        for c in find(d):
            hits += 1
            col.bad(rule, d.qualname, d.loc(c), "positions are compared with an absolute tolerance only",
                    f"`{norm_src(c)[:80]}` compares node positions with the default relative tolerance (rtol=1e-5): far from the origin, points that are a "
                    f"visible distance apart pass as coincident", stmt="rtol-pos", definite=True)
    col.ok(rule, "rtol-scan", "", f"{len(quals)} functions looked at for relative-tolerance comparisons of positions", f"{hits} hit(s)", stmt="rtol-scan")
    return hits


def run_conjoined(ctx, col, quals: tuple, rule: str = "R-RTOL"):
    """Variant for the volumetric primitives: a centre comparison with the default relative tolerance is admitted only while it is
    conjoined (`and`) with the comparison of the radii of the same end -- then it merely tells which end of a frustum a sphere known
    to sit on one of them belongs to.  Alone, it decides by position only, and far from the origin both ends of a short frustum pass."""
    col.rule(rule, "in the volumetric primitives a centre is compared with a relative tolerance only together with the radius of the same end "
             "(`allclose(c, end.c) and allclose(r, end.r)`): a centre comparison standing alone would, far from the coordinate origin, hold for "
             "both ends of a short frustum, and the wrong end's closed form would be used; zero expected", floor=1)
    hits = 0
    for q in quals:
        d = ctx.repo.get_def(q)
        for c in find(d):
            par = ctx.repo.parent(c)
            ok = isinstance(par, ast.BoolOp) and isinstance(par.op, ast.And) and any(
                v is not c and isinstance(v, ast.Call) and (dotted(v.func) or "").endswith(("allclose", "isclose")) for v in par.values)
            if not ok:
                hits += 1
                col.bad(rule, d.qualname, d.loc(c), "a centre comparison with a relative tolerance is conjoined with the radius comparison",
                        f"`{norm_src(c)[:80]}` stands alone: with the default rtol=1e-5 both ends of a frustum whose length is below 1e-5 of its distance from the "
                        f"origin pass, and the end is chosen by the order of the tests, not by the geometry", stmt="rtol-alone", definite=True)
    col.ok(rule, "rtol-scan", "", f"{len(quals)} functions looked at for centre comparisons standing alone", f"{hits} hit(s)", stmt="rtol-scan")
    return hits
