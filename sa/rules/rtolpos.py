"""Relative tolerance applied to absolute positions (syntactic companion of the geometric-type rule).

`np.allclose(p, q)` / `np.isclose(p, q)` compare with `atol + rtol * |q|`; the default rtol = 1e-5 makes the admitted gap grow
with the distance of the points from the coordinate origin.  Where the operands are node positions (`.xyz()`, `.center`,
`xyz` columns) the outcome of the test changes when the neuron is translated -- unless rtol=0 is passed.
"""

from __future__ import annotations

import ast

from ..model import Def, dotted, norm_src, own_nodes
from ..util import expand_names


def _is_position(d, e) -> bool:
    for x in expand_names(d, e):
        for n in ast.walk(x):
            if isinstance(n, ast.Call) and isinstance(n.func, ast.Attribute) and n.func.attr in ("xyz", "xyzw"):
                return True
            if isinstance(n, ast.Attribute) and n.attr in ("center", "c1", "c2"):
                return True
    return False


def find(d: Def):
    out = []
    for c in own_nodes(d):
        if isinstance(c, ast.Call) and (dotted(c.func) or "") in ("np.allclose", "np.isclose", "numpy.allclose", "numpy.isclose") and len(c.args) >= 2:
            rt = next((k.value for k in c.keywords if k.arg == "rtol"), c.args[2] if len(c.args) > 2 else None)
            if isinstance(rt, ast.Constant) and rt.value == 0:
                continue
            if _is_position(d, c.args[0]) or _is_position(d, c.args[1]):
                # a difference of positions is fine
                if all(isinstance(a, ast.BinOp) and isinstance(a.op, ast.Sub) for a in c.args[:1]):
                    continue
                out.append(c)
    return out


RULE_TEXT = ("node positions are never compared with a relative tolerance (np.allclose / np.isclose with rtol != 0 on .xyz() / .center operands): the admitted gap "
             "would grow with the distance from the coordinate origin, so the outcome would change under translation; zero expected")


def run(ctx, col, quals: tuple, rule: str = "R-RTOL"):
    col.rule(rule, RULE_TEXT, floor=1)
    hits = 0
    for q in quals:
        d = ctx.repo.get_def(q)
        for c in find(d):
            hits += 1
            col.bad(rule, d.qualname, d.loc(c), "positions are compared with an absolute tolerance only",
                    f"`{norm_src(c)[:80]}` compares node positions with the default relative tolerance (rtol=1e-5): far from the origin, points that are a "
                    f"visible distance apart pass as coincident", stmt="rtol-pos", definite=True)
    col.ok(rule, "rtol-scan", "", f"{len(quals)} functions looked at for relative-tolerance comparisons of positions", f"{hits} hit(s)", stmt="rtol-scan")
    return hits
