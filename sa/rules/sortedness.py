"""Binary search needs a sorted table.

`np.searchsorted(A, v)` (and `bisect.*`) is right only when A is sorted.  The id and parent-id columns of a well-formed
tree / table are not sorted in general (ids are arbitrary distinct integers in files; parents of a depth-first numbered
tree are not monotone), so a search in one of them -- directly or through a plain alias -- without `sorter=` is a
definite error; a search in anything whose sortedness is not evident is UNRESOLVED.  Evidently sorted: np.sort(.),
np.cumsum(.), np.arange(.), np.unique(.), sorted(.), A[np.argsort(A)], np.linspace(.).
"""

from __future__ import annotations

import ast

from ..model import Def, dotted, norm_src, own_nodes
from ..util import expand_names

SORTED_MAKERS = ("sort", "cumsum", "arange", "unique", "sorted", "linspace", "cumulative_sum")
ID_WORDS = ("pid", "pids", "parent", "ids", "id")


def _evidently_sorted(e) -> bool:
    if isinstance(e, ast.Call):
        fn = (dotted(e.func) or "").split(".")[-1] if dotted(e.func) else (e.func.attr if isinstance(e.func, ast.Attribute) else "")
        if fn in SORTED_MAKERS:
            return True
    if isinstance(e, ast.Subscript) and isinstance(e.slice, ast.Call) and (dotted(e.slice.func) or "").endswith("argsort"):
        return True
    return False


def _is_id_column(e) -> bool:
    for n in ast.walk(e):
        if isinstance(n, ast.Call) and isinstance(n.func, ast.Attribute) and n.func.attr in ("pid", "id") and not n.args:
            return True
        if isinstance(n, ast.Attribute) and n.attr in ("pid", "id") and isinstance(n.value, ast.Name) and n.value.id == "names":
            return True
        if isinstance(n, ast.Name) and n.id.lower() in ("pids", "ids", "old_ids", "old_pids", "pid", "new_pids"):
            return True
    return False


def find(d: Def):
    out = []
    for c in own_nodes(d):
        if not isinstance(c, ast.Call):
            continue
        fn = dotted(c.func) or (c.func.attr if isinstance(c.func, ast.Attribute) else "")
        last = fn.split(".")[-1]
        if last == "searchsorted":
            srt = next((k.value for k in c.keywords if k.arg == "sorter"), None)
            if srt is not None:
                # with sorter=S the result counts positions in the SORTED order: it addresses rows only through S[...]
                out.append((c, srt, "sorter-use"))
                continue
            table = c.args[0] if fn.startswith(("np.", "numpy.")) and c.args else (c.func.value if isinstance(c.func, ast.Attribute) else None)
        elif fn.startswith("bisect.") or last in ("bisect_left", "bisect_right", "insort"):
            table = c.args[0] if c.args else None
        else:
            continue
        if table is None:
            continue
        exps = expand_names(d, table)
        if any(_evidently_sorted(e) for e in exps):
            out.append((c, table, "sorted"))
        elif any(_is_id_column(e) for e in exps):
            out.append((c, table, "id-column"))
        else:
            out.append((c, table, "unknown"))
    return out


def _stmt_of(d, node):
    best = None
    for st in own_nodes(d):
        if isinstance(st, ast.stmt) and any(x is node for x in ast.walk(st)):
            if best is None or sum(1 for _ in ast.walk(st)) < sum(1 for _ in ast.walk(best)):
                best = st
    return best


def check(ctx, col, rule: str, modules: tuple, what: str = "a binary search is made in a table that is sorted"):
    n = hits = 0
    for d in ctx.repo.all_defs():
        if d.module.name not in modules or d.is_lambda:
            continue
        n += 1
        for c, table, kind in find(d):
            hits += 1
            if kind == "sorter-use":
                srt = norm_src(table)
                # is the call (or a name bound to it / to its .astype()) only ever used as an index into the sorter?
                st = _stmt_of(d, c)
                bound = None
                if isinstance(st, ast.Assign) and len(st.targets) == 1 and isinstance(st.targets[0], ast.Name) and any(x is c for x in ast.walk(st.value)):
                    inner = st.value
                    while isinstance(inner, ast.Call) and isinstance(inner.func, ast.Attribute) and inner.func.attr in ("astype", "copy") and inner.func.value is not c:
                        inner = inner.func.value
                    direct_index = isinstance(st.value, ast.Subscript) and norm_src(st.value.value) == srt and any(x is c for x in ast.walk(st.value.slice))
                    if not direct_index:
                        bound = st.targets[0].id
                else:
                    direct_index = any(isinstance(p_, ast.Subscript) and norm_src(p_.value) == srt and any(x is c for x in ast.walk(p_.slice)) for p_ in own_nodes(d))
                if bound is None:
                    if direct_index:
                        col.ok(rule, d.qualname, d.loc(c), what, f"positions in the sorted order are mapped back through `{srt}[...]`", stmt="searchsorted-sorter")
                    else:
                        col.unresolved(rule, d.qualname, d.loc(c), what, "use of the search result not followed", stmt="searchsorted-sorter")
                else:
                    uses = [n_ for n_ in own_nodes(d) if isinstance(n_, ast.Name) and n_.id == bound and isinstance(n_.ctx, ast.Load)]
                    through = [p_ for p_ in own_nodes(d) if isinstance(p_, ast.Subscript) and norm_src(p_.value) == srt
                               and any(isinstance(x, ast.Name) and x.id == bound for x in ast.walk(p_.slice))]
                    n_through = sum(1 for p_ in through for x in ast.walk(p_.slice) if isinstance(x, ast.Name) and x.id == bound)
                    if uses and n_through == 0:
                        col.bad(rule, d.qualname, d.loc(c), what,
                                f"`{norm_src(st)[:90]}`: with `sorter={srt}` the result counts positions in the SORTED order; `{bound}` is then used as it is "
                                f"(never as `{srt}[{bound}]`), i.e. ranks are taken for row positions -- right only when the table already is in sorted order",
                                stmt="searchsorted-sorter", definite=True)
                    elif uses and n_through == len(uses):
                        col.ok(rule, d.qualname, d.loc(c), what, f"`{bound}` is only used through `{srt}[...]`", stmt="searchsorted-sorter")
                    else:
                        col.unresolved(rule, d.qualname, d.loc(c), what, f"`{bound}` is used both through `{srt}[...]` and directly", stmt="searchsorted-sorter")
            elif kind == "sorted":
                col.ok(rule, d.qualname, d.loc(c), what, f"`{norm_src(table)[:50]}` is sorted by construction", stmt="searchsorted")
            elif kind == "id-column":
                col.bad(rule, d.qualname, d.loc(c), what,
                        f"`{norm_src(c)[:80]}` searches the id / parent-id column `{norm_src(table)[:40]}` as if it were sorted: ids are arbitrary distinct integers "
                        f"and the parents of a depth-first numbered tree are not monotone, so the search returns positions of other nodes", stmt="searchsorted", definite=True)
            else:
                col.unresolved(rule, d.qualname, d.loc(c), what, f"sortedness of `{norm_src(table)[:50]}` is not evident", stmt="searchsorted")
    col.ok(rule, "searchsorted-scan", "", f"{n} functions looked at for binary searches", f"{hits} site(s)", stmt="searchsorted-scan")
    return hits


RULE_TEXT = ("binary search (np.searchsorted / bisect) only in tables that are sorted by construction; a search in an id / parent-id column without `sorter=` is a "
             "violation (ids are arbitrary, parents are not monotone), anything else is UNRESOLVED")


def run(ctx, col, modules: tuple, rule: str = "R-SORTED"):
    col.rule(rule, RULE_TEXT, floor=1)
    return check(ctx, col, rule, tuple(modules))
