"""Binary search needs a sorted table.

`np.searchsorted(A, v)` (and `bisect.*`) is right only when A is sorted.  The id and parent-id columns of a well-formed
tree / table are not sorted in general (ids are arbitrary distinct integers in files; parents of a depth-first numbered
tree are not monotone), so a search in one of them -- directly or through a plain alias -- without `sorter=` is a
definite error; a search in anything whose sortedness is not evident is UNRESOLVED.  Evidently sorted: np.sort(.),
np.cumsum(.), np.arange(.), np.unique(.), sorted(.), A[np.argsort(A)], np.linspace(.).
"""

from __future__ import annotations

import ast

from ..model import Def, dotted, norm_src, own_nodes
from ..util import expand_names

SORTED_MAKERS = ("sort", "cumsum", "arange", "unique", "sorted", "linspace", "cumulative_sum")
ID_WORDS = ("pid", "pids", "parent", "ids", "id")


def _evidently_sorted(e) -> bool:
    if isinstance(e, ast.Call):
        fn = (dotted(e.func) or "").split(".")[-1] if dotted(e.func) else (e.func.attr if isinstance(e.func, ast.Attribute) else "")
        if fn in SORTED_MAKERS:
            return True
    if isinstance(e, ast.Subscript) and isinstance(e.slice, ast.Call) and (dotted(e.slice.func) or "").endswith("argsort"):
        return True
    return False


def _is_id_column(e) -> bool:
    for n in ast.walk(e):
        if isinstance(n, ast.Call) and isinstance(n.func, ast.Attribute) and n.func.attr in ("pid", "id") and not n.args:
            return True
        if isinstance(n, ast.Attribute) and n.attr in ("pid", "id") and isinstance(n.value, ast.Name) and n.value.id == "names":
            return True
        if isinstance(n, ast.Name) and n.id.lower() in ("pids", "ids", "old_ids", "old_pids", "pid", "new_pids"):
            return True
    return False


def find(d: Def):
    out = []
    for c in own_nodes(d):
        if not isinstance(c, ast.Call):
            continue
        fn = dotted(c.func) or (c.func.attr if isinstance(c.func, ast.Attribute) else "")
        last = fn.split(".")[-1]
        if last == "searchsorted":
            if any(k.arg == "sorter" for k in c.keywords):
                continue
            table = c.args[0] if fn.startswith(("np.", "numpy.")) and c.args else (c.func.value if isinstance(c.func, ast.Attribute) else None)
        elif fn.startswith("bisect.") or last in ("bisect_left", "bisect_right", "insort"):
            table = c.args[0] if c.args else None
        else:
            continue
        if table is None:
            continue
        exps = expand_names(d, table)
        if any(_evidently_sorted(e) for e in exps):
            out.append((c, table, "sorted"))
        elif any(_is_id_column(e) for e in exps):
            out.append((c, table, "id-column"))
        else:
            out.append((c, table, "unknown"))
    return out


def check(ctx, col, rule: str, modules: tuple, what: str = "a binary search is made in a table that is sorted"):
    n = hits = 0
    for d in ctx.repo.all_defs():
        if d.module.name not in modules or d.is_lambda:
            continue
        n += 1
        for c, table, kind in find(d):
            hits += 1
            if kind == "sorted":
                col.ok(rule, d.qualname, d.loc(c), what, f"`{norm_src(table)[:50]}` is sorted by construction", stmt="searchsorted")
            elif kind == "id-column":
                col.bad(rule, d.qualname, d.loc(c), what,
                        f"`{norm_src(c)[:80]}` searches the id / parent-id column `{norm_src(table)[:40]}` as if it were sorted: ids are arbitrary distinct integers "
                        f"and the parents of a depth-first numbered tree are not monotone, so the search returns positions of other nodes", stmt="searchsorted", definite=True)
            else:
                col.unresolved(rule, d.qualname, d.loc(c), what, f"sortedness of `{norm_src(table)[:50]}` is not evident", stmt="searchsorted")
    col.ok(rule, "searchsorted-scan", "", f"{n} functions looked at for binary searches", f"{hits} site(s)", stmt="searchsorted-scan")
    return hits


RULE_TEXT = ("binary search (np.searchsorted / bisect) only in tables that are sorted by construction; a search in an id / parent-id column without `sorter=` is a "
             "violation (ids are arbitrary, parents are not monotone), anything else is UNRESOLVED")


def run(ctx, col, modules: tuple, rule: str = "R-SORTED"):
    col.rule(rule, RULE_TEXT, floor=1)
    return check(ctx, col, rule, tuple(modules))
