"""Traversal callbacks: what `leave` returns is what the parent receives.

`Tree.traverse(leave=f)` calls f(node, results_of_children) bottom-up and hands f's return value
to the parent's call in that list.  A callback that looks at the elements of its second parameter
(iterates it and reads attributes, indexes it, passes it on) while one of its own paths returns
None / nothing feeds None to the parent's call: the attribute access fails on the first node that
has a child, or -- if the element is only passed on -- a None takes the place of the child's value.
"""

from __future__ import annotations

import ast

from ..model import Def, norm_src


def _always_returns_value(body) -> bool:
    if not body:
        return False
    last = body[-1]
    if isinstance(last, ast.Return):
        return True
    if isinstance(last, ast.Raise):
        return True
    if isinstance(last, ast.If):
        return _always_returns_value(last.body) and _always_returns_value(last.orelse)
    if isinstance(last, (ast.With,)):
        return _always_returns_value(last.body)
    if isinstance(last, ast.Try):
        return _always_returns_value(last.body) and all(_always_returns_value(h.body) for h in last.handlers)
    if isinstance(last, ast.Match):
        return all(_always_returns_value(c.body) for c in last.cases) and any(
            isinstance(c.pattern, ast.MatchAs) and c.pattern.pattern is None for c in last.cases)
    return False


def _own(fn):
    """nodes of fn without those of nested defs / lambdas"""
    stack = list(fn.body)
    while stack:
        n = stack.pop()
        yield n
        for c in ast.iter_child_nodes(n):
            if isinstance(c, (ast.FunctionDef, ast.AsyncFunctionDef, ast.Lambda, ast.ClassDef)):
                continue
            stack.append(c)


def uses_children(fn: ast.FunctionDef) -> list:
    """places where the elements of the second parameter are looked at"""
    if len(fn.args.args) < 2:
        return []
    ch = fn.args.args[1].arg
    uses = []
    for n in _own(fn):
        if isinstance(n, (ast.For, ast.comprehension)) and isinstance(n.iter, ast.Name) and n.iter.id == ch:
            tv = {x.id for x in ast.walk(n.target) if isinstance(x, ast.Name)}
            scope = n.body if isinstance(n, ast.For) else None
            holder = scope if scope is not None else [p for p in _own(fn) if isinstance(p, (ast.ListComp, ast.GeneratorExp, ast.SetComp, ast.DictComp))
                                                      and any(g is n for g in p.generators)]
            for blk in holder:
                for x in ast.walk(blk):
                    if isinstance(x, ast.Attribute) and isinstance(x.value, ast.Name) and x.value.id in tv:
                        uses.append(x)
        if isinstance(n, ast.Subscript) and isinstance(n.value, ast.Name) and n.value.id == ch:
            uses.append(n)
        if isinstance(n, ast.Call) and any((isinstance(a, ast.Name) and a.id == ch) or (isinstance(a, ast.Starred) and isinstance(a.value, ast.Name) and a.value.id == ch)
                                           for a in n.args) and \
                not (isinstance(n.func, ast.Name) and n.func.id in ("len", "enumerate", "list", "tuple", "iter", "reversed", "sorted", "bool")):
            uses.append(n)
    return uses


def none_paths(fn: ast.FunctionDef) -> list:
    out = []
    for n in _own(fn):
        if isinstance(n, ast.Return) and (n.value is None or (isinstance(n.value, ast.Constant) and n.value.value is None)):
            out.append(n)
    if not _always_returns_value(fn.body):
        out.append(fn)
    return out


def check(ctx, col, rule: str, d: Def, what: str = "the value a node's callback returns is what its parent receives for that child"):
    """every `<x>.traverse(leave=<local def>)` call in d"""
    n = 0
    for c in ast.walk(d.node):
        if not (isinstance(c, ast.Call) and isinstance(c.func, ast.Attribute) and c.func.attr == "traverse"):
            continue
        kw = next((k.value for k in c.keywords if k.arg == "leave"), None)
        if not isinstance(kw, ast.Name):
            continue
        fn = next((x for x in ast.walk(d.node) if isinstance(x, ast.FunctionDef) and x.name == kw.id), None)
        if fn is None:
            continue
        n += 1
        uses, nones = uses_children(fn), none_paths(fn)
        if uses and nones:
            at = nones[0]
            col.bad(rule, d.qualname, d.loc(at), what,
                    f"`{fn.name}` reads its children's results (`{norm_src(uses[0])[:50]}`) but " +
                    (f"`{norm_src(at)}`" if isinstance(at, ast.Return) else "a path falls off the end, which") +
                    " returns None: the parent of every node reached on that path receives None in place of the child's value",
                    stmt=f"leave:{fn.name}", definite=True)
        else:
            col.ok(rule, d.qualname, d.loc(fn), what, f"`{fn.name}`: {len(uses)} read(s) of the children's results, every path returns a value" if uses
                   else f"`{fn.name}` does not look at its children's results", stmt=f"leave:{fn.name}")
    return n
