"""The norm of a stack of vectors without an axis.

`np.linalg.norm(X)` of a 2-D array is ONE number (the Frobenius norm of the whole array), not one length per row.  Where X stacks the displacement vectors
of several children / segments (`np.stack([c.center for c in children]) - p`, `xyz[1:] - xyz[:-1]`, `np.array([...vectors...])`) every row then gets the
same, too large, length sqrt(sum of all squared lengths).  With one row the two agree, so single-child nodes hide it.
Reported: np.linalg.norm without axis= (and without ord meaning a matrix norm) whose argument is provably a stack of vectors.  Zero expected; examples kept.
"""
from __future__ import annotations

import ast

from ..model import dotted, norm_src


def _single(fn):
    out, twice = {}, set()
    for n in ast.walk(fn):
        if isinstance(n, ast.Assign) and len(n.targets) == 1 and isinstance(n.targets[0], ast.Name):
            k = n.targets[0].id
            if k in out:
                twice.add(k)
            out[k] = n.value
    for k in twice:
        out.pop(k, None)
    return out


def _is_stack(e, b, depth=0) -> bool:
    """provably 2-D: np.stack / np.array / np.vstack of a list or comprehension of vector-valued items, consecutive-row differences `A[1:] - A[:-1]`
    of such, a difference of a stack and anything, np.diff(..., axis=0) of a stack"""
    if depth > 3:
        return False
    if isinstance(e, ast.Name) and e.id in b:
        return _is_stack(b[e.id], b, depth + 1)
    if isinstance(e, ast.Call):
        fn = (dotted(e.func) or "").rsplit(".", 1)[-1]
        if fn in ("stack", "vstack", "array", "asarray") and e.args and isinstance(e.args[0], (ast.ListComp, ast.List, ast.GeneratorExp)):
            elt = e.args[0].elt if isinstance(e.args[0], (ast.ListComp, ast.GeneratorExp)) else (e.args[0].elts[0] if e.args[0].elts else None)
            if elt is not None and any(w in norm_src(elt) for w in (".center", ".xyz()", ".c1", ".c2", "xyz")):
                return True
        if fn == "diff" and e.args and _is_stack(e.args[0], b, depth + 1):
            return True
    if isinstance(e, ast.BinOp) and isinstance(e.op, (ast.Sub, ast.Add)):
        return _is_stack(e.left, b, depth + 1) or _is_stack(e.right, b, depth + 1)
    return False


def find(fn) -> list:
    b = _single(fn)
    out = []
    for c in ast.walk(fn):
        if isinstance(c, ast.Call) and (dotted(c.func) or "").endswith("linalg.norm") and len(c.args) == 1 and not any(k.arg in ("axis", "ord") for k in c.keywords):
            if _is_stack(c.args[0], b):
                out.append(c)
    return out


def check(ctx, col, rule: str, modules: tuple):
    import os
    from ..model import Repo
    n = hits = 0
    for d in ctx.repo.all_defs():
        if d.module.name not in modules or d.is_lambda or d.parent is not None:
            continue
        n += 1
        for c in find(d.node):
            hits += 1
            col.bad(rule, d.qualname, d.loc(c), "one length per displacement vector",
                    f"`{norm_src(c)[:80]}` takes the norm of a whole stack of vectors without axis=: that is one Frobenius norm for all rows, so every child / segment gets the "
                    f"length sqrt(h_1^2 + ... + h_k^2) -- right for one row only (nodes with a single child), too long at every furcation", stmt="norm-axis", definite=True)
    here = os.path.dirname(os.path.dirname(os.path.abspath(__file__)))
    fx = Repo(here, pkg="fixtures")
    found = {d.name: len(find(d.node)) for d in fx.all_defs() if d.module.name.endswith("normaxis_positive") and not d.is_lambda and d.parent is None}
    ok = found.get("heights_all_children") == 1 and found.get("heights_per_child") == 0 and found.get("one_vector") == 0
    col.check(ok, rule, "sa.fixtures.normaxis_positive", "sa/fixtures/normaxis_positive.py:1",
              f"lint recognises its kept positive examples ({n} defs scanned, {hits} hit(s))", str(found), f"fixture results {found}", stmt="fixture")
    return hits


RULE_TEXT = ("lengths of several displacement vectors are taken row by row: no np.linalg.norm without axis= over a provable stack of vectors (it is one Frobenius norm for "
             "all rows); zero expected, positive examples kept")


def run(ctx, col, modules: tuple, rule: str = "R-NORMAXIS"):
    col.rule(rule, RULE_TEXT, floor=1)
    return check(ctx, col, rule, tuple(modules))
