"""Rows of the node table selected by position relative to a node.

`ids[n:]`, `tree.pid()[start:]`, `topology[0][root:]` -- taking "the rows from node n on" (or up to it) as "the nodes below n" is right only for a
table in which every parent is stored before its children.  Unsorted tables are legal input everywhere (files are read in row order, re-rooting
without sorting keeps positions), so a routine that slices the id / parent columns by a node position silently loses the descendants stored in front
of it.  Reported: a slice of an id / parent-id column whose bound is a parameter of the enclosing function.  Zero expected; examples kept.
"""
from __future__ import annotations

import ast
import re

from ..model import norm_src

COL = re.compile(r"(\.id\(\)|\.pid\(\)|^ids$|^pids$|^old_ids$|^old_pids$|^topology\[[01]\]$|\.ndata\[.*\.(id|pid)\]$)")


def _params(fn):
    a = fn.args
    return {x.arg for x in a.posonlyargs + a.args + a.kwonlyargs} - {"self", "cls"}


def find(fn) -> list:
    if isinstance(fn, ast.Lambda):
        return []
    ps = _params(fn)
    # names computed from the parameters (int(n), max(kwargs.get("root", 0), 0), ...): closure over plain assignments
    a_ = fn.args
    alias = set(ps) | ({a_.kwarg.arg} if a_.kwarg else set()) | ({a_.vararg.arg} if a_.vararg else set())
    changed = True
    while changed:
        changed = False
        for n in ast.walk(fn):
            if isinstance(n, ast.Assign) and len(n.targets) == 1 and isinstance(n.targets[0], ast.Name) and n.targets[0].id not in alias:
                v = n.value
                if isinstance(v, (ast.Call, ast.Name, ast.BinOp, ast.IfExp, ast.Subscript)) and any(isinstance(x, ast.Name) and x.id in alias for x in ast.walk(v)) \
                        and not any(isinstance(x, ast.Call) and (isinstance(x.func, ast.Attribute) and x.func.attr in ("id", "pid", "shape", "number_of_nodes") or
                                                                 isinstance(x.func, ast.Name) and x.func.id == "len") for x in ast.walk(v)):
                    alias.add(n.targets[0].id)
                    changed = True
    # names unpacked from a topology parameter: ids, pids = topology
    cols = set()
    for n in ast.walk(fn):
        if isinstance(n, ast.Assign) and len(n.targets) == 1 and isinstance(n.targets[0], ast.Tuple) and isinstance(n.value, ast.Name) and n.value.id == "topology":
            cols |= {t.id for t in n.targets[0].elts if isinstance(t, ast.Name)}
    out = []
    for s in ast.walk(fn):
        if isinstance(s, ast.Subscript) and isinstance(s.slice, ast.Slice):
            base = norm_src(s.value)
            if not (COL.search(base) or (isinstance(s.value, ast.Name) and s.value.id in cols)):
                continue
            for b in (s.slice.lower, s.slice.upper):
                if isinstance(b, ast.Name) and b.id in alias:
                    out.append((s, b.id))
    return out


def check(ctx, col, rule: str, modules: tuple):
    import os
    from ..model import Repo
    n = hits = 0
    for d in ctx.repo.all_defs():
        if d.module.name not in modules or d.is_lambda or d.parent is not None:
            continue
        n += 1
        for s, name in find(d.node):
            hits += 1
            col.bad(rule, d.qualname, d.loc(s), "nodes are found through the parent relation, never by their position relative to another node",
                    f"`{norm_src(s)}` takes the rows from position `{name}` on (or up to it) for the part of the tree below / above node `{name}`: in a table that is not "
                    f"stored parents-first a descendant can sit in front of its ancestor, and is then silently left out", stmt=f"rowslice:{name}", definite=True)
    here = os.path.dirname(os.path.dirname(os.path.abspath(__file__)))
    fx = Repo(here, pkg="fixtures")
    found = {d.name: len(find(d.node)) for d in fx.all_defs() if d.module.name.endswith("rowslice_positive") and not d.is_lambda and d.parent is None}
    ok = found.get("subtree_rows_after") == 2 and found.get("children_from_start") == 2 and found.get("all_but_root") == 0
    col.check(ok, rule, "sa.fixtures.rowslice_positive", "sa/fixtures/rowslice_positive.py:1",
              f"lint recognises its kept positive examples ({n} defs scanned, {hits} hit(s))", str(found), f"fixture results {found}", stmt="fixture")
    return hits


RULE_TEXT = ("the id / parent-id columns are never sliced by a node position handed in as a parameter (`ids[n:]`, `tree.pid()[start:]`): descendants are not "
             "guaranteed to be stored after their ancestors; zero expected, positive examples kept")


def run(ctx, col, modules: tuple, rule: str = "R-ROWSLICE"):
    col.rule(rule, RULE_TEXT, floor=1)
    return check(ctx, col, rule, tuple(modules))
