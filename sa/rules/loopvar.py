"""A loop variable that takes over a name with a life of its own.

    (new_id, new_pid), mapping = to_sub_topology(sub)
    n = new_id.shape[0]                       # the array is used ...
    for new_id, old_id in enumerate(mapping): # ... the counter of a later loop takes its name ...
        out[new_id] = old_id
    ndata[names.id] = new_id                  # ... and what is read afterwards is the last counter value (or the array, if the loop did not run)

Decided on the CFG of the function.  Reported only when all of these hold for a name t:
  * t is bound, before the loop, from the result of a call (directly or by unpacking it) and is read between that binding and the loop -- it has a role of its own;
  * a `for` over enumerate(...) / range(...) / zip(...) re-binds t as (part of) its target;
  * some read of t is reachable from the loop's exit before t is bound again.
The read then sees two unrelated things depending on whether the loop ran.  Zero expected; kept examples in sa/fixtures/loopvar_positive.py.
"""
from __future__ import annotations

import ast

from .. import cfg as cfgmod
from ..model import norm_src
from .deadstore import _header, _reads


def _target_names(t):
    return [n.id for n in ast.walk(t) if isinstance(n, ast.Name)]


def _binds(st, name) -> bool:
    if isinstance(st, ast.Assign):
        return any(name in _target_names(t) for t in st.targets if not isinstance(t, (ast.Subscript, ast.Attribute)))
    if isinstance(st, ast.AnnAssign) and st.value is not None:
        return isinstance(st.target, ast.Name) and st.target.id == name
    if isinstance(st, (ast.For, ast.AsyncFor)):
        return name in _target_names(st.target)
    return False


def find(fn) -> list:
    if isinstance(fn, ast.Lambda):
        return []
    own = []

    def collect(body):
        for st in body:
            if isinstance(st, (ast.FunctionDef, ast.AsyncFunctionDef, ast.ClassDef)):
                continue
            own.append(st)
            for f in ("body", "orelse", "finalbody"):
                collect(getattr(st, f, []) or [])
            for h in getattr(st, "handlers", []) or []:
                collect(h.body)
            for c in getattr(st, "cases", []) or []:
                collect(c.body)
    collect(fn.body)
    loops = [st for st in own if isinstance(st, ast.For) and isinstance(st.iter, ast.Call) and isinstance(st.iter.func, ast.Name) and st.iter.func.id in ("enumerate", "range", "zip")]
    if not loops:
        return []
    g = None
    out = []
    for lp in loops:
        for t in _target_names(lp.target):
            # a binding from a call result before the loop ...
            prior = [st for st in own if st.lineno < lp.lineno and isinstance(st, ast.Assign) and _binds(st, t) and isinstance(st.value, ast.Call)]
            if not prior:
                continue
            # ... that is read before the loop
            first = min(p.lineno for p in prior)
            used_before = any(isinstance(n, ast.Name) and n.id == t and isinstance(n.ctx, ast.Load) and first < n.lineno < lp.lineno for st in own for n in ast.walk(st)
                              if not isinstance(st, (ast.For, ast.While, ast.If, ast.With, ast.Try)) or n in ast.walk(_hdr(st)))
            if not used_before:
                continue
            if g is None:
                g = cfgmod.CFG(fn.body, getattr(fn, "name", ""))
            n0 = g.node_of(lp)
            if n0 is None:
                continue
            inside = set()
            for b in lp.body:
                for x in ast.walk(b):
                    inside.add(id(x))
            seen, stack, hit = set(), [m for m, _l in g.succ[n0] if m.ast is None or id(m.ast) not in inside], None
            while stack and hit is None:
                n = stack.pop()
                if n in seen or (n.ast is not None and id(n.ast) in inside) or n is n0:
                    continue
                seen.add(n)
                if any(_reads(h, t) for h in _header(n)):
                    hit = n
                    break
                if n.ast is not None and _binds(n.ast, t):
                    continue
                stack.extend(m for m, _l in g.succ[n])
            if hit is not None:
                out.append((lp, t, prior[0], hit.ast))
    return out


def _hdr(st):
    if isinstance(st, (ast.For, ast.AsyncFor)):
        return st.iter
    if isinstance(st, (ast.While, ast.If)):
        return st.test
    return ast.Pass()


RULE_TEXT = ("no loop counter takes over the name of a value that is still needed: a name bound from a call result and used, then re-bound as the target of a for over "
             "enumerate/range/zip, then read after the loop (reaching definitions on the CFG) -- the read sees the last counter value, or the old value when the loop did not run; "
             "zero expected, examples kept")


def run(ctx, col, modules, rule="R-LOOPVAR"):
    import os
    from ..model import Repo
    col.rule(rule, RULE_TEXT, floor=1)
    n = hits = 0
    for d in ctx.repo.all_defs():
        if d.module.name not in modules or d.is_lambda:
            continue
        n += 1
        for lp, t, prior, use in find(d.node):
            hits += 1
            col.bad(rule, d.qualname, d.loc(lp), "a value that is read after a loop is not the loop's counter",
                    f"`{norm_src(prior)[:70]}` binds `{t}` and it is used; `for {norm_src(lp.target)} in {norm_src(lp.iter)[:40]}` re-binds `{t}`; `{norm_src(use)[:70]}` after the loop then reads "
                    f"the last value of the loop variable (an int / an element), not what was bound before", stmt=f"loopvar:{t}", definite=True)
    here = os.path.dirname(os.path.dirname(os.path.abspath(__file__)))
    fx = Repo(here, pkg="fixtures")
    found = {d.name: len(find(d.node)) for d in fx.all_defs() if d.module.name.endswith("loopvar_positive") and not d.is_lambda and d.parent is None}
    ok = found.get("counter_takes_over") == 1 and found.get("counter_not_read_after") == 0 and found.get("default_then_loop") == 0 and found.get("rebound_after_loop") == 0
    col.check(ok, rule, "sa.fixtures.loopvar_positive", "sa/fixtures/loopvar_positive.py:1", f"lint recognises its kept examples ({n} defs scanned, {hits} hit(s))", str(found),
              f"fixture results {found}", stmt="fixture")
    return hits
