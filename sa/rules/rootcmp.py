"""Comparisons of a parent-id value with an integer constant.

The only constant a parent id is legitimately compared with is the root marker -1, and only
for (in)equality: ids start at any offset >= 0, so `<= 0`, `< 1`, `> 0`, `== 0` ... confuse
the first real id with "no parent".  Each comparison is tabulated over parent ids
{-1, 0, 1, 2, 7} and must equal the table of `== -1` or of `!= -1`.
"""

from __future__ import annotations

import ast

from ..model import Def, dotted, norm_src, own_nodes
from ..util import const_int

DOMAIN = [-1, 0, 1, 2, 7]
IS_ROOT = [True, False, False, False, False]


def is_parent_id_expr(e: ast.AST) -> bool:
    for n in ast.walk(e):
        if isinstance(n, ast.Attribute) and n.attr == "pid":
            return True
        if isinstance(n, ast.Name) and (n.id in ("pids", "old_pids", "new_pids", "sub_pid", "new_pid") or n.id.endswith("_pids")):
            return True
    return False


def comparisons(d: Def):
    for n in own_nodes(d):
        if isinstance(n, ast.Compare) and len(n.ops) == 1:
            a, b = n.left, n.comparators[0]
            ca, cb = const_int(a), const_int(b)
            if cb is not None and ca is None and is_parent_id_expr(a) and not _is_count(a):
                yield n, n.ops[0], cb, False
            elif ca is not None and cb is None and is_parent_id_expr(b) and not _is_count(b):
                yield n, n.ops[0], ca, True


def _is_count(e: ast.AST) -> bool:
    """count_nonzero(...), len(...), .argmax(), .sum(): the value compared is not a parent id"""
    if isinstance(e, ast.Call):
        f = dotted(e.func) or (e.func.attr if isinstance(e.func, ast.Attribute) else "")
        last = f.rsplit(".", 1)[-1]
        return last in ("count_nonzero", "len", "argmax", "argmin", "sum", "any", "all", "nonzero", "shape")
    if isinstance(e, ast.Subscript):
        return _is_count(e.value)
    if isinstance(e, ast.Attribute) and e.attr in ("shape", "size"):
        return True
    return False


def table(op, c: int, flipped: bool):
    out = []
    for v in DOMAIN:
        a, b = (c, v) if flipped else (v, c)
        r = {ast.Eq: a == b, ast.NotEq: a != b, ast.Lt: a < b, ast.LtE: a <= b, ast.Gt: a > b, ast.GtE: a >= b}.get(type(op))
        if r is None:
            return None
        out.append(r)
    return out


def check(ctx, col, rule: str, modules: tuple):
    n = 0
    for d in ctx.repo.all_defs():
        if d.module.name not in modules or d.is_lambda:
            continue
        for cmp_, op, c, flipped in comparisons(d):
            t = table(op, c, flipped)
            if t is None:
                continue
            n += 1
            ok = t == IS_ROOT or t == [not x for x in IS_ROOT]
            col.check(ok, rule, d.qualname, d.loc(cmp_), f"`{norm_src(cmp_)}` separates exactly the root marker",
                      f"{t}", f"`{norm_src(cmp_)}` is true for parent ids {[v for v, x in zip(DOMAIN, t) if x]}: a real id "
                      f"(ids may start at 0) is confused with the 'no parent' marker -1", stmt="cmp:" + norm_src(cmp_))
    return n
