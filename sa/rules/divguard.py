"""A guard against division by zero must test the divisor.

`if (t := E) == 0: return c` ... `return P / Q`: reading through the names bound by walrus / plain assignment, the tested
expression must be the divisor Q.  When it is the dividend P (and not Q) the guard protects nothing: a zero divisor is
divided by, and a zero dividend -- a legitimate value -- is replaced by the constant.  That is a definite defect of the
guard, whatever the names are."""
from __future__ import annotations

import ast

from ..model import norm_src
from .. import pathcond


def _bindings(fn) -> dict:
    """name -> the one expression it is bound to in fn (walrus or plain assignment); names bound twice are dropped"""
    out, twice = {}, set()
    for n in ast.walk(fn):
        tgt = val = None
        if isinstance(n, ast.NamedExpr) and isinstance(n.target, ast.Name):
            tgt, val = n.target.id, n.value
        elif isinstance(n, ast.Assign) and len(n.targets) == 1 and isinstance(n.targets[0], ast.Name):
            tgt, val = n.targets[0].id, n.value
        if tgt is not None:
            if tgt in out:
                twice.add(tgt)
            out[tgt] = val
    for t in twice:
        out.pop(t, None)
    return out


def _resolve(e, b, depth=0):
    while depth < 4:
        if isinstance(e, ast.NamedExpr):
            e = e.value
        elif isinstance(e, ast.Name) and e.id in b:
            e = b[e.id]
        else:
            break
        depth += 1
    return norm_src(e)


def check(col, rule, d, what):
    """d: Def whose single `return P / Q` must be guarded by a zero test of Q"""
    fn = d.node
    divs = [r for r in ast.walk(fn) if isinstance(r, ast.Return) and isinstance(r.value, ast.BinOp) and isinstance(r.value.op, ast.Div)]
    if len(divs) != 1:
        col.unresolved(rule, d.qualname, d.loc(), what, f"{len(divs)} returned quotients", stmt="divguard")
        return
    ret = divs[0]
    b = _bindings(fn)
    num, den = _resolve(ret.value.left, b), _resolve(ret.value.right, b)
    tests, complete = pathcond.conditions_at(fn, ret)
    zero = []
    for t, pol in tests:
        if isinstance(t, ast.Compare) and len(t.ops) == 1 and isinstance(t.ops[0], (ast.Eq, ast.NotEq)) \
                and isinstance(t.comparators[0], ast.Constant) and t.comparators[0].value == 0:
            is_nonzero_on_path = (isinstance(t.ops[0], ast.Eq) and not pol) or (isinstance(t.ops[0], ast.NotEq) and pol)
            if is_nonzero_on_path:
                zero.append(_resolve(t.left, b))
    if den in zero:
        col.ok(rule, d.qualname, d.loc(ret), what, f"`{den}` is tested against 0 before `{norm_src(ret.value)}`", stmt="divguard")
    elif zero and num in zero and num != den:
        col.add(rule, d.qualname, d.loc(ret), what, "VIOLATION",
                f"the zero test is on `{num}`, the dividend of `{norm_src(ret.value)}`, not on the divisor `{den}`: a zero divisor is divided by, "
                f"and a zero dividend is replaced by the constant", stmt="divguard", definite=True)
    else:
        col.unresolved(rule, d.qualname, d.loc(ret), what, f"no zero test of the divisor `{den}` recognised on the way to the division", stmt="divguard")
