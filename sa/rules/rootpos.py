"""Root-ness decided by position.

A well-formed tree has its root at position 0 only *when it is sorted*: re-rooting without sorting keeps the new root at its old position,
and tables read without sorting keep the file's row order.  A function that receives a node id and decides "this is the root" /
"nothing to do" by comparing the id with the literal 0 therefore takes the wrong branch for such trees; the root is the node whose
parent is the 'no parent' marker (`Node.is_root()`, `pid == -1`).
Reported: an equality / inequality test between the literal 0 and a parameter that the same function uses as a node id (passed to
`.node(...)`, as `root=...` of a traversal, or as the start of a sub-tree extraction).  Zero expected; examples kept.
"""
from __future__ import annotations

import ast

from ..model import norm_src


def _params(fn):
    a = fn.args
    return [x.arg for x in a.posonlyargs + a.args + a.kwonlyargs if x.arg not in ("self", "cls")]


def _node_id_params(fn) -> set:
    ps = set(_params(fn))
    out = set()
    for c in ast.walk(fn):
        if not isinstance(c, ast.Call):
            continue
        if isinstance(c.func, ast.Attribute) and c.func.attr in ("node", "get_node") and c.args and isinstance(c.args[0], ast.Name) and c.args[0].id in ps:
            out.add(c.args[0].id)
        for k in c.keywords:
            if k.arg == "root" and isinstance(k.value, ast.Name) and k.value.id in ps:
                out.add(k.value.id)
        fname = c.func.attr if isinstance(c.func, ast.Attribute) else (c.func.id if isinstance(c.func, ast.Name) else "")
        if fname in ("redirect_tree", "get_subtree", "get_subtree_impl") and len(c.args) >= 2 and isinstance(c.args[1], ast.Name) and c.args[1].id in ps:
            out.add(c.args[1].id)
    return out


def find(fn) -> list:
    if isinstance(fn, ast.Lambda):
        return []
    ids = _node_id_params(fn)
    if not ids:
        return []
    out = []
    for c in ast.walk(fn):
        if isinstance(c, ast.Compare) and len(c.ops) == 1 and isinstance(c.ops[0], (ast.Eq, ast.NotEq)):
            a, b = c.left, c.comparators[0]
            for x, y in ((a, b), (b, a)):
                if isinstance(x, ast.Name) and x.id in ids and isinstance(y, ast.Constant) and y.value == 0 and not isinstance(y.value, bool):
                    out.append((c, x.id))
    return out


def check(ctx, col, rule: str, modules: tuple):
    import os
    from ..model import Repo
    n = hits = 0
    for d in ctx.repo.all_defs():
        if d.module.name not in modules or d.is_lambda:
            continue
        n += 1
        for c, name in find(d.node):
            hits += 1
            col.bad(rule, d.qualname, d.loc(c), "the root is recognised by its parent marker, never by its position",
                    f"`{norm_src(c)}` takes node `{name}` for the root (or not) by comparing its id with 0: a tree that was re-rooted without sorting, or read "
                    f"without sorting, has its root elsewhere and some other node at position 0, so this branch is taken for the wrong node", stmt=f"root0:{name}", definite=True)
    here = os.path.dirname(os.path.dirname(os.path.abspath(__file__)))
    fx = Repo(here, pkg="fixtures")
    found = {d.name: len(find(d.node)) for d in fx.all_defs() if d.module.name.endswith("rootpos_positive") and not d.is_lambda}
    ok = found.get("reroot_fast_path") == 1 and found.get("cat_needs_reroot") == 1 and found.get("asks_the_node") == 0 and found.get("count_is_zero") == 0
    col.check(ok, rule, "sa.fixtures.rootpos_positive", "sa/fixtures/rootpos_positive.py:1",
              f"lint recognises its kept positive examples ({n} defs scanned, {hits} hit(s))", str(found), f"fixture results {found}", stmt="fixture")
    col.analysed[f"rootpos_defs:{rule}"] = n
    return hits


RULE_TEXT = ("root-ness is never decided by position: no equality test between the literal 0 and a parameter the function uses as a node id (`.node(p)`, `root=p`, "
             "start of a sub-tree) -- the root of an unsorted or re-rooted tree is not at position 0; zero expected, positive examples kept")


def run(ctx, col, modules: tuple, rule: str = "R-ROOTPOS"):
    col.rule(rule, RULE_TEXT, floor=1)
    return check(ctx, col, rule, tuple(modules))
