"""Narrowing casts on the read path.

The parsed table holds ints and floats as Python parsed them; the tree keeps int32 ids / types and float32 coordinates.
A cast of a column (or of the whole table) to a type that cannot hold every admissible value -- 8 / 16 bit integers,
float16 -- silently wraps or rounds: node types are arbitrary non-negative integers (custom labels above 255 exist), ids
exceed 65535 in large reconstructions.
"""

from __future__ import annotations

import ast

from ..model import Def, dotted, norm_src, own_nodes

NARROW = ("uint8", "int8", "uint16", "int16", "float16", "half", "ubyte", "byte", "short", "ushort", "bool_", "bool")


def find(d: Def):
    out = []
    for c in own_nodes(d):
        if isinstance(c, ast.Call) and isinstance(c.func, ast.Attribute) and c.func.attr in ("astype", "view"):
            for a in list(c.args) + [k.value for k in c.keywords]:
                for n in ast.walk(a):
                    nm = n.attr if isinstance(n, ast.Attribute) else (n.id if isinstance(n, ast.Name) else (n.value if isinstance(n, ast.Constant) and isinstance(n.value, str) else None))
                    if nm in NARROW:
                        out.append((c, nm))
                    elif isinstance(n, ast.Name):
                        # a dtype table built in the function: look at its values
                        for s in own_nodes(d):
                            if isinstance(s, (ast.Assign, ast.AnnAssign)) and any(isinstance(t, ast.Name) and t.id == n.id for t in (s.targets if isinstance(s, ast.Assign) else [s.target])) \
                                    or isinstance(s, ast.Call) and isinstance(s.func, ast.Attribute) and s.func.attr == "update" and isinstance(s.func.value, ast.Name) and s.func.value.id == n.id:
                                for m in ast.walk(s):
                                    mm = m.attr if isinstance(m, ast.Attribute) else (m.id if isinstance(m, ast.Name) else None)
                                    if mm in NARROW:
                                        out.append((c, mm))
        elif isinstance(c, ast.Call) and (dotted(c.func) or "").split(".")[-1] in ("array", "asarray", "zeros", "full", "empty") and any(
                k.arg == "dtype" and any((isinstance(m, ast.Attribute) and m.attr in NARROW) for m in ast.walk(k.value)) for k in c.keywords):
            out.append((c, next(m.attr for k in c.keywords if k.arg == "dtype" for m in ast.walk(k.value) if isinstance(m, ast.Attribute) and m.attr in NARROW)))
    seen, uniq = set(), []
    for c, nm in out:
        if (id(c), nm) not in seen:
            seen.add((id(c), nm))
            uniq.append((c, nm))
    return uniq


def find_single_precision(d: Def):
    """In the parser (text -> table) no buffer of single precision: the id and parent-id fields pass through it too, and float32 holds integers exactly only up to 2**24."""
    out = []
    for c in own_nodes(d):
        if isinstance(c, ast.Call):
            fn = (dotted(c.func) or "").split(".")[-1]
            dt = [k.value for k in c.keywords if k.arg == "dtype"] + (list(c.args[1:2]) if fn in ("array", "asarray", "empty", "zeros", "full", "fromiter", "loadtxt", "genfromtxt") else [])
            if isinstance(c.func, ast.Attribute) and c.func.attr == "astype":
                dt = list(c.args[:1])
            for x in dt:
                if any((isinstance(m, ast.Attribute) and m.attr in ("float32", "single")) or (isinstance(m, ast.Constant) and m.value in ("float32", "f4", "single")) for m in ast.walk(x)):
                    out.append(c)
    return out


RULE_TEXT = ("no column of the table or the tree is cast to a type that cannot hold every admissible value (8 / 16 bit integers, float16, bool) on the "
             "read / construction path: node types and ids are arbitrary integers")


def run(ctx, col, quals: tuple, rule: str = "R-NARROW"):
    col.rule(rule, RULE_TEXT, floor=1)
    hits = 0
    for q in quals:
        d = ctx.repo.get_def(q)
        for c, nm in find(d):
            hits += 1
            col.bad(rule, d.qualname, d.loc(c), "columns keep a type wide enough for every admissible value",
                    f"`{norm_src(c)[:80]}` casts to `{nm}`: values outside its range wrap around or are rounded without an error (a node type of 300 becomes 44 as uint8)",
                    stmt=f"narrow:{nm}", definite=True)
    for q in quals:
        d = ctx.repo.get_def(q)
        if d.name != "parse_swc":
            continue
        for c in find_single_precision(d):
            hits += 1
            col.bad(rule, d.qualname, d.loc(c), "the parser keeps integer fields exact",
                    f"`{norm_src(c)[:80]}` puts parsed fields into single precision inside the parser: ids and parent ids above 2**24 (large id offsets, big reconstructions) are rounded "
                    f"to a neighbouring id, so parent links come back wrong", stmt="narrow:float32-buffer", definite=True)
    col.ok(rule, "narrowing-scan", "", f"{len(quals)} read / construction functions looked at for narrowing casts", f"{hits} hit(s)", stmt="narrowing-scan")
    return hits
