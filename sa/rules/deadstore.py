"""An option re-bound too late.

`def f(a, old_a=None): g(a); ...; a = old_a` -- the parameter `a` is re-bound from another parameter after its last use: the
assignment is a dead store, so the value the caller passed in `old_a` (a deprecated alias, an override, a default resolved late)
never reaches the code that implements `a`.  Decided on the CFG of the function (liveness of the re-bound name from the assignment
onwards; reads inside nested functions and lambdas count as reads anywhere).  Reported only when
  * the target is a parameter of the function, assigned by a plain `name = <expr>` statement,
  * the expression reads at least one *other* parameter of the function,
  * no read of the target is reachable from the assignment before it is bound again, and the function does read the target
    elsewhere (before), i.e. the option is used -- with the old value.
Zero expected on a correct tree; kept positive examples in sa/fixtures/deadstore_positive.py.
"""
from __future__ import annotations

import ast

from .. import cfg as cfgmod
from ..model import Def, norm_src


def _params(fn) -> list:
    a = fn.args
    return [x.arg for x in a.posonlyargs + a.args + a.kwonlyargs] + ([a.vararg.arg] if a.vararg else []) + ([a.kwarg.arg] if a.kwarg else [])


def _reads(node: ast.AST, name: str) -> bool:
    return any(isinstance(n, ast.Name) and n.id == name and isinstance(n.ctx, (ast.Load, ast.Del)) for n in ast.walk(node))


def _nested_reads(fn, name: str) -> bool:
    for n in ast.walk(fn):
        if n is not fn and isinstance(n, (ast.FunctionDef, ast.AsyncFunctionDef, ast.Lambda, ast.ClassDef)):
            if _reads(n, name):
                return True
    return False


def _header(n: cfgmod.Node):
    """the part of a CFG node's AST that is evaluated *at* the node (compound statements: the header only)"""
    a = n.ast
    if a is None:
        return []
    if isinstance(a, (ast.For, ast.AsyncFor)):
        return [a.iter]
    if isinstance(a, ast.While):
        return [a.test]
    if isinstance(a, (ast.With, ast.AsyncWith)):
        return [i.context_expr for i in a.items]
    if isinstance(a, ast.Try):
        return []
    if isinstance(a, ast.Match):
        return [a.subject]
    if isinstance(a, ast.match_case):
        return [a.guard] if a.guard is not None else []
    if isinstance(a, ast.ExceptHandler):
        return [a.type] if a.type is not None else []
    if isinstance(a, ast.If):
        return [a.test]
    return [a]


def _kills(n: cfgmod.Node, name: str) -> bool:
    a = n.ast
    if isinstance(a, ast.Assign) and len(a.targets) == 1 and isinstance(a.targets[0], ast.Name) and a.targets[0].id == name:
        return True
    return False


def find(fn) -> list:
    """[(assign stmt, target, other params read)] for a FunctionDef node"""
    if isinstance(fn, ast.Lambda):
        return []
    params = [p for p in _params(fn) if p not in ("self", "cls")]
    if len(params) < 2:
        return []
    cands = []
    for st in ast.walk(fn):
        if isinstance(st, ast.Assign) and len(st.targets) == 1 and isinstance(st.targets[0], ast.Name) and st.targets[0].id in params:
            t = st.targets[0].id
            others = sorted({n.id for n in ast.walk(st.value) if isinstance(n, ast.Name) and isinstance(n.ctx, ast.Load) and n.id in params and n.id != t})
            if others:
                cands.append((st, t, others))
    if not cands:
        return []
    g = cfgmod.CFG(fn.body, fn.name)
    out = []
    for st, t, others in cands:
        n0 = g.node_of(st)
        if n0 is None or _nested_reads(fn, t):
            continue
        # the statement must itself be in this function (not in a nested def)
        live = False
        seen = set()
        stack = [m for m, _l in g.succ[n0]]
        while stack and not live:
            n = stack.pop()
            if n in seen:
                continue
            seen.add(n)
            if any(_reads(h, t) for h in _header(n)):
                live = True
                break
            if _kills(n, t):
                continue
            stack.extend(m for m, _l in g.succ[n])
        if live:
            continue
        # is the target read anywhere else in the function at all (then: with the stale value)?
        elsewhere = any(isinstance(n, ast.Name) and n.id == t and isinstance(n.ctx, ast.Load) for s in ast.walk(fn) if s is not st
                        for n in ([s] if isinstance(s, ast.Name) else []))
        if elsewhere:
            out.append((st, t, others))
    return out


def check(ctx, col, rule: str, modules: tuple):
    import os
    from ..model import Repo
    n = hits = 0
    for d in ctx.repo.all_defs():
        if d.module.name not in modules or d.is_lambda:
            continue
        n += 1
        for st, t, others in find(d.node):
            hits += 1
            col.bad(rule, d.qualname, d.loc(st), "an option that is re-bound from another option is re-bound before it is used",
                    f"`{norm_src(st)}` binds the parameter `{t}` from `{', '.join(others)}` after the last use of `{t}`: the assignment is dead, the function "
                    f"has already used the old `{t}`, and what the caller passed as `{others[0]}` never takes effect", stmt=f"deadstore:{t}", definite=True)
    here = os.path.dirname(os.path.dirname(os.path.abspath(__file__)))
    fx = Repo(here, pkg="fixtures")
    found = {d.name: len(find(d.node)) for d in fx.all_defs() if d.module.name.endswith("deadstore_positive") and not d.is_lambda and d.parent is None}
    ok = found.get("late_alias") == 1 and found.get("late_alias_branch") == 1 and found.get("early_alias") == 0 and found.get("alias_read_in_closure") == 0 \
        and found.get("rebound_then_used_in_loop") == 0
    col.check(ok, rule, "sa.fixtures.deadstore_positive", "sa/fixtures/deadstore_positive.py:1",
              f"lint recognises its kept positive examples ({n} defs scanned, {hits} hit(s))", str(found), f"fixture results {found}", stmt="fixture")
    col.analysed[f"deadstore_defs:{rule}"] = n
    return hits


RULE_TEXT = ("no option is re-bound too late: a parameter assigned from another parameter (deprecated alias, override) where no read of it is reachable from "
             "the assignment while the function has used it before -- the caller's value never takes effect (liveness on the CFG); zero expected, positive examples kept")


def run(ctx, col, modules: tuple, rule: str = "R-LATEBIND"):
    col.rule(rule, RULE_TEXT, floor=1)
    return check(ctx, col, rule, tuple(modules))
