"""The 'no parent' marker -1 used as an array index.

The parent column holds -1 for the root.  As an index numpy reads -1 as "the last row": `np.add.at(counts, tree.pid(), 1)`, `counts[pid] += 1`,
`np.bincount`-like accumulations over the whole parent column credit the last-numbered node with the root's contribution.  Correct code masks the
roots first (`pid[pid != -1]`, `pid[1:]` for a tree whose root is row 0).  Reported: an accumulation (np.add.at / ufunc.at / subscripted augmented
assignment) indexed by the complete parent column.  Zero expected; examples kept.
"""
from __future__ import annotations

import ast

from ..model import dotted, norm_src


def _is_full_parent_column(e, binds, depth=0) -> bool:
    if isinstance(e, ast.Call) and isinstance(e.func, ast.Attribute) and e.func.attr == "pid" and not e.args:
        return True
    if isinstance(e, ast.Subscript) and isinstance(e.slice, ast.Attribute) and e.slice.attr == "pid" and isinstance(e.value, ast.Attribute) and e.value.attr == "ndata":
        return True
    if isinstance(e, ast.Name) and e.id in binds and depth < 2:
        return _is_full_parent_column(binds[e.id], binds, depth + 1)
    return False


def find(fn) -> list:
    if isinstance(fn, ast.Lambda):
        return []
    binds, twice = {}, set()
    for n in ast.walk(fn):
        if isinstance(n, ast.Assign) and len(n.targets) == 1 and isinstance(n.targets[0], ast.Name):
            k = n.targets[0].id
            if k in binds:
                twice.add(k)
            binds[k] = n.value
    for k in twice:
        binds.pop(k, None)
    out = []
    for n in ast.walk(fn):
        if isinstance(n, ast.Call) and isinstance(n.func, ast.Attribute) and n.func.attr == "at" and len(n.args) >= 2 and _is_full_parent_column(n.args[1], binds):
            out.append(n)
        if isinstance(n, ast.AugAssign) and isinstance(n.target, ast.Subscript) and _is_full_parent_column(n.target.slice, binds):
            out.append(n)
    return out


def check(ctx, col, rule: str, modules: tuple):
    import os
    from ..model import Repo
    n = hits = 0
    for d in ctx.repo.all_defs():
        if d.module.name not in modules or d.is_lambda:
            continue
        n += 1
        for c in find(d.node):
            hits += 1
            col.bad(rule, d.qualname, d.loc(c), "the root's parent marker is never used as a row position",
                    f"`{norm_src(c)[:80]}` accumulates over the whole parent column: the root's -1 is read as 'the last row', so the highest-numbered node gets one count "
                    f"too many -- a pass-through node numbered last becomes a furcation; with parent-before-child numbering the last row is a tip and nothing shows",
                    stmt="negidx", definite=True)
    here = os.path.dirname(os.path.dirname(os.path.abspath(__file__)))
    fx = Repo(here, pkg="fixtures")
    found = {d.name: len(find(d.node)) for d in fx.all_defs() if d.module.name.endswith("negidx_positive") and not d.is_lambda and d.parent is None}
    ok = found.get("count_children_all_rows") == 1 and found.get("count_children_named") == 1 and found.get("count_children_masked") == 0
    col.check(ok, rule, "sa.fixtures.negidx_positive", "sa/fixtures/negidx_positive.py:1",
              f"lint recognises its kept positive examples ({n} defs scanned, {hits} hit(s))", str(found), f"fixture results {found}", stmt="fixture")
    return hits


RULE_TEXT = ("the 'no parent' marker -1 is never used as an index: no accumulation (np.add.at, `a[pid] += 1`) over the complete parent column (the root's -1 would credit the "
             "last row); zero expected, positive examples kept")


def run(ctx, col, modules: tuple, rule: str = "R-NEGIDX"):
    col.rule(rule, RULE_TEXT, floor=1)
    return check(ctx, col, rule, tuple(modules))
