"""R-EXC -- a raised error reaches the API boundary.

For a raise site: walk outwards through the enclosing ``try`` handlers and
``with`` items of its def; a handler that can catch the class must raise on every
path of its body; a ``with`` item's context manager must not be able to suppress
(``__exit__`` falsy on every path, not ``contextlib.suppress``).  Then repeat at
every strong call site of the def, up to the named API entries.
"""

from __future__ import annotations

import ast
import builtins
from typing import Optional

from ..cfg import CFG
from ..model import ClassInfo, Def, dotted, norm_src, own_nodes


def exc_class_name(e: Optional[ast.AST]) -> Optional[str]:
    if e is None:
        return None
    if isinstance(e, ast.Call):
        e = e.func
    return dotted(e)


def _builtin_exc(name: Optional[str]):
    if not name:
        return None
    c = getattr(builtins, name.split(".")[-1], None)
    return c if isinstance(c, type) and issubclass(c, BaseException) else None


def repo_exc_bases(ctx, name: str, d: Def) -> list[str]:
    """Names of the exception classes ``name`` is (transitively) a subclass of."""
    r = ctx.repo.resolve_expr(ast.parse(name, mode="eval").body, d.module, d) if name else None
    out = [name.split(".")[-1]] if name else []
    if isinstance(r, ClassInfo):
        for k in r.mro():
            out.append(k.name)
            for b in k.ext_bases:
                out.append(b.split(".")[-1])
    # close under the builtin hierarchy
    more = []
    for n in out:
        c = _builtin_exc(n)
        if c is not None:
            more += [k.__name__ for k in c.__mro__]
    return list(dict.fromkeys(out + more))


def handler_catches(ctx, h: ast.ExceptHandler, raised: Optional[str], d: Def) -> Optional[bool]:
    """True / False / None (unknown)."""
    if h.type is None:
        return True
    types = h.type.elts if isinstance(h.type, ast.Tuple) else [h.type]
    names = [dotted(t) for t in types]
    if raised is None:
        return None
    anc = repo_exc_bases(ctx, raised, d)
    res = False
    for n in names:
        if n is None:
            return None
        short = n.split(".")[-1]
        if short in anc:
            return True
        if _builtin_exc(short) is None and not isinstance(
                ctx.repo.resolve_expr(ast.parse(n, mode="eval").body, d.module, d), ClassInfo):
            res = None
    return res


def body_always_raises(body: list[ast.stmt]) -> bool:
    """Every path through body ends in an explicit raise (no fall-through, no return)."""
    g = CFG(body)
    reach = g.reachable(g.entry, edge_ok=lambda a, b, l: l != "exc")
    return g.exit not in reach


def _exit_truth(v: ast.AST, exc_params: list[str], local_vals: dict) -> str:
    """Truth of an __exit__ return expression *while an exception is in flight*
    (exc_type, exc_value, traceback are then not None / truthy).
    'falsy' | 'truthy' | 'computed' (a truth value computed from program state: the
    exception is swallowed whenever it happens to be true) | 'unknown'."""
    if v is None:
        return "falsy"
    if isinstance(v, ast.Constant):
        return "truthy" if v.value else "falsy"
    if isinstance(v, ast.Name):
        if v.id in exc_params:
            return "truthy"
        if v.id in local_vals:
            vals = {_exit_truth(x, exc_params, {}) for x in local_vals[v.id]}
            return vals.pop() if len(vals) == 1 else ("computed" if "computed" in vals or "truthy" in vals else "unknown")
        return "unknown"
    if isinstance(v, ast.UnaryOp) and isinstance(v.op, ast.Not):
        t = _exit_truth(v.operand, exc_params, local_vals)
        return {"falsy": "truthy", "truthy": "falsy"}.get(t, t)
    if isinstance(v, ast.BoolOp):
        ts = [_exit_truth(x, exc_params, local_vals) for x in v.values]
        if isinstance(v.op, ast.And):
            if "falsy" in ts:
                return "falsy"
            if all(t == "truthy" for t in ts):
                return "truthy"
        else:
            if "truthy" in ts:
                return "truthy"
            if all(t == "falsy" for t in ts):
                return "falsy"
        return "computed" if "computed" in ts else "unknown"
    if isinstance(v, ast.Compare) and len(v.ops) == 1:
        a, b = v.left, v.comparators[0]
        names = {n.id for n in ast.walk(v) if isinstance(n, ast.Name)}
        none_side = (isinstance(a, ast.Constant) and a.value is None) or (isinstance(b, ast.Constant) and b.value is None)
        if none_side and names & set(exc_params) and len(names) == 1:
            return "falsy" if isinstance(v.ops[0], (ast.Is, ast.Eq)) else "truthy"
        if isinstance(v.ops[0], (ast.Is, ast.IsNot, ast.Eq, ast.NotEq, ast.In, ast.NotIn, ast.Lt, ast.Gt, ast.LtE, ast.GtE)):
            return "computed"
    if isinstance(v, ast.Call):
        fn = dotted(v.func) or ""
        if fn in ("bool",) and v.args:
            return _exit_truth(v.args[0], exc_params, local_vals)
        if fn in ("isinstance", "issubclass"):
            return "computed"
    return "unknown"


def exit_suppresses(ctx, cls: ClassInfo) -> tuple[str, str]:
    """('never'|'may'|'unknown', detail) for the class's __exit__."""
    ex = cls.lookup_method("__exit__")
    if ex is None:
        return "unknown", "no __exit__ found"
    rets = [n for n in own_nodes(ex) if isinstance(n, ast.Return)]
    exc_params = [p for p in ex.params[1:]]
    local_vals: dict = {}
    for n in own_nodes(ex):
        if isinstance(n, ast.Assign):
            for t in n.targets:
                if isinstance(t, ast.Name):
                    local_vals.setdefault(t.id, []).append(n.value)
    verdict = "never"
    why = "falls off the end / returns only values that are false while an exception is in flight"
    for r in rets:
        t = _exit_truth(r.value, exc_params, local_vals)
        if t == "falsy":
            continue
        if t == "truthy":
            return "may", f"`{norm_src(r)}` at {ex.loc(r)}: a true result swallows the exception"
        if t == "computed":
            return "may", (f"`{norm_src(r)}` at {ex.loc(r)}: the result is computed from program state; "
                           f"whenever it is true the exception raised inside the block is swallowed")
        verdict = "unknown"
        why = f"`{norm_src(r)}` at {ex.loc(r)} cannot be classified"
    return verdict, why


def with_item_verdict(ctx, item: ast.withitem, d: Def) -> tuple[str, str]:
    e = item.context_expr
    name = dotted(e.func) if isinstance(e, ast.Call) else dotted(e)
    if name and name.split(".")[-1] == "suppress":
        return "may", "contextlib.suppress"
    t = ctx.typer.type_of(e, d)
    if isinstance(t, ClassInfo):
        return exit_suppresses(ctx, t)
    if name in ("open", "io.open") or (name or "").endswith(("TiffFile", "TiffWriter",
                                                             "ProcessPoolExecutor", "catch_warnings")):
        return "never", f"{name}: stdlib/third-party manager that does not suppress"
    r = ctx.repo.resolve_expr(e.func if isinstance(e, ast.Call) else e, d.module, d)
    if isinstance(r, tuple) and r[0] in ("ext", "builtin"):
        return "never", f"{r[1]}: external manager (assumed not to suppress)"
    return "unknown", f"cannot resolve context manager `{norm_src(e)}`"


def site_escapes(ctx, d: Def, node: ast.AST, raised: Optional[str]):
    """Walk outwards from node inside d.  Returns (verdict, detail, raised') where
    verdict in 'escapes' | 'suppressed' | 'unknown'; raised' is the class leaving d."""
    repo = ctx.repo
    child = node
    par = repo.parent(node)
    while par is not None and child is not d.node:
        if isinstance(par, ast.Try):
            in_body = any(child is s for s in par.body)
            in_handler = any(child is h for h in par.handlers)
            if in_body:
                for h in par.handlers:
                    c = handler_catches(ctx, h, raised, d)
                    if c is None:
                        return "unknown", f"handler at {d.loc(h)} may catch {raised}", raised
                    if c:
                        if body_always_raises(h.body):
                            # the handler re-raises: continue outwards with the new class
                            rs = [s for s in ast.walk(ast.Module(body=h.body, type_ignores=[]))
                                  if isinstance(s, ast.Raise)]
                            new = {exc_class_name(s.exc) or raised for s in rs}
                            raised = new.pop() if len(new) == 1 else None
                            break
                        return ("suppressed",
                                f"handler `except {norm_src(h.type) if h.type else ''}` at "
                                f"{d.loc(h)} can complete without raising", raised)
            # a raise inside a handler / else / finally is not caught by the same try
        elif isinstance(par, (ast.With, ast.AsyncWith)) and any(child is s for s in par.body):
            for item in par.items:
                v, why = with_item_verdict(ctx, item, d)
                if v == "may":
                    return ("suppressed",
                            f"`with {norm_src(item.context_expr)}` at {d.loc(par)}: {why}", raised)
                if v == "unknown":
                    return "unknown", f"`with {norm_src(item.context_expr)}`: {why}", raised
        child = par
        par = repo.parent(par)
    return "escapes", "", raised


def check_raise_reaches(ctx, col, rule: str, d: Def, node: ast.AST, raised: Optional[str],
                        entries: set, what: str, max_depth: int = 6) -> None:
    """Emit one instance per (raise site, API entry path)."""
    cg = ctx.cg
    results = []
    seen = set()

    def up(cur: Def, n: ast.AST, exc: Optional[str], path: list[str], depth: int):
        v, why, exc2 = site_escapes(ctx, cur, n, exc)
        if v != "escapes":
            results.append((v, why, path + [cur.qualname]))
            return
        if cur.qualname in entries:
            results.append(("escapes", "", path + [cur.qualname]))
        if depth >= max_depth:
            return
        for e in cg.callers(cur):
            if e.kind in ("callback",):
                continue
            key = (id(e.call), exc2)
            if key in seen:
                continue
            seen.add(key)
            up(e.caller, e.call, exc2, path + [cur.qualname], depth + 1)

    up(d, node, raised, [], 0)
    reached = {p[-1] for v, w, p in results if v == "escapes"}
    bad = [(v, w, p) for v, w, p in results if v == "suppressed"]
    unk = [(v, w, p) for v, w, p in results if v == "unknown"]
    stmt = norm_src(node)
    if bad:
        v, w, p = bad[0]
        col.bad(rule, d.qualname, d.loc(node), what,
                f"the error is swallowed before the API boundary: {w} (path {' <- '.join(p)})",
                stmt=stmt, facts={"paths": [p for _, _, p in results]})
    elif unk:
        v, w, p = unk[0]
        col.unresolved(rule, d.qualname, d.loc(node), what, w, stmt=stmt)
    else:
        col.ok(rule, d.qualname, d.loc(node), what,
               f"propagates to {sorted(reached)} through {len(results)} call paths", stmt=stmt,
               facts={"entries_reached": sorted(reached)})
