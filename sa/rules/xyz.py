"""R-XYZ -- statements identical modulo an axis token form a consistent family."""

from __future__ import annotations

import ast
import copy

from ..model import norm_src

AXES = ["x", "y", "z"]


class _Subst(ast.NodeTransformer):
    def __init__(self, name_map: dict, int_map: dict):
        self.name_map = name_map
        self.int_map = int_map

    def visit_Attribute(self, n):
        self.generic_visit(n)
        if n.attr in self.name_map:
            n.attr = self.name_map[n.attr]
        return n

    def visit_Constant(self, n):
        if isinstance(n.value, str) and n.value in self.name_map:
            n.value = self.name_map[n.value]
        elif isinstance(n.value, int) and not isinstance(n.value, bool) and n.value in self.int_map:
            n.value = self.int_map[n.value]
        return n


def shift_axis(node: ast.AST, src: str, dst: str, ints: bool = True) -> str:
    """Source of node with axis token src replaced by dst (and index i -> j)."""
    n = copy.deepcopy(node)
    nm = {src: dst}
    im = {AXES.index(src): AXES.index(dst)} if ints and src in AXES and dst in AXES else {}
    n = _Subst(nm, im).visit(n)
    return norm_src(n)


def axis_of(node: ast.AST, axes=AXES):
    """The single axis token a statement mentions (attribute / string constant), else None."""
    found = set()
    for x in ast.walk(node):
        if isinstance(x, ast.Attribute) and x.attr in axes:
            found.add(x.attr)
        elif isinstance(x, ast.Constant) and isinstance(x.value, str) and x.value in axes:
            found.add(x.value)
    if len(found) > 1:
        return "<mixed:" + ",".join(sorted(found)) + ">"
    return found.pop() if len(found) == 1 else None


def family(stmts: list[ast.AST], axes=AXES, ints: bool = False):
    """Group statements by axis; returns (ok, detail).  ok iff there is exactly one statement
    per axis and each is the image of the first under the axis substitution."""
    by = {}
    for s in stmts:
        a = axis_of(s, axes)
        if a is None:
            return None, f"`{norm_src(s)[:60]}` mentions no axis"
        if a.startswith("<mixed"):
            return False, f"`{norm_src(s)[:80]}` mixes axes {a[7:-1]} in one statement"
        by.setdefault(a, []).append(s)
    if set(by) != set(axes) or any(len(v) != 1 for v in by.values()):
        return False, f"axes covered: { {k: len(v) for k, v in by.items()} }, expected one statement per {axes}"
    ref_axis = axes[0]
    ref = by[ref_axis][0]
    for a in axes[1:]:
        want = shift_axis(ref, ref_axis, a, ints)
        got = norm_src(by[a][0])
        if want != got:
            return False, f"{a}-statement is `{got}`, the {ref_axis}-statement maps to `{want}`"
    return True, f"{len(axes)} statements, one per axis, identical modulo the axis"
