"""Columns are addressed through the tree's own column names.

A tree may be built or read with custom SWCNames (x -> 'px', id -> 'n', ...).  Generic code that stores or reads `tree.ndata["x"]` -- a literal default name, or a loop
variable that runs over literals (`for key in "xyz"`, `for key, col in zip("xyz", cols)`) -- silently misses the real column of such a tree (a store adds a stray
column and leaves the coordinates untouched).  Reported: a subscript of `<obj>.ndata` whose key is such a literal.  Keys taken from `<obj>.names.<col>`, from
`names.cols()` / `keys()` or from a parameter are fine.  Zero expected; examples kept in sa/fixtures/colname_positive.py.
"""
from __future__ import annotations

import ast

from ..model import norm_src

DEFAULTS = {"id", "type", "x", "y", "z", "r", "pid"}


def _literal_names(e):
    """the set of literal column names an iterable expression runs over, or None"""
    if isinstance(e, ast.Constant) and isinstance(e.value, str) and e.value and all(ch in DEFAULTS for ch in e.value):
        return set(e.value)
    if isinstance(e, (ast.Tuple, ast.List, ast.Set)) and e.elts and all(isinstance(x, ast.Constant) and isinstance(x.value, str) for x in e.elts) and all(x.value in DEFAULTS for x in e.elts):
        return {x.value for x in e.elts}
    return None


def find(fn) -> list:
    if isinstance(fn, ast.Lambda):
        return []
    lit_vars = {}
    for n in ast.walk(fn):
        if isinstance(n, (ast.For, ast.comprehension)):
            it, tg = n.iter, n.target
            if _literal_names(it) and isinstance(tg, ast.Name):
                lit_vars[tg.id] = _literal_names(it)
            if isinstance(it, ast.Call) and isinstance(it.func, ast.Name) and it.func.id in ("zip", "enumerate") and isinstance(tg, ast.Tuple):
                args = it.args if it.func.id == "zip" else [None] + list(it.args)
                for a_, t_ in zip(args, tg.elts):
                    if a_ is not None and _literal_names(a_) and isinstance(t_, ast.Name):
                        lit_vars[t_.id] = _literal_names(a_)
    out = []
    for n in ast.walk(fn):
        if isinstance(n, ast.Subscript) and isinstance(n.value, ast.Attribute) and n.value.attr == "ndata":
            k = n.slice
            if isinstance(k, ast.Constant) and isinstance(k.value, str) and k.value in DEFAULTS:
                out.append((n, repr(k.value)))
            elif isinstance(k, ast.Name) and k.id in lit_vars:
                out.append((n, f"{k.id} in {sorted(lit_vars[k.id])}"))
    return out


RULE_TEXT = ("columns are addressed through the tree's own column names: no subscript of `.ndata` by a literal default name ('x', 'id', ...) or by a loop variable running over such "
             "literals -- a tree with custom SWCNames keeps its coordinates under other keys; zero expected, examples kept")


def run(ctx, col, modules, rule="R-COLNAME"):
    import os
    from ..model import Repo
    col.rule(rule, RULE_TEXT, floor=1)
    n = hits = 0
    for d in ctx.repo.all_defs():
        if d.module.name not in modules or d.is_lambda:
            continue
        n += 1
        for node, key in find(d.node):
            hits += 1
            col.bad(rule, d.qualname, d.loc(node), "a column is found under the name the tree gives it",
                    f"`{norm_src(node)}` addresses the column by the literal default name ({key}): for a tree whose SWCNames map that column to another key the real column is neither read nor "
                    f"updated (a transform leaves its coordinates untouched and adds stray 'x', 'y', 'z' columns)", stmt=f"colname:{key[:20]}", definite=True)
    here = os.path.dirname(os.path.dirname(os.path.abspath(__file__)))
    fx = Repo(here, pkg="fixtures")
    found = {d.name: len(find(d.node)) for d in fx.all_defs() if d.module.name.endswith("colname_positive") and not d.is_lambda and d.parent is None}
    ok = found.get("store_by_literal_loop") == 1 and found.get("store_by_names") == 0 and found.get("read_by_literal") == 1 and found.get("keys_from_parameter") == 0
    col.check(ok, rule, "sa.fixtures.colname_positive", "sa/fixtures/colname_positive.py:1", f"lint recognises its kept examples ({n} defs scanned, {hits} hit(s))", str(found), f"fixture results {found}", stmt="fixture")
    return hits
