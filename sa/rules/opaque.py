"""Values produced by a caller's callback are opaque: they are handed on, never truth-tested.

`cur = enter(idx, pre)` is whatever the caller's function returned -- 0, False, '' and [] are values like any other (a depth counter starts at 0).  Code that
forwards such a value only `if cur:` / `cur or default` / `not cur` drops the falsy ones; "not given" is spelt `is None`.

Per function: callback parameters are the parameters that the function calls.  A name is a callback value when it is assigned from an expression that calls a
callback parameter or reads a callback value (through subscripts, .pop/.get of a container that callback values are stored into, conditional expressions).  Reported:
a callback value used directly as a truth value (if / while / conditional-expression test, operand of and / or / not, comprehension condition).  Comparisons
(`is None`, `==`) are not truth tests of the value.  Zero expected; kept examples in sa/fixtures/opaque_positive.py.
"""
from __future__ import annotations

import ast

from ..model import norm_src


def _params(fn):
    a = fn.args
    return [x.arg for x in a.posonlyargs + a.args + a.kwonlyargs]


def find(fn) -> list:
    if isinstance(fn, ast.Lambda):
        return []
    params = set(_params(fn)) - {"self", "cls"}
    called = {n.func.id for n in ast.walk(fn) if isinstance(n, ast.Call) and isinstance(n.func, ast.Name) and n.func.id in params}
    if not called:
        return []
    values, boxes = set(), set()

    def tainted(e) -> bool:
        for n in ast.walk(e):
            if isinstance(n, ast.Call) and isinstance(n.func, ast.Name) and n.func.id in called:
                return True
            if isinstance(n, ast.Name) and isinstance(n.ctx, ast.Load) and n.id in values:
                return True
            if isinstance(n, ast.Subscript) and isinstance(n.value, ast.Name) and n.value.id in boxes:
                return True
            if isinstance(n, ast.Call) and isinstance(n.func, ast.Attribute) and n.func.attr in ("pop", "get") and isinstance(n.func.value, ast.Name) and n.func.value.id in boxes:
                return True
        return False

    def is_value_expr(e) -> bool:
        """the expression IS a callback value (not a container of them, not a comparison)"""
        if isinstance(e, ast.Name):
            return e.id in values
        if isinstance(e, ast.Subscript) and isinstance(e.value, ast.Name):
            return e.value.id in boxes
        if isinstance(e, ast.Call) and isinstance(e.func, ast.Attribute) and e.func.attr in ("pop", "get") and isinstance(e.func.value, ast.Name):
            return e.func.value.id in boxes
        if isinstance(e, ast.Call) and isinstance(e.func, ast.Name):
            return e.func.id in called
        if isinstance(e, ast.NamedExpr):
            return is_value_expr(e.value)
        return False

    for _ in range(4):
        for st in ast.walk(fn):
            if isinstance(st, ast.Assign) and len(st.targets) == 1:
                t, v = st.targets[0], st.value
                direct = is_value_expr(v) or (isinstance(v, ast.IfExp) and (is_value_expr(v.body) or is_value_expr(v.orelse)))
                if isinstance(t, ast.Name) and direct:
                    values.add(t.id)
                if isinstance(t, ast.Subscript) and isinstance(t.value, ast.Name) and direct:
                    boxes.add(t.value.id)
            if isinstance(st, ast.NamedExpr) and isinstance(st.target, ast.Name) and is_value_expr(st.value):
                values.add(st.target.id)
            if isinstance(st, ast.Call) and isinstance(st.func, ast.Attribute) and st.func.attr in ("append", "setdefault") and isinstance(st.func.value, ast.Name) \
                    and st.args and is_value_expr(st.args[-1]):
                boxes.add(st.func.value.id)
    out = []

    def truth(e, where):
        if is_value_expr(e):
            out.append((where, e))

    for n in ast.walk(fn):
        if isinstance(n, (ast.If, ast.While, ast.IfExp)):
            truth(n.test, n)
        elif isinstance(n, ast.BoolOp):
            for v in n.values[:-1] if isinstance(n.op, ast.Or) else n.values[:-1]:
                truth(v, n)
        elif isinstance(n, ast.UnaryOp) and isinstance(n.op, ast.Not):
            truth(n.operand, n)
        elif isinstance(n, ast.comprehension):
            for c in n.ifs:
                truth(c, c)
        elif isinstance(n, ast.Assert):
            truth(n.test, n)
    return out


RULE_TEXT = ("what a caller's callback returns is handed on as it is: a value obtained from calling a callback parameter (directly, or through the table it is kept in) is never used as a "
             "truth value (if / while / and / or / not / conditional expression) -- 0, False, '' and [] are legitimate values, 'nothing' is `is None`; zero expected, examples kept")


def run(ctx, col, modules, rule="R-OPAQUE"):
    import os
    from ..model import Repo
    col.rule(rule, RULE_TEXT, floor=1)
    n = hits = 0
    for d in ctx.repo.all_defs():
        if d.module.name not in modules or d.is_lambda:
            continue
        n += 1
        for where, e in find(d.node):
            hits += 1
            col.bad(rule, d.qualname, d.loc(where), "a callback's value is forwarded whatever it is",
                    f"`{norm_src(where)[:70]}` uses `{norm_src(e)}` -- a value returned by the caller's callback -- as a truth value: a callback that returns 0 / False / '' / [] (a depth "
                    f"counter starting at 0, a flag) is treated as if it had returned nothing", stmt=f"opaque:{norm_src(e)[:30]}", definite=True)
    here = os.path.dirname(os.path.dirname(os.path.abspath(__file__)))
    fx = Repo(here, pkg="fixtures")
    found = {d.name: len(find(d.node)) for d in fx.all_defs() if d.module.name.endswith("opaque_positive") and not d.is_lambda and d.parent is None}
    ok = found.get("hand_down_if_truthy") == 1 and found.get("hand_down_always") == 0 and found.get("default_with_or") == 1 and found.get("callback_is_none_test") == 0
    col.check(ok, rule, "sa.fixtures.opaque_positive", "sa/fixtures/opaque_positive.py:1", f"lint recognises its kept examples ({n} defs scanned, {hits} hit(s))", str(found),
              f"fixture results {found}", stmt="fixture")
    return hits
