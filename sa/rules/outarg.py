"""Results are not computed in place in the caller's array.

`np.multiply(data, k, out=data)`, `data *= k`, `data[...] = v` where `data`, at that point, may still be the caller's array (the parameter itself, or a view of it:
np.expand_dims / asarray / reshape / transpose / swapaxes / moveaxis / squeeze / a slice / `.get_full()` / `.imgs` of a parameter) change the caller's data: saving a
stack must not modify it.  Decided with reaching definitions on the CFG: the write is reported when some definition of the written name that reaches the statement is
caller-owned.  A name whose reaching definitions are all fresh (arithmetic result, astype, copy, np.array, zeros...) is the function's own.
Zero expected; kept examples in sa/fixtures/outarg_positive.py.
"""
from __future__ import annotations

import ast

from .. import cfg as cfgmod
from ..model import dotted, norm_src

VIEWS = {"expand_dims", "asarray", "asanyarray", "reshape", "transpose", "swapaxes", "moveaxis", "squeeze", "atleast_3d", "ravel", "view", "get_full", "ascontiguousarray"}


def _defs_of(stmt, name):
    """-> value expression if stmt binds `name` by a plain assignment, 'param' handled by the caller, None otherwise; ... for other bindings"""
    if isinstance(stmt, ast.Assign) and any(isinstance(t, ast.Name) and t.id == name for t in stmt.targets):
        return stmt.value
    if isinstance(stmt, ast.AnnAssign) and isinstance(stmt.target, ast.Name) and stmt.target.id == name and stmt.value is not None:
        return stmt.value
    if isinstance(stmt, (ast.For, ast.AsyncFor)) and any(isinstance(n, ast.Name) and n.id == name for n in ast.walk(stmt.target)):
        return ...
    if isinstance(stmt, ast.Assign) and any(isinstance(n, ast.Name) and n.id == name for t in stmt.targets for n in ast.walk(t) if isinstance(t, (ast.Tuple, ast.List))):
        return ...
    return None


def find(fn) -> list:
    if isinstance(fn, ast.Lambda):
        return []
    a = fn.args
    params = {x.arg for x in a.posonlyargs + a.args + a.kwonlyargs if not (x.arg == "out" or x.arg.startswith("out_"))} - {"self", "cls"}   # an `out` parameter is there to be written
    if not params:
        return []
    g = cfgmod.CFG(fn.body, getattr(fn, "name", ""))
    names = {n.id for n in ast.walk(fn) if isinstance(n, ast.Name)}
    # reaching definitions: IN[node][name] = set of defining values ('param' | expr | ...)
    nodes = list(g.nodes)
    IN = {n: {} for n in nodes}
    OUT = {n: {} for n in nodes}
    entry_state = {p: {"param"} for p in params}
    changed = True
    it = 0
    while changed and it < 50:
        changed = False
        it += 1
        for n in nodes:
            preds = [p for p, _l in g.pred[n]]
            cur = dict()
            if n is g.entry:
                cur = {k: set(v) for k, v in entry_state.items()}
            for p in preds:
                for k, v in OUT[p].items():
                    cur.setdefault(k, set()).update(v)
            out = {k: set(v) for k, v in cur.items()}
            st = n.ast
            if st is not None:
                for nm in names:
                    d = _defs_of(st, nm)
                    if d is not None:
                        out[nm] = {id(d) if d is not ... else "other"}
                        _VAL[id(d)] = d
            if cur != IN[n] or out != OUT[n]:
                IN[n], OUT[n] = cur, out
                changed = True

    def owned_expr(e, state, depth=0) -> bool:
        """may the value of e be the caller's array (or a view of it) in this state?"""
        if depth > 6:
            return False
        if isinstance(e, ast.Name):
            for d in state.get(e.id, ()):
                if d == "param":
                    return True
                if d == "other":
                    continue
                if owned_expr(_VAL[d], _STATE_AT.get(d, state), depth + 1):
                    return True
            return False
        if isinstance(e, ast.IfExp):
            return owned_expr(e.body, state, depth + 1) or owned_expr(e.orelse, state, depth + 1)
        if isinstance(e, ast.Attribute):
            return owned_expr(e.value, state, depth + 1)
        if isinstance(e, ast.Subscript):
            sl = e.slice
            basic = isinstance(sl, ast.Slice) or (isinstance(sl, ast.Tuple) and all(isinstance(x, (ast.Slice, ast.Constant)) or (isinstance(x, ast.Constant) and x.value is Ellipsis) for x in sl.elts)) \
                or (isinstance(sl, ast.Constant) and sl.value is Ellipsis)
            return basic and owned_expr(e.value, state, depth + 1)
        if isinstance(e, ast.Call):
            fn_ = dotted(e.func) or ""
            last = fn_.rsplit(".", 1)[-1] if fn_ else (e.func.attr if isinstance(e.func, ast.Attribute) else "")
            if last in VIEWS:
                if isinstance(e.func, ast.Attribute) and not fn_.startswith(("np.", "numpy.")):
                    return owned_expr(e.func.value, state, depth + 1)
                return bool(e.args) and owned_expr(e.args[0], state, depth + 1)
        return False

    # the state in which each definition's value was evaluated
    for n in nodes:
        st = n.ast
        if st is not None:
            for nm in names:
                d = _defs_of(st, nm)
                if d is not None and d is not ...:
                    _STATE_AT[id(d)] = IN[n]
    out = []
    for n in nodes:
        st = n.ast
        if st is None:
            continue
        state = IN[n]
        hdr = [st] if not isinstance(st, (ast.If, ast.While, ast.For, ast.With, ast.Try, ast.Match)) else []
        for h in hdr:
            for c in ast.walk(h):
                if isinstance(c, ast.Call):
                    for k in c.keywords:
                        if k.arg == "out" and owned_expr(k.value, state):
                            out.append((c, f"`out={norm_src(k.value)}`"))
            if isinstance(h, ast.AugAssign) and isinstance(h.target, ast.Name) and owned_expr(h.target, state):
                out.append((h, f"the in-place `{norm_src(h)[:50]}`"))
            if isinstance(h, (ast.Assign, ast.AugAssign)):
                for t in (h.targets if isinstance(h, ast.Assign) else [h.target]):
                    if isinstance(t, ast.Subscript) and owned_expr(t.value, state):
                        out.append((h, f"the store `{norm_src(t)[:40]} = ...`"))
    return out


_VAL: dict = {}
_STATE_AT: dict = {}

RULE_TEXT = ("saving / converting a stack does not modify the caller's array: no `out=`, in-place operator or item store whose target may, by reaching definitions on the CFG, still be a "
             "parameter or a view of one (expand_dims, asarray, reshape, transpose, slices, .get_full()); zero expected, examples kept")


def run(ctx, col, modules, rule="R-OUTARG", only=None):
    import os
    from ..model import Repo
    col.rule(rule, RULE_TEXT, floor=1)
    n = hits = 0
    for d in ctx.repo.all_defs():
        if d.module.name not in modules or d.is_lambda or (only and d.name not in only):
            continue
        n += 1
        for node, how in find(d.node):
            hits += 1
            col.bad(rule, d.qualname, d.loc(node), "the caller's array is left as it was", f"{how} in `{norm_src(node)[:80]}` writes into an array that may still be the caller's own (a parameter or a view of it): "
                    f"after the call the caller's stack holds the rescaled / converted values -- saving it a second time, or using it afterwards, gives different data", stmt=f"outarg:{how[:30]}", definite=True)
    here = os.path.dirname(os.path.dirname(os.path.abspath(__file__)))
    fx = Repo(here, pkg="fixtures")
    found = {d.name: len(find(d.node)) for d in fx.all_defs() if d.module.name.endswith("outarg_positive") and not d.is_lambda and d.parent is None}
    ok = found.get("scale_in_callers_buffer") == 1 and found.get("scale_into_fresh") == 0 and found.get("inplace_after_copy") == 0 and found.get("inplace_on_view") == 1
    col.check(ok, rule, "sa.fixtures.outarg_positive", "sa/fixtures/outarg_positive.py:1", f"lint recognises its kept examples ({n} defs scanned, {hits} hit(s))", str(found), f"fixture results {found}", stmt="fixture")
    return hits
