"""Columns keyed by the source's own column names travel with those names.

`DictSWC(**{k: self.get_ndata(k) for k in self.keys()}, source=...)` builds an object whose columns are stored under the *source's* column names (a tree read with custom
SWCNames has e.g. 'n', 'px', 'radius').  Unless `names=` is passed too, the new object looks its columns up under the default names: x() / type() / xyzr() raise KeyError.
Reported: a call of a tree / table constructor (DictSWC, Tree, BranchTree, cls) with a `**` argument that is a dict comprehension over `<obj>.keys()` / `<names>.cols()`
(or a local bound to one), and no `names=` keyword.  Constructors given literal column keywords (id=, x=, ...) use the default names and are not concerned.
Zero expected; kept examples in sa/fixtures/namesfwd_positive.py.
"""
from __future__ import annotations

import ast

from ..model import dotted, norm_src

CTORS = ("DictSWC", "Tree", "BranchTree", "cls")


def _own_keyed(e) -> bool:
    if isinstance(e, ast.DictComp) and e.generators:
        it = e.generators[0].iter
        return isinstance(it, ast.Call) and isinstance(it.func, ast.Attribute) and it.func.attr in ("keys", "cols")
    return False


def find(fn) -> list:
    if isinstance(fn, ast.Lambda):
        return []
    local = {}
    for st in ast.walk(fn):
        if isinstance(st, ast.Assign) and len(st.targets) == 1 and isinstance(st.targets[0], ast.Name) and _own_keyed(st.value):
            local[st.targets[0].id] = st.value
    out = []
    for c in ast.walk(fn):
        if isinstance(c, ast.Call) and (dotted(c.func) or "").rsplit(".", 1)[-1] in CTORS:
            star = [k.value for k in c.keywords if k.arg is None]
            keyed = [s for s in star if _own_keyed(s) or (isinstance(s, ast.Name) and s.id in local)]
            if keyed:
                out.append((c, any(k.arg == "names" for k in c.keywords)))
    return out


RULE_TEXT = ("columns keyed by the source's own column names travel with those names: a tree / table constructor called with `**{k: ... for k in <src>.keys() | <names>.cols()}` also gets "
             "`names=` (otherwise a tree with custom column names yields copies / detached views whose accessors raise KeyError); examples kept")


def run(ctx, col, modules, rule="R-NAMESFWD", floor=2):
    import os
    from ..model import Repo
    col.rule(rule, RULE_TEXT, floor=floor)
    n = 0
    for d in ctx.repo.all_defs():
        if d.module.name not in modules or d.is_lambda:
            continue
        for c, has in find(d.node):
            n += 1
            col.check(has, rule, d.qualname, d.loc(c), "the column names go with the columns", f"`{norm_src(c.func)}(**<own columns>, names=...)`",
                      f"`{norm_src(c)[:90]}` stores the columns under the source's column names but does not pass `names=`: for a tree with custom SWCNames the new object looks for "
                      f"'x', 'type', ... and its accessors raise KeyError -- the detached / copied object is unusable", stmt=f"namesfwd:{norm_src(c.func)}", definite=True)
    here = os.path.dirname(os.path.dirname(os.path.abspath(__file__)))
    fx = Repo(here, pkg="fixtures")
    found = {d.name: [h for _c, h in find(d.node)] for d in fx.all_defs() if d.module.name.endswith("namesfwd_positive") and not d.is_lambda}
    ok = found.get("detach_without_names") == [False] and found.get("detach_with_names") == [True] and found.get("literal_columns") == []
    col.check(ok, rule, "sa.fixtures.namesfwd_positive", "sa/fixtures/namesfwd_positive.py:1", f"lint recognises its kept examples ({n} constructor call(s) with own-keyed columns)", str(found),
              f"fixture results {found}", stmt="fixture")
    return n


def run_allcols(ctx, col, class_quals, rule="R-ALLCOLS"):
    """A detached copy carries every column of its owner: the constructor call that `detach` reaches (directly or through helpers called on self) takes its columns from a
    comprehension over `<self>.keys()` -- a fixed list of the seven standard columns drops the extra per-node columns."""
    col.rule(rule, "a detached view carries every column: the DictSWC that `detach` builds (directly or in a helper it calls on self) takes its columns from a comprehension over "
             "`self.keys()`; a fixed list of the standard columns (id, type, x, y, z, r, pid) silently drops the extra per-node columns", floor=1)
    for q in class_quals:
        try:
            C = ctx.repo.get_class(q)
        except Exception:  # noqa: BLE001
            continue
        det = C.lookup_method("detach")
        if det is None:
            continue
        seen, todo, calls = set(), [det], []
        while todo:
            m = todo.pop()
            if m.qualname in seen:
                continue
            seen.add(m.qualname)
            for c in ast.walk(m.node):
                if isinstance(c, ast.Call):
                    if (dotted(c.func) or "").rsplit(".", 1)[-1] in CTORS and (c.keywords or c.args):
                        calls.append((m, c))
                    if isinstance(c.func, ast.Attribute) and isinstance(c.func.value, ast.Name) and c.func.value.id == "self":
                        h = C.lookup_method(c.func.attr)
                        if h is not None and h.name not in ("id", "pid", "keys", "get_ndata", "x", "y", "z", "r", "type", "xyz", "xyzr"):
                            todo.append(h)
        calls = [(m, c) for m, c in calls if (dotted(c.func) or "").rsplit(".", 1)[-1] == "DictSWC"]
        if not calls:
            col.unresolved(rule, det.qualname, det.loc(), "the detached copy has all columns", "no DictSWC(...) call reached from detach", stmt="allcols")
            continue

        def over_keys(e, fn_node, depth=0):
            """the columns are gathered over `<x>.keys()`: a comprehension, or a dict that a loop over keys() fills"""
            if isinstance(e, ast.Name) and depth < 3:
                for st in ast.walk(fn_node):
                    if isinstance(st, (ast.Assign, ast.AnnAssign)) and st.value is not None:
                        tg = st.targets if isinstance(st, ast.Assign) else [st.target]
                        if len(tg) == 1 and isinstance(tg[0], ast.Name) and tg[0].id == e.id and over_keys(st.value, fn_node, depth + 1):
                            return True
                for lp in ast.walk(fn_node):
                    if isinstance(lp, ast.For) and isinstance(lp.iter, ast.Call) and isinstance(lp.iter.func, ast.Attribute) and lp.iter.func.attr == "keys" and isinstance(lp.target, ast.Name):
                        for st in ast.walk(lp):
                            if isinstance(st, ast.Assign) and any(isinstance(t, ast.Subscript) and isinstance(t.value, ast.Name) and t.value.id == e.id and isinstance(t.slice, ast.Name)
                                                                  and t.slice.id == lp.target.id for t in st.targets):
                                return True
                return False
            return isinstance(e, ast.DictComp) and bool(e.generators) and isinstance(e.generators[0].iter, ast.Call) and isinstance(e.generators[0].iter.func, ast.Attribute) \
                and e.generators[0].iter.func.attr == "keys"

        def fixed_columns(e, fn_node):
            """the columns are a literal, closed set: a dict display, or a name bound to one"""
            if isinstance(e, ast.Dict):
                return all(k is not None for k in e.keys)
            if isinstance(e, ast.Name):
                vals = [st.value for st in ast.walk(fn_node) if isinstance(st, (ast.Assign, ast.AnnAssign)) and st.value is not None
                        and any(isinstance(t, ast.Name) and t.id == e.id for t in (st.targets if isinstance(st, ast.Assign) else [st.target]))]
                return len(vals) == 1 and isinstance(vals[0], ast.Dict) and all(k is not None for k in vals[0].keys) and not any(
                    isinstance(s_, ast.Assign) and any(isinstance(t, ast.Subscript) and isinstance(t.value, ast.Name) and t.value.id == e.id for t in s_.targets) and s_.lineno > vals[0].lineno
                    and any(isinstance(p_, ast.For) and any(x is s_ for x in ast.walk(p_)) for p_ in ast.walk(fn_node)) for s_ in ast.walk(fn_node))
            return False
        good = [(m, c) for m, c in calls if any(k.arg is None and over_keys(k.value, m.node) for k in c.keywords)]
        closed = [(m, c) for m, c in calls if (any(k.arg is None for k in c.keywords) and all(fixed_columns(k.value, m.node) for k in c.keywords if k.arg is None))
                  or (not any(k.arg is None for k in c.keywords) and any(k.arg in ("x", "y", "z", "id", "pid") for k in c.keywords))]
        if good:
            m, c = good[0]
            col.ok(rule, det.qualname, m.loc(c), "the detached copy has all columns", norm_src(c)[:80], stmt="allcols")
        elif closed:
            m, c = closed[0]
            col.bad(rule, det.qualname, m.loc(c), "the detached copy has all columns",
                    f"`{norm_src(c)[:90]}` (reached from {C.name}.detach) builds the detached table from a fixed set of columns, not from `self.keys()`: per-node columns beyond the seven "
                    f"standard ones (eswc fields, labels) are missing from the detached copy", stmt="allcols", definite=True)
        else:
            m, c = calls[0]
            col.unresolved(rule, det.qualname, m.loc(c), "the detached copy has all columns", f"`{norm_src(c)[:80]}`: where the columns come from is not recognised", stmt="allcols")
