"""Columns keyed by the source's own column names travel with those names.

`DictSWC(**{k: self.get_ndata(k) for k in self.keys()}, source=...)` builds an object whose columns are stored under the *source's* column names (a tree read with custom
SWCNames has e.g. 'n', 'px', 'radius').  Unless `names=` is passed too, the new object looks its columns up under the default names: x() / type() / xyzr() raise KeyError.
Reported: a call of a tree / table constructor (DictSWC, Tree, BranchTree, cls) with a `**` argument that is a dict comprehension over `<obj>.keys()` / `<names>.cols()`
(or a local bound to one), and no `names=` keyword.  Constructors given literal column keywords (id=, x=, ...) use the default names and are not concerned.
Zero expected; kept examples in sa/fixtures/namesfwd_positive.py.
"""
from __future__ import annotations

import ast

from ..model import dotted, norm_src

CTORS = ("DictSWC", "Tree", "BranchTree", "cls")


def _own_keyed(e) -> bool:
    if isinstance(e, ast.DictComp) and e.generators:
        it = e.generators[0].iter
        return isinstance(it, ast.Call) and isinstance(it.func, ast.Attribute) and it.func.attr in ("keys", "cols")
    return False


def find(fn) -> list:
    if isinstance(fn, ast.Lambda):
        return []
    local = {}
    for st in ast.walk(fn):
        if isinstance(st, ast.Assign) and len(st.targets) == 1 and isinstance(st.targets[0], ast.Name) and _own_keyed(st.value):
            local[st.targets[0].id] = st.value
    out = []
    for c in ast.walk(fn):
        if isinstance(c, ast.Call) and (dotted(c.func) or "").rsplit(".", 1)[-1] in CTORS:
            star = [k.value for k in c.keywords if k.arg is None]
            keyed = [s for s in star if _own_keyed(s) or (isinstance(s, ast.Name) and s.id in local)]
            if keyed:
                out.append((c, any(k.arg == "names" for k in c.keywords)))
    return out


RULE_TEXT = ("columns keyed by the source's own column names travel with those names: a tree / table constructor called with `**{k: ... for k in <src>.keys() | <names>.cols()}` also gets "
             "`names=` (otherwise a tree with custom column names yields copies / detached views whose accessors raise KeyError); examples kept")


def run(ctx, col, modules, rule="R-NAMESFWD", floor=2):
    import os
    from ..model import Repo
    col.rule(rule, RULE_TEXT, floor=floor)
    n = 0
    for d in ctx.repo.all_defs():
        if d.module.name not in modules or d.is_lambda:
            continue
        for c, has in find(d.node):
            n += 1
            col.check(has, rule, d.qualname, d.loc(c), "the column names go with the columns", f"`{norm_src(c.func)}(**<own columns>, names=...)`",
                      f"`{norm_src(c)[:90]}` stores the columns under the source's column names but does not pass `names=`: for a tree with custom SWCNames the new object looks for "
                      f"'x', 'type', ... and its accessors raise KeyError -- the detached / copied object is unusable", stmt=f"namesfwd:{norm_src(c.func)}", definite=True)
    here = os.path.dirname(os.path.dirname(os.path.abspath(__file__)))
    fx = Repo(here, pkg="fixtures")
    found = {d.name: [h for _c, h in find(d.node)] for d in fx.all_defs() if d.module.name.endswith("namesfwd_positive") and not d.is_lambda}
    ok = found.get("detach_without_names") == [False] and found.get("detach_with_names") == [True] and found.get("literal_columns") == []
    col.check(ok, rule, "sa.fixtures.namesfwd_positive", "sa/fixtures/namesfwd_positive.py:1", f"lint recognises its kept examples ({n} constructor call(s) with own-keyed columns)", str(found),
              f"fixture results {found}", stmt="fixture")
    return n
