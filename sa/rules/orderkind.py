"""Per-element arrays are combined only with arrays enumerated the same way.

A tree offers several enumerations of "one value per tip / path / branch / furcation": `get_tips()` lists tips in id order, `get_paths()` lists the root-to-tip paths in
traversal order, `get_branches()` the branches in traversal order, `get_furcations()` in id order.  The k-th tip and the k-th path are in general different things (they
coincide only for depth-first numbered trees), so an element-wise combination of an array derived from one enumeration with an array derived from another pairs up unrelated
elements -- silently, because the lengths agree (one path per tip, ...).

Abstract interpretation, per class: an expression has the kind of the enumeration it was derived from by order-preserving steps (comprehension over it without a filter,
np.array / asarray, gathering `a[idx]` by an index array of that kind, arithmetic with kind-less values, norm(axis=1), abs, sqrt, astype, copy, *_like); methods and
cached properties of the class get the kind of what they return.  Reported: an element-wise binary operation, np.divide / multiply / add / subtract / where / zip over two
operands of different kinds.  Reductions and anything not in the table have no kind.  Zero expected; examples kept in sa/fixtures/orderkind_positive.py.
"""
from __future__ import annotations

import ast

from ..model import dotted, norm_src

SOURCES = {"get_tips": "tips (id order)", "get_paths": "paths (traversal order)", "get_branches": "branches (traversal order)", "get_furcations": "furcations (id order)",
           "get_bifurcations": "furcations (id order)"}
KEEP = {"array", "asarray", "asanyarray", "abs", "absolute", "fabs", "sqrt", "square", "astype", "copy", "ones_like", "zeros_like", "empty_like", "float32", "float64", "list", "tuple", "negative"}
ELEMENTWISE = {"divide", "true_divide", "multiply", "add", "subtract", "where", "minimum", "maximum", "hypot", "arctan2", "power", "zip", "isclose", "equal", "less", "greater"}


class Kinds:
    def __init__(self, cls_kinds: dict):
        self.cls = cls_kinds   # method / property name -> kind
        self.env = {}
        self.findings = []

    def kind(self, e):
        if e is None:
            return None
        if isinstance(e, ast.Name):
            return self.env.get(e.id)
        if isinstance(e, ast.Attribute):
            if isinstance(e.value, ast.Name) and e.value.id == "self":
                return self.cls.get(e.attr)
            return None
        if isinstance(e, (ast.ListComp, ast.GeneratorExp)):
            if len(e.generators) == 1 and not e.generators[0].ifs:
                k = self.kind(e.generators[0].iter)
                self.kind(e.elt)
                return k
            return None
        if isinstance(e, ast.Subscript):
            ik = self.kind(e.slice) if not isinstance(e.slice, (ast.Slice, ast.Tuple, ast.Constant)) else None
            if ik is not None:
                return ik
            bk = self.kind(e.value)
            if bk is not None and (isinstance(e.slice, ast.Tuple) and e.slice.elts and isinstance(e.slice.elts[0], ast.Slice) and e.slice.elts[0].lower is None and e.slice.elts[0].upper is None
                                   and e.slice.elts[0].step is None):
                return bk
            return None
        if isinstance(e, ast.UnaryOp):
            return self.kind(e.operand)
        if isinstance(e, ast.BinOp):
            return self.combine(e, [e.left, e.right])
        if isinstance(e, ast.Compare) and len(e.comparators) == 1:
            return self.combine(e, [e.left, e.comparators[0]])
        if isinstance(e, ast.IfExp):
            a, b = self.kind(e.body), self.kind(e.orelse)
            return a if a == b else None
        if isinstance(e, ast.Call):
            fn = dotted(e.func) or ""
            last = fn.rsplit(".", 1)[-1] if fn else (e.func.attr if isinstance(e.func, ast.Attribute) else "")
            if last in SOURCES:
                return SOURCES[last]
            if isinstance(e.func, ast.Attribute) and isinstance(e.func.value, ast.Name) and e.func.value.id == "self" and last in self.cls:
                return self.cls[last]
            if last in ELEMENTWISE:
                ops = list(e.args) + [k.value for k in e.keywords if k.arg in ("out", "where")]
                return self.combine(e, ops)
            if last == "norm":
                ax = [k for k in e.keywords if k.arg == "axis"]
                if ax and norm_src(ax[0].value) in ("1", "-1") and e.args:
                    return self.kind(e.args[0])
                for a in e.args:
                    self.kind(a)
                return None
            if last in KEEP:
                if isinstance(e.func, ast.Attribute) and not fn.startswith(("np.", "numpy.")):
                    return self.kind(e.func.value)
                return self.kind(e.args[0]) if e.args else None
            for a in e.args:
                self.kind(a)
            for k in e.keywords:
                self.kind(k.value)
            return None
        return None

    def combine(self, node, operands):
        ks = [(self.kind(o), o) for o in operands]
        seen = [(k, o) for k, o in ks if k is not None]
        kinds = {k for k, _o in seen}
        if len(kinds) > 1:
            (k1, o1), (k2, o2) = seen[0], next((k, o) for k, o in seen if k != seen[0][0])
            self.findings.append((node, f"`{norm_src(o1)[:40]}` is enumerated as {k1}, `{norm_src(o2)[:40]}` as {k2}"))
            return None
        return seen[0][0] if seen else None

    def run(self, fn):
        for _ in range(2):
            for st in ast.walk(fn):
                if isinstance(st, ast.Assign) and len(st.targets) == 1 and isinstance(st.targets[0], ast.Name):
                    self.env[st.targets[0].id] = self.kind(st.value)
                elif isinstance(st, ast.AnnAssign) and st.value is not None and isinstance(st.target, ast.Name):
                    self.env[st.target.id] = self.kind(st.value)
        self.findings = []
        ret = set()
        for st in ast.walk(fn):
            if isinstance(st, ast.Assign):
                self.kind(st.value)
            elif isinstance(st, ast.Expr):
                self.kind(st.value)
            elif isinstance(st, ast.Return) and st.value is not None:
                ret.add(self.kind(st.value))
        # de-duplicate
        uniq, seen = [], set()
        for n, m in self.findings:
            key = (getattr(n, "lineno", 0), getattr(n, "col_offset", 0))
            if key not in seen:
                seen.add(key)
                uniq.append((n, m))
        self.findings = uniq
        return ret.pop() if len(ret) == 1 else None


def analyse_class(cls_node: ast.ClassDef):
    """-> (kinds of the methods, [(method, node, message)])"""
    methods = [m for m in cls_node.body if isinstance(m, (ast.FunctionDef,))]
    cls_kinds = {}
    for _ in range(3):
        for m in methods:
            k = Kinds(cls_kinds).run(m)
            if k is not None:
                cls_kinds[m.name] = k
    out = []
    for m in methods:
        kk = Kinds(cls_kinds)
        kk.run(m)
        out += [(m, n, msg) for n, msg in kk.findings]
    return cls_kinds, out


RULE_TEXT = ("per-element arrays are combined only with arrays enumerated the same way: values derived from get_tips() (id order), get_paths() / get_branches() (traversal order), "
             "get_furcations() (id order) carry that enumeration through order-preserving steps; an element-wise operation over two different enumerations pairs the k-th tip with the "
             "k-th path of another order (equal only for depth-first numbered trees); zero expected, examples kept")


def run(ctx, col, modules, rule="R-ORDERKIND"):
    import os
    from ..model import Repo
    col.rule(rule, RULE_TEXT, floor=1)
    n = hits = 0
    for c in ctx.repo.classes.values():
        if c.module.name not in modules:
            continue
        n += 1
        _k, found = analyse_class(c.node)
        for m, node, msg in found:
            hits += 1
            col.bad(rule, f"{c.qualname}.{m.name}", f"{c.module.relpath}:{getattr(node, 'lineno', m.lineno)}", "element-wise operands are enumerated the same way",
                    f"`{norm_src(node)[:80]}`: {msg}: the two arrays have the same length but list different things at the same position unless the tree happens to be numbered depth-first; "
                    f"for any other valid numbering each value is paired with another path's / tip's value", stmt=f"orderkind:{m.name}", definite=True)
    here = os.path.dirname(os.path.dirname(os.path.abspath(__file__)))
    fx = Repo(here, pkg="fixtures")
    found = {}
    for c in fx.classes.values():
        if c.module.name.endswith("orderkind_positive"):
            _k, f = analyse_class(c.node)
            for m in c.node.body:
                if isinstance(m, ast.FunctionDef):
                    found[m.name] = sum(1 for mm, _n, _m in f if mm is m)
    ok = found.get("tortuosity_tips_over_paths") == 1 and found.get("tortuosity_per_path") == 0 and found.get("tip_distance_over_total") == 0
    col.check(ok, rule, "sa.fixtures.orderkind_positive", "sa/fixtures/orderkind_positive.py:1", f"lint recognises its kept examples ({n} classes scanned, {hits} hit(s))", str(found),
              f"fixture results {found}", stmt="fixture")
    return hits
