"""Directory listings through `glob` with the directory pasted into the pattern.

`glob.glob(os.path.join(root, "**", "*" + ext), recursive=True)` treats `root` itself as a pattern: a directory whose name contains
`[`, `]`, `*` or `?` (`batch[1]`, `group[ctrl]`) matches nothing (or something else), and -- unlike os.walk / os.listdir -- glob skips names
that begin with a dot.  A population built over such a directory is silently empty or incomplete.  Reported: a call of glob.glob / glob.iglob
whose pattern contains a variable that is not wrapped in glob.escape(...) and that has no root_dir= argument.  Zero expected; examples kept.
"""
from __future__ import annotations

import ast

from ..model import dotted, norm_src


def _single_bindings(fn) -> dict:
    out, twice = {}, set()
    for n in ast.walk(fn):
        if isinstance(n, ast.Assign) and len(n.targets) == 1 and isinstance(n.targets[0], ast.Name):
            k = n.targets[0].id
            if k in out:
                twice.add(k)
            out[k] = n.value
    for k in twice:
        out.pop(k, None)
    return out


def _unescaped_vars(e, b, params, depth=3) -> list:
    """parameter names that reach the pattern expression outside glob.escape(...)"""
    out = []
    if isinstance(e, ast.Call) and (dotted(e.func) or "").rsplit(".", 1)[-1] == "escape":
        return out
    if isinstance(e, ast.Name):
        if e.id in params:
            out.append(e.id)
        elif e.id in b and depth > 0:
            out.extend(_unescaped_vars(b[e.id], b, params, depth - 1))
        return out
    if isinstance(e, ast.JoinedStr):
        # f"*{ext}": a formatted suffix after a literal wildcard is part of the pattern by intention; a leading `{root}` is not
        for i, v in enumerate(e.values):
            if isinstance(v, ast.FormattedValue) and i == 0:
                out.extend(_unescaped_vars(v.value, b, params, depth))
        return out
    if isinstance(e, ast.BinOp) and isinstance(e.op, ast.Add):
        # "*" + ext : the right operand of a literal wildcard is a suffix
        if isinstance(e.left, ast.Constant):
            return out
        return _unescaped_vars(e.left, b, params, depth) + _unescaped_vars(e.right, b, params, depth)
    for c in ast.iter_child_nodes(e):
        if isinstance(c, ast.expr):
            out.extend(_unescaped_vars(c, b, params, depth))
    return out


def find(fn) -> list:
    if isinstance(fn, ast.Lambda):
        return []
    a = fn.args
    params = {x.arg for x in a.posonlyargs + a.args + a.kwonlyargs} - {"self", "cls"}
    b = _single_bindings(fn)
    out = []
    for c in ast.walk(fn):
        if not isinstance(c, ast.Call):
            continue
        fnm = dotted(c.func) or ""
        if fnm.rsplit(".", 1)[-1] not in ("glob", "iglob") or not (fnm.startswith("glob.") or fnm in ("glob", "iglob")):
            continue
        if any(k.arg == "root_dir" for k in c.keywords) or not c.args:
            continue
        bad = _unescaped_vars(c.args[0], b, params)
        if bad:
            out.append((c, bad[0]))
    return out


def check(ctx, col, rule: str, modules: tuple):
    import os
    from ..model import Repo
    n = hits = 0
    for d in ctx.repo.all_defs():
        if d.module.name not in modules or d.is_lambda or d.parent is not None:
            continue
        n += 1
        for c, name in find(d.node):
            hits += 1
            col.bad(rule, d.qualname, d.loc(c), "every file below the directory is found, whatever the directory is called",
                    f"`{norm_src(c)[:80]}` pastes `{name}` into a glob pattern without glob.escape / root_dir=: a directory name containing [ ] * or ? is read as a "
                    f"pattern and matches nothing, and glob skips dot-prefixed folders that os.walk visits -- the population is silently empty or incomplete",
                    stmt=f"glob:{name}", definite=True)
    here = os.path.dirname(os.path.dirname(os.path.abspath(__file__)))
    fx = Repo(here, pkg="fixtures")
    found = {d.name: len(find(d.node)) for d in fx.all_defs() if d.module.name.endswith("glob_positive") and not d.is_lambda and d.parent is None}
    ok = found.get("listing_by_glob") == 1 and found.get("listing_escaped") == 0 and found.get("listing_by_walk") == 0
    col.check(ok, rule, "sa.fixtures.glob_positive", "sa/fixtures/glob_positive.py:1",
              f"lint recognises its kept positive examples ({n} defs scanned, {hits} hit(s))", str(found), f"fixture results {found}", stmt="fixture")
    return hits


RULE_TEXT = ("directory listings do not read the directory's name as a pattern: no glob.glob / glob.iglob whose pattern contains a directory parameter outside "
             "glob.escape(...) / without root_dir=; zero expected, positive examples kept")


def run(ctx, col, modules: tuple, rule: str = "R-GLOB"):
    col.rule(rule, RULE_TEXT, floor=1)
    return check(ctx, col, rule, tuple(modules))
