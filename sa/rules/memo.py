"""Caches: a value kept under a key must be determined by that key.

Sites recognised
  * `D[K] = V` in a function that also looks `K` up in `D` (`K in D`, `K not in D`, `D.get(K)`, `D[K]`), D being a local /
    closure / attribute dictionary (also through an alias such as `cache = self.__dict__.setdefault("_c", {})`);
  * `functools.lru_cache` / `cache` / `cached_property` decorators.
Verdicts
  * the value is computed from a parameter (or loop variable) that the key does not mention            -> VIOLATION
  * the key mentions only a projection (`t.source`, `s.radius`) of a variable the value uses whole     -> VIOLATION
  * a decorator cache on a function that reads a file (the file can be rewritten under the same name)  -> VIOLATION
  * a view object (node / path / branch / compartment) caching what it read from its owner            -> VIOLATION
  * any other cache that is not in the table of caches confirmed by reading                            -> UNRESOLVED
The sites of today's tree are listed in CONFIRMED with one line of reason each.
"""

from __future__ import annotations

import ast

from ..model import Def, dotted, norm_src, own_nodes

CONFIRMED = {
    # (def qualname, what) : reason
    ("swcgeom.analysis.feature_extractor.Features.node_features", "cached_property"): "a feature object over self.tree, which a Features object never rebinds",
    ("swcgeom.analysis.feature_extractor.Features.furcation_features", "cached_property"): "same",
    ("swcgeom.analysis.feature_extractor.Features.tip_features", "cached_property"): "same",
    ("swcgeom.analysis.feature_extractor.Features.branch_features", "cached_property"): "same",
    ("swcgeom.analysis.feature_extractor.Features.path_features", "cached_property"): "same",
    ("swcgeom.analysis.feature_extractor.Features.sholl", "cached_property"): "same (default Sholl object; explicit steps go through get_sholl)",
    ("swcgeom.analysis.features.NodeFeatures._branch_tree", "cached_property"): "topology-derived structure of self.tree kept by a per-tree analysis object; coordinates are read through it on every request",
    ("swcgeom.analysis.features.FurcationFeatures.nodes", "cached_property"): "a topology mask (furcation or not) of the per-tree analysis object",
    ("swcgeom.analysis.features.TipFeatures.nodes", "cached_property"): "a topology mask (tip or not) of the per-tree analysis object",
    ("swcgeom.analysis.features.PathFeatures._paths", "cached_property"): "path VIEWS of self.tree (index lists); lengths are computed from the tree on every request",
    ("swcgeom.analysis.features.BranchFeatures._branches", "cached_property"): "branch VIEWS of self.tree (index lists); values are computed from the tree on every request",
    ("swcgeom.images.io.TeraflyImageStack.__init__.<locals>.listdir", "cache"): "terafly directories are read-only inputs (outside C20's save/load clause)",
    ("swcgeom.images.io.TeraflyImageStack.__init__.<locals>.read_patch", "lru_cache"): "same",
}

FILE_READERS = ("open", "TiffFile", "imread", "read", "load", "fromfile", "listdir", "asarray")
VIEW_MODULES = ("swcgeom.core.node", "swcgeom.core.path", "swcgeom.core.branch", "swcgeom.core.compartment", "swcgeom.core.segment")


def _names(e):
    return {n.id for n in ast.walk(e) if isinstance(n, ast.Name) and isinstance(n.ctx, ast.Load)}


def _whole_uses(e, name):
    """does `name` occur other than as the base of an attribute access?"""
    attr_bases = {id(a.value) for a in ast.walk(e) if isinstance(a, ast.Attribute) and isinstance(a.value, ast.Name)}
    return any(isinstance(n, ast.Name) and n.id == name and id(n) not in attr_bases for n in ast.walk(e))


def _keys_only(e, name) -> bool:
    """every occurrence of `name` in e yields only its keys: `sorted(name)`, `tuple(name)`, `list(name)`, `set(name)`, `frozenset(name)`,
    `len(name)`, `iter(name)`, `*name`, `name.keys()`"""
    ok_ids = set()
    for n in ast.walk(e):
        if isinstance(n, ast.Call) and isinstance(n.func, ast.Name) and n.func.id in ("sorted", "tuple", "list", "set", "frozenset", "len", "iter") \
                and len(n.args) == 1 and isinstance(n.args[0], ast.Name) and n.args[0].id == name:
            ok_ids.add(id(n.args[0]))
        if isinstance(n, ast.Starred) and isinstance(n.value, ast.Name) and n.value.id == name:
            ok_ids.add(id(n.value))
        if isinstance(n, ast.Starred) and isinstance(n.value, ast.Call) and isinstance(n.value.func, ast.Name) and n.value.func.id in ("sorted",) \
                and len(n.value.args) == 1 and isinstance(n.value.args[0], ast.Name) and n.value.args[0].id == name:
            ok_ids.add(id(n.value.args[0]))
        if isinstance(n, ast.Call) and isinstance(n.func, ast.Attribute) and n.func.attr == "keys" and isinstance(n.func.value, ast.Name) \
                and n.func.value.id == name:
            ok_ids.add(id(n.func.value))
    occ = [n for n in ast.walk(e) if isinstance(n, ast.Name) and n.id == name]
    return bool(occ) and all(id(n) in ok_ids for n in occ)


def _fn_of(d_node, node):
    owner = d_node
    for f in ast.walk(d_node):
        if isinstance(f, (ast.FunctionDef, ast.AsyncFunctionDef, ast.Lambda)) and any(x is node for x in ast.walk(f)):
            owner = f
    return owner


def _params(fn):
    a = fn.args
    out = [x.arg for x in a.posonlyargs + a.args + a.kwonlyargs]
    if a.vararg:
        out.append(a.vararg.arg)
    if a.kwarg:
        out.append(a.kwarg.arg)
    return out


def _loop_vars(fn, node):
    out = set()
    for x in ast.walk(fn):
        if isinstance(x, (ast.For, ast.comprehension)) and any(y is node for y in ast.walk(x)):
            out |= {n.id for n in ast.walk(x.target) if isinstance(n, ast.Name)}
    return out


def _assigned(fn):
    """simple: name -> [value exprs]; opaque: names bound by unpacking, with-as, augmented assignment, for targets"""
    simple, opaque = {}, set()
    for n in ast.walk(fn):
        if isinstance(n, ast.Assign):
            for t in n.targets:
                if isinstance(t, ast.Name):
                    simple.setdefault(t.id, []).append(n.value)
                elif isinstance(t, (ast.Tuple, ast.List)):
                    if isinstance(n.value, (ast.Tuple, ast.List)) and len(n.value.elts) == len(t.elts):
                        for tt, vv in zip(t.elts, n.value.elts):
                            if isinstance(tt, ast.Name):
                                simple.setdefault(tt.id, []).append(vv)
                    else:
                        opaque |= {x.id for x in ast.walk(t) if isinstance(x, ast.Name)}
        elif isinstance(n, ast.AnnAssign) and n.value is not None and isinstance(n.target, ast.Name):
            simple.setdefault(n.target.id, []).append(n.value)
        elif isinstance(n, ast.AugAssign) and isinstance(n.target, ast.Name):
            opaque.add(n.target.id)
        elif isinstance(n, ast.NamedExpr):
            simple.setdefault(n.target.id, []).append(n.value)
    return simple, opaque


def _leaves(exprs, simple, opaque, params, depth=5):
    """(leaf names, fully expanded expressions) of exprs, reading through plainly assigned locals"""
    out, seen, todo, allx = set(), set(), [(e, depth) for e in exprs], list(exprs)
    while todo:
        e, k = todo.pop()
        for n in ast.walk(e):
            if not (isinstance(n, ast.Name) and isinstance(n.ctx, ast.Load)):
                continue
            if n.id in simple and n.id not in opaque and n.id not in params and k > 0:
                if n.id not in seen:
                    seen.add(n.id)
                    for v in simple[n.id]:
                        allx.append(v)
                        todo.append((v, k - 1))
            else:
                out.add(n.id)
    return out, allx


def _projections(exprs, name) -> set:
    """attributes / methods of `name` that the expressions read: `name.a`, `name.m()` -> {a, m}"""
    out = set()
    for e in exprs:
        for a in ast.walk(e):
            if isinstance(a, ast.Attribute) and isinstance(a.value, ast.Name) and a.value.id == name:
                out.add(a.attr)
    return out


ALLOCATORS = ("zeros", "empty", "ones", "full", "zeros_like", "empty_like", "ones_like", "full_like", "list", "dict", "set", "defaultdict", "array")


def _fillers(fn, vname: str) -> list:
    """expressions that flow into a container bound to `vname` after its allocation: right sides of `vname[...] = e` / `vname[...] op= e`,
    arguments of `vname.append/extend/add/update(...)` (anywhere in fn, nested defs included), and -- when a nested def does such a store --
    the arguments of every call of fn that passes that nested def (the traversal / map that drives the filling)"""
    out, filling_defs = [], set()
    def stores_in(node):
        res = []
        for n in ast.walk(node):
            if isinstance(n, (ast.Assign, ast.AugAssign)):
                tg = n.targets if isinstance(n, ast.Assign) else [n.target]
                for t in tg:
                    b = t
                    while isinstance(b, ast.Subscript):
                        b = b.value
                    if isinstance(t, ast.Subscript) and isinstance(b, ast.Name) and b.id == vname:
                        res.append(n.value)
                        res.append(t.slice)
            if isinstance(n, ast.Call) and isinstance(n.func, ast.Attribute) and isinstance(n.func.value, ast.Name) and n.func.value.id == vname \
                    and n.func.attr in ("append", "extend", "add", "update", "insert", "setdefault"):
                res.extend(n.args)
        return res
    out.extend(stores_in(fn))
    for f in ast.walk(fn):
        if f is not fn and isinstance(f, (ast.FunctionDef, ast.AsyncFunctionDef, ast.Lambda)) and stores_in(f):
            filling_defs.add(getattr(f, "name", None))
    if filling_defs:
        for c in ast.walk(fn):
            if isinstance(c, ast.Call):
                passed = [a for a in list(c.args) + [k.value for k in c.keywords] if isinstance(a, ast.Name) and a.id in filling_defs]
                if passed:
                    out.extend(list(c.args) + [k.value for k in c.keywords])
    return out


def _lifetime(D, fn, simple, params):
    root = D
    while isinstance(root, (ast.Attribute, ast.Subscript, ast.Call)):
        root = root.value if not isinstance(root, ast.Call) else root.func
    if not isinstance(root, ast.Name):
        return "object"
    if root.id in ("self", "cls"):
        return "object"
    if root.id in simple and root.id not in params:
        vals = simple[root.id]
        if all(isinstance(v, (ast.Dict, ast.DictComp)) or (isinstance(v, ast.Call) and dotted(v.func) in ("dict", "defaultdict", "collections.defaultdict", "OrderedDict"))
               for v in vals):
            return "call"
        if any("self" in _names(v) for v in vals):
            return "object"
        return "call"
    if fn.args.kwarg is not None and root.id == fn.args.kwarg.arg or fn.args.vararg is not None and root.id == fn.args.vararg.arg:
        return "call"   # the **kwargs dict is built afresh for every call (filling defaults into it is not a cache)
    if root.id in params:
        return "caller"
    return "closure"


def sites(d: Def):
    """[(store stmt, D expr, K expr, V expr, owner fn)]"""
    out = []
    for st in ast.walk(d.node):
        if not (isinstance(st, ast.Assign) and len(st.targets) == 1 and isinstance(st.targets[0], ast.Subscript)):
            continue
        tgt = st.targets[0]
        D, K, V = tgt.value, tgt.slice, st.value
        if not isinstance(D, (ast.Name, ast.Attribute)):
            continue
        fn = _fn_of(d.node, st)
        dsrc, ksrc = norm_src(D), norm_src(K)
        looked = False
        for n in ast.walk(fn):
            if isinstance(n, ast.Compare) and len(n.ops) == 1 and isinstance(n.ops[0], (ast.In, ast.NotIn)) \
                    and norm_src(n.comparators[0]) == dsrc and norm_src(n.left) == ksrc:
                looked = True
            if isinstance(n, ast.Call) and isinstance(n.func, ast.Attribute) and n.func.attr in ("get", "setdefault", "pop") \
                    and norm_src(n.func.value) == dsrc and n.args and norm_src(n.args[0]) == ksrc:
                looked = True
        if looked:
            out.append((st, D, K, V, fn))
    return out


def decorators(d: Def):
    out = []
    for f in ast.walk(d.node):
        if isinstance(f, (ast.FunctionDef, ast.AsyncFunctionDef)):
            for dec in f.decorator_list:
                nm = dotted(dec.func if isinstance(dec, ast.Call) else dec) or ""
                last = nm.split(".")[-1]
                if last in ("lru_cache", "cache", "cached_property"):
                    out.append((f, last))
    return out


def check(ctx, col, rule: str, modules: tuple, what_prop: str = "a cached value is determined by its key"):
    repo = ctx.repo
    n_sites = 0
    seen_dec = set()
    for d in repo.all_defs():
        if d.module.name not in modules or d.is_lambda or d.parent is not None and False:
            continue
        # decorator caches (reported once, at the decorated def)
        for f, kind in decorators(d):
            if id(f) in seen_dec:
                continue
            seen_dec.add(id(f))
            q = d.qualname if f is d.node else f"{d.qualname}.<locals>.{f.name}"
            n_sites += 1
            if (q, kind) in CONFIRMED:
                col.ok(rule, q, d.loc(f), what_prop, f"@{kind}: confirmed by reading -- {CONFIRMED[(q, kind)]}", stmt=f"memo:@{kind}")
                continue
            reads = [c for c in ast.walk(f) if isinstance(c, ast.Call) and (dotted(c.func) or "").split(".")[-1] in FILE_READERS]
            if reads:
                col.bad(rule, q, d.loc(f), what_prop,
                        f"@{kind} on `{f.name}`, which reads a file (`{norm_src(reads[0])[:50]}`): the result is kept under the file NAME, so after the file is "
                        f"written again under that name a read returns the old contents", stmt=f"memo:@{kind}", definite=True)
            else:
                col.unresolved(rule, q, d.loc(f), what_prop, f"@{kind} on `{f.name}` is not among the caches confirmed by reading (sa/rules/memo.py CONFIRMED)",
                               stmt=f"memo:@{kind}")
        if d.parent is not None:
            continue  # nested defs are visited through their outermost def
        for st, D, K, V, fn in sites(d):
            n_sites += 1
            params = set(_params(fn))
            simple, opaque = _assigned(fn)
            life = _lifetime(D, fn, simple, params)
            varying = _loop_vars(fn, st) | opaque
            if life != "call":
                varying |= params
            vin, vexp = _leaves([V], simple, opaque, params)
            kin, kexp = _leaves([K], simple, opaque, params)
            if isinstance(V, ast.Name) and V.id in simple and V.id not in params and any(
                    isinstance(v, ast.Call) and (dotted(v.func) or "").rsplit(".", 1)[-1] in ALLOCATORS or isinstance(v, (ast.List, ast.Dict, ast.Set)) for v in simple[V.id]):
                # the value is a container allocated here and filled afterwards: what it is filled from belongs to the value
                fin, fexp = _leaves(_fillers(fn, V.id), simple, opaque, params)
                vin, vexp = vin | (fin - {V.id}), vexp + fexp
            vin, kin = vin & varying, kin & varying
            missing = sorted(vin - kin - {"self", "cls"})
            proj = sorted(n for n in (vin & kin) if any(_whole_uses(e, n) for e in vexp) and not any(_whole_uses(e, n) for e in kexp))
            # a dict of options (the function's ** parameter) that the key mentions only through its KEYS: `sorted(kwargs)`, `tuple(kwargs)`,
            # `*kwargs`, `kwargs.keys()` -- the option VALUES are used for the value and are not in the key
            kwname = fn.args.kwarg.arg if fn.args.kwarg is not None else None
            keys_only = kwname is not None and kwname in (vin & kin) and any(_whole_uses(e, kwname) for e in vexp) \
                and all(_keys_only(e, kwname) for e in kexp if kwname in _names(e))
            if keys_only and not missing and not proj:
                col.bad(rule, d.qualname, d.loc(st), what_prop,
                        f"`{norm_src(st)[:80]}`: the key `{norm_src(kexp[-1])[:60]}` mentions only the NAMES of the options in `{kwname}`, the value is computed "
                        f"from their values: a later request with the same option names and other values gets the value kept for the first one",
                        stmt=f"memo:{norm_src(D)}", definite=True)
                continue
            q = d.qualname
            dsrc = norm_src(D)
            _, dexp = _leaves([D], simple, opaque, params)
            drefs = " ".join(norm_src(e) for e in dexp)
            if missing:
                col.bad(rule, q, d.loc(st), what_prop,
                        f"`{norm_src(st)[:80]}`: the value is computed from `{missing[0]}`, which the key `{norm_src(K)}` does not mention: a later request with another "
                        f"`{missing[0]}` gets the value kept for the first one", stmt=f"memo:{dsrc}", definite=True)
            elif not proj and (pdiff := [(n, sorted(_projections(vexp, n) - _projections(kexp, n)), sorted(_projections(kexp, n))) for n in sorted(vin & kin)
                                         if n not in ("self", "cls") and not any(_whole_uses(e, n) for e in kexp) and not any(_whole_uses(e, n) for e in vexp)
                                         and _projections(kexp, n) and _projections(vexp, n) - _projections(kexp, n)]):
                n_, extra, have = pdiff[0]
                col.bad(rule, q, d.loc(st), what_prop,
                        f"`{norm_src(st)[:80]}`: the key mentions `{n_}` only through {', '.join(f'{n_}.{a}' for a in have)}, the value is computed from "
                        f"{', '.join(f'{n_}.{a}' for a in extra[:4])}: two different `{n_}` that agree on the key's attributes share one value", stmt=f"memo:{dsrc}", definite=True)
            elif proj:
                col.bad(rule, q, d.loc(st), what_prop,
                        f"`{norm_src(st)[:80]}`: the key `{norm_src(kexp[-1])[:50]}` mentions only attributes of `{proj[0]}` while the value is computed from `{proj[0]}` itself: "
                        f"two different `{proj[0]}` with equal attributes share one value", stmt=f"memo:{dsrc}", definite=True)
            elif d.module.name in VIEW_MODULES and "self" in drefs and any("attach" in norm_src(e) for e in vexp):
                col.bad(rule, q, d.loc(st), what_prop,
                        f"`{norm_src(st)[:80]}`: a view keeps what it read from its owner; a later write through the owner (or another view) is not seen", stmt=f"memo:{dsrc}", definite=True)
            elif life == "call":
                col.ok(rule, q, d.loc(st), what_prop, f"`{norm_src(st)[:60]}`: a table local to one call, keyed by everything that varies inside it", stmt=f"memo:{dsrc}")
            else:
                col.unresolved(rule, q, d.loc(st), what_prop, f"`{norm_src(st)[:80]}` is a cache that is not among those confirmed by reading", stmt=f"memo:{dsrc}")
    if not getattr(ctx, "_memo_fixture", False):
        # kept positive / negative examples must be recognised on every run
        import os
        from ..model import Repo
        from ..report import Collector, VIOLATION, OK

        class _C:
            pass
        fctx = _C()
        fctx.repo = Repo(os.path.dirname(os.path.dirname(os.path.abspath(__file__))), pkg="fixtures")
        fctx._memo_fixture = True
        fcol = Collector("fixture")
        fcol.rule("R-F", "fixture", floor=0)
        check(fctx, fcol, "R-F", ("fixtures.memo_positive",))
        got = {i.construct.split(".")[-1] if not i.construct.endswith(".get") else "KeyOmitsKwargs": i.verdict for i in fcol.instances if i.construct != "memo-scan"}
        want = {"KeyOmitsKwargs": VIOLATION, "key_is_projection": VIOLATION, "cached_file_read": VIOLATION, "complete_key": OK}
        col.check(got == want, rule, "sa.fixtures.memo_positive", "sa/fixtures/memo_positive.py:1", "the cache lint recognises its kept examples", str(got),
                  f"fixture results {got}, expected {want}", stmt="fixture", definite=True)
    col.ok(rule, "memo-scan", "", f"caches in {len(modules)} module(s) looked at", f"{n_sites} site(s)", stmt="memo-scan")
    col.analysed[f"memo_sites:{rule}"] = n_sites
    return n_sites


RULE_TEXT = ("caches: a value kept under a key is determined by that key -- no parameter or loop variable used for the value is missing from the key, the key is "
             "not a mere projection of the object the value is computed from, no decorator cache on a function that reads a file, no view object caching what "
             "it read from its owner; caches that are not in the table confirmed by reading are UNRESOLVED; kept examples must be recognised on every run")


def run(ctx, col, modules: tuple, rule: str = "R-CACHEKEY"):
    col.rule(rule, RULE_TEXT, floor=2)
    return check(ctx, col, rule, tuple(modules))
