"""Hand-rolled linear interpolation divides by the length of a segment.

`t = (s - xp[i]) / (xp[i + 1] - xp[i])` is 0/0 = NaN wherever two consecutive abscissae coincide.  Along a neurite branch the abscissae
are cumulative arc lengths, and zero-length segments are legal input (a sample point stored twice, a branch of no length); `np.interp`
handles them, a quotient does not.  Reported: a division whose divisor -- read through locals bound once -- is the difference of one array
at two consecutive positions (`A[i + 1] - A[i]`, `A[1:] - A[:-1]`, `np.diff(A)`), in a function that takes no precaution at all
(`np.where` / `np.errstate` / `nan_to_num` / `np.maximum(., eps)` / `np.divide(..., where=)` / a test of the divisor).  Zero expected
in the resampling code; examples kept.
"""
from __future__ import annotations

import ast
import copy

from ..model import dotted, norm_src

GUARD_CALLS = ("where", "errstate", "nan_to_num", "maximum", "clip", "divide", "isclose", "isfinite", "isnan", "finfo", "interp")


def _single_bindings(fn) -> dict:
    out, twice = {}, set()
    for n in ast.walk(fn):
        if isinstance(n, ast.Assign) and len(n.targets) == 1 and isinstance(n.targets[0], ast.Name):
            k = n.targets[0].id
            if k in out:
                twice.add(k)
            out[k] = n.value
        elif isinstance(n, (ast.AugAssign, ast.For, ast.comprehension)):
            t = n.target
            for x in ast.walk(t):
                if isinstance(x, ast.Name):
                    twice.add(x.id)
    for k in twice:
        out.pop(k, None)
    return out


class _Subst(ast.NodeTransformer):
    def __init__(self, b, depth):
        self.b, self.depth = b, depth

    def visit_Subscript(self, n):
        return n  # an indexed array stays as written: `A[i + 1] - A[i]` is recognised by the NAME of A on both sides

    def visit_Name(self, n):
        if isinstance(n.ctx, ast.Load) and n.id in self.b and self.depth > 0:
            return _Subst(self.b, self.depth - 1).visit(copy.deepcopy(self.b[n.id]))
        return n


def _plus_one(a, b) -> bool:
    """a == b + 1 syntactically"""
    if isinstance(a, ast.BinOp) and isinstance(a.op, ast.Add):
        for x, y in ((a.left, a.right), (a.right, a.left)):
            if isinstance(y, ast.Constant) and y.value == 1 and norm_src(x) == norm_src(b):
                return True
    return False


def _consecutive_difference(e):
    """the array A if e is A[i+1] - A[i] / A[1:] - A[:-1] / np.diff(A)(...)"""
    while isinstance(e, ast.Subscript) and isinstance(e.value, ast.Call) and (dotted(e.value.func) or "").endswith("diff"):
        e = e.value
    if isinstance(e, ast.Call) and (dotted(e.func) or "").rsplit(".", 1)[-1] in ("diff", "ediff1d") and e.args:
        return norm_src(e.args[0])
    if isinstance(e, ast.BinOp) and isinstance(e.op, ast.Sub) and isinstance(e.left, ast.Subscript) and isinstance(e.right, ast.Subscript) \
            and norm_src(e.left.value) == norm_src(e.right.value):
        i1, i0 = e.left.slice, e.right.slice
        if _plus_one(i1, i0):
            return norm_src(e.left.value)
        if isinstance(i1, ast.Slice) and isinstance(i0, ast.Slice) and i1.lower is not None and norm_src(i1.lower) == "1" and i1.upper is None \
                and i0.lower is None and i0.upper is not None and norm_src(i0.upper) == "-1":
            return norm_src(e.left.value)
    return None


def find(fn) -> list:
    if isinstance(fn, ast.Lambda):
        return []
    b = _single_bindings(fn)
    out = []
    parents = {}
    for p_ in ast.walk(fn):
        for c_ in ast.iter_child_nodes(p_):
            parents[id(c_)] = p_
    for n in ast.walk(fn):
        if not (isinstance(n, ast.BinOp) and isinstance(n.op, ast.Div)):
            continue
        den = _Subst(b, 3).visit(copy.deepcopy(n.right))
        arr = _consecutive_difference(den)
        if arr is None:
            # the total length of the polyline: the last element of a cumulative sum
            e_ = n.right
            for _ in range(3):
                if isinstance(e_, ast.Name) and e_.id in b:
                    e_ = b[e_.id]
            if isinstance(e_, ast.Subscript) and norm_src(e_.slice) in ("-1",) and isinstance(e_.value, ast.Name):
                src_ = b.get(e_.value.id)
                if src_ is not None and any(isinstance(c_, ast.Call) and (dotted(c_.func) or "").rsplit(".", 1)[-1] == "cumsum" for c_ in ast.walk(src_)):
                    # only when the dividend is a length along the same polyline (a fraction of the total is being formed)
                    num_names = {x.id for x in ast.walk(n.left) if isinstance(x, ast.Name)}
                    if e_.value.id in num_names or any(x in num_names for x in ("new_distances", "cumulative", "cumulative_distances", "xp")):
                        arr = e_.value.id + " (total length)"
        if arr is None:
            continue
        # precautions: the division runs under np.errstate; or a guard call / a comparison mentions the divisor (by name or by text) or the quotient
        den_src = norm_src(n.right)
        watch = {den_src} | {x.id for x in ast.walk(n.right) if isinstance(x, ast.Name)}
        up = parents.get(id(n))
        while up is not None and not isinstance(up, ast.stmt):
            up = parents.get(id(up))
        if isinstance(up, ast.Assign) and len(up.targets) == 1 and isinstance(up.targets[0], ast.Name):
            watch.add(up.targets[0].id)  # the quotient's own name: nan_to_num(t), np.where(np.isfinite(t), ...)
        guarded = False
        q = parents.get(id(n))
        while q is not None:
            if isinstance(q, ast.With) and any("errstate" in norm_src(i.context_expr) for i in q.items):
                guarded = True
            q = parents.get(id(q))
        for c in ast.walk(fn):
            if isinstance(c, ast.Call) and (dotted(c.func) or "").rsplit(".", 1)[-1] in GUARD_CALLS and (dotted(c.func) or "").rsplit(".", 1)[-1] not in ("clip", "interp"):
                txt = norm_src(c)
                names = {x.id for x in ast.walk(c) if isinstance(x, ast.Name)}
                if any(x.id in watch for x in ast.walk(c) if isinstance(x, ast.Name)) and not any(x is n for x in ast.walk(c)) or den_src in txt and not any(x is n for x in ast.walk(c)):
                    guarded = True
                if any(x is n for x in ast.walk(c)) and (dotted(c.func) or "").rsplit(".", 1)[-1] in ("where", "divide", "nan_to_num"):
                    guarded = True
            if isinstance(c, ast.Compare) and any(isinstance(x, ast.Name) and x.id in watch for x in ast.walk(c)) and den_src in norm_src(c):
                guarded = True
        if not guarded:
            out.append((n, arr, norm_src(den)))
    return out


def check(ctx, col, rule: str, modules: tuple):
    import os
    from ..model import Repo
    n = hits = 0
    for d in ctx.repo.all_defs():
        if d.module.name not in modules or d.is_lambda or d.parent is not None:
            continue
        n += 1
        for node, arr, den in find(d.node):
            hits += 1
            col.bad(rule, d.qualname, d.loc(node), "interpolation along a branch copes with zero-length segments",
                    f"`{norm_src(node)[:80]}` divides by `{den[:60]}`, the distance between two consecutive abscissae of `{arr}`: for a sample point stored twice "
                    f"(or a branch of no length) this is 0/0 = NaN, where np.interp returns the point itself; the NaN node no longer matches the real end node",
                    stmt=f"zerolen:{arr}", definite=True)
    here = os.path.dirname(os.path.dirname(os.path.abspath(__file__)))
    fx = Repo(here, pkg="fixtures")
    found = {d.name: len(find(d.node)) for d in fx.all_defs() if d.module.name.endswith("zerolen_positive") and not d.is_lambda and d.parent is None}
    ok = found.get("lerp_rows") == 1 and found.get("lerp_named") == 1 and found.get("uses_interp") == 0 and found.get("guarded") == 0
    col.check(ok, rule, "sa.fixtures.zerolen_positive", "sa/fixtures/zerolen_positive.py:1",
              f"lint recognises its kept positive examples ({n} defs scanned, {hits} hit(s))", str(found), f"fixture results {found}", stmt="fixture")
    col.analysed[f"zerolen_defs:{rule}"] = n
    return hits


RULE_TEXT = ("interpolation copes with zero-length segments: no quotient whose divisor is the difference of two consecutive abscissae (`A[i+1] - A[i]`, `np.diff(A)`) "
             "in a function that takes no precaution against a zero divisor; zero expected, positive examples kept")


def run(ctx, col, modules: tuple, rule: str = "R-ZEROLEN"):
    col.rule(rule, RULE_TEXT, floor=1)
    return check(ctx, col, rule, tuple(modules))
