"""R-API -- every attribute chain rooted at an alias of numpy names something the
installed numpy stubs (``numpy/**/*.pyi``) define.  The stubs are parsed with ast;
numpy itself is never imported."""

from __future__ import annotations

import ast
import glob
import os
from functools import lru_cache
from typing import Optional

from ..model import Def, Module, Repo, dotted, own_nodes


def numpy_root() -> Optional[str]:
    for pat in ("/venv/lib/python3*/site-packages/numpy", "/usr/lib/python3*/site-packages/numpy"):
        for p in sorted(glob.glob(pat)):
            if os.path.exists(os.path.join(p, "__init__.pyi")):
                return p
    return None


@lru_cache(maxsize=None)
def stub_names(path: str) -> Optional[frozenset]:
    """Top-level names bound by a stub file (or package __init__.pyi)."""
    f = path
    if os.path.isdir(path):
        f = os.path.join(path, "__init__.pyi")
    elif not path.endswith(".pyi"):
        f = path + ".pyi"
    if not os.path.exists(f):
        return None
    try:
        tree = ast.parse(open(f, encoding="utf-8").read())
    except SyntaxError:
        return None
    names = set()

    def visit(body):
        for s in body:
            if isinstance(s, (ast.FunctionDef, ast.AsyncFunctionDef, ast.ClassDef)):
                names.add(s.name)
            elif isinstance(s, ast.Assign):
                for t in s.targets:
                    for n in ast.walk(t):
                        if isinstance(n, ast.Name):
                            names.add(n.id)
            elif isinstance(s, ast.AnnAssign) and isinstance(s.target, ast.Name):
                names.add(s.target.id)
            elif isinstance(s, ast.Import):
                for a in s.names:
                    names.add((a.asname or a.name).split(".")[0])
            elif isinstance(s, ast.ImportFrom):
                for a in s.names:
                    if a.name != "*":
                        names.add(a.asname or a.name)
            elif isinstance(s, (ast.If, ast.Try)):
                visit(s.body)
                visit(getattr(s, "orelse", []))
    visit(tree.body)
    return frozenset(names)


def submodule_path(pkg_path: str, name: str) -> Optional[str]:
    d = os.path.join(pkg_path if os.path.isdir(pkg_path) else os.path.dirname(pkg_path), name)
    if os.path.isdir(d) and os.path.exists(os.path.join(d, "__init__.pyi")):
        return d
    if os.path.exists(d + ".pyi"):
        return d + ".pyi"
    return None


def check_chain(root: str, chain: list[str]):
    """(ok, resolved_prefix, missing_name)"""
    cur = root
    for i, name in enumerate(chain):
        names = stub_names(cur)
        if names is None:
            return None, chain[:i], name
        sub = submodule_path(cur, name)
        if name in names or sub is not None:
            if sub is not None and i + 1 < len(chain):
                cur = sub
                continue
            # attribute of a class / object: stop at the first non-module name
            return True, chain[: i + 1], None
        return False, chain[:i], name
    return True, chain, None


def numpy_aliases(m: Module) -> dict:
    """local name -> numpy dotted module path"""
    out = {}
    for name, b in m.bindings.items():
        if b.kind == "import":
            mod, attr = b.target
            if attr is None and (mod == "numpy" or mod.startswith("numpy.")):
                out[name] = mod
            elif attr is not None and mod == "numpy" and attr in ("ma", "linalg", "random", "fft", "testing", "typing"):
                out[name] = f"numpy.{attr}"
    return out


def chains_in(repo: Repo, m: Module):
    """[(def|None, node, alias_module, [attrs])] for maximal chains rooted at a numpy alias."""
    aliases = numpy_aliases(m)
    if not aliases:
        return []
    out = []
    for node in ast.walk(m.tree):
        if isinstance(node, ast.Attribute) and not isinstance(repo.parent(node), ast.Attribute):
            d = dotted(node)
            if not d:
                continue
            parts = d.split(".")
            if parts[0] in aliases:
                # skip names shadowed locally (parameters called np etc.): rare, ignore
                out.append((repo.enclosing_def(node), node, aliases[parts[0]], parts[1:]))
    return out
