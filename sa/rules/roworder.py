"""Row-order kinds: which ordering of the rows an array is in.

A routine that permutes the rows of a frame works with arrays in two orders at once: the order
of the rows as they came (F) and the order after the permutation (S).  Storing an F array into
a frame whose rows have been permuted attaches every value to the wrong row.  The kinds are
inferred by a small abstract interpretation of the routine:

  F  file order            df[c], df[c].to_numpy() before the frame is permuted
  S  permuted order        X[perm] for X in F; the topology returned by sort_nodes_impl
  P  a permutation new -> old position: np.argsort(F), the indices returned by sort_nodes_impl
  N  order-free            scalars, np.arange, len
  T  unknown

Element-wise operations join the kinds of their operands; np.searchsorted(table, v) has the
kind of v.  A value is a *set* of kinds (one per path through if/else).  The verdict is about the
final stores into the frame: after `for col in df.columns: df[col] = df[col][perm]` the frame is
S, and every later column store must be S or N on every path.
"""

from __future__ import annotations

import ast

from ..model import Def, dotted, norm_src

PASS_METHODS = {"to_numpy", "copy", "astype", "view", "ravel", "flatten", "tolist", "values"}
ELEMENTWISE = {"where", "abs", "add", "subtract", "minimum", "maximum", "asarray", "array", "logical_and", "logical_or", "logical_not",
               "isin", "equal", "not_equal", "negative", "clip"}
REDUCE = {"all", "any", "count_nonzero", "sum", "max", "min", "len", "arange", "zeros", "ones", "full", "empty", "unique"}
PERM_SOURCES = {"argsort", "lexsort"}
SORTERS = {"sort_nodes_impl"}


def j(*ks):
    out = set()
    for k in ks:
        out |= k
    if "T" in out:
        return frozenset({"T"})
    real = out - {"N"}
    return frozenset(real or {"N"})


N, F, S, P, T = (frozenset({k}) for k in "NFSPT")


class RowOrder:
    def __init__(self, d: Def, frame: str):
        self.d, self.frame = d, frame
        self.frame_kind = F
        self.stores = []   # (stmt, column expr, kinds of the value, frame kind at that point)

    def ev(self, e, env):
        if isinstance(e, ast.Constant):
            return N
        if isinstance(e, ast.Name):
            return env.get(e.id, N if e.id != self.frame else self.frame_kind)
        if isinstance(e, ast.Attribute):
            if isinstance(e.value, ast.Name) and e.value.id in ("names", "np", "numpy", "self"):
                return N
            return self.ev(e.value, env)
        if isinstance(e, (ast.Tuple, ast.List)):
            return ("tuple", [self.ev(x, env) for x in e.elts])
        if isinstance(e, ast.Subscript):
            base = self.ev(e.value, env)
            if isinstance(e.value, ast.Name) and e.value.id == self.frame:
                return self.frame_kind
            idx = self.ev(e.slice, env)
            if isinstance(base, tuple) or isinstance(idx, tuple):
                return T
            if idx == P:
                return S if base == F else (N if base == N else T)
            if idx == N and isinstance(e.slice, (ast.Constant, ast.Name, ast.UnaryOp)):
                return base
            return T
        if isinstance(e, (ast.BinOp,)):
            return self._join(self.ev(e.left, env), self.ev(e.right, env))
        if isinstance(e, ast.UnaryOp):
            return self.ev(e.operand, env)
        if isinstance(e, ast.Compare):
            return self._join(self.ev(e.left, env), *[self.ev(c, env) for c in e.comparators])
        if isinstance(e, ast.BoolOp):
            return self._join(*[self.ev(v, env) for v in e.values])
        if isinstance(e, ast.IfExp):
            a, b = self.ev(e.body, env), self.ev(e.orelse, env)
            if isinstance(a, tuple) or isinstance(b, tuple):
                return T
            return frozenset(a | b) if "T" not in (a | b) else T
        if isinstance(e, ast.Call):
            fn = (dotted(e.func) or "")
            last = fn.split(".")[-1] if fn else (e.func.attr if isinstance(e.func, ast.Attribute) else "")
            if isinstance(e.func, ast.Attribute) and last in PASS_METHODS:
                return self.ev(e.func.value, env)
            if last in SORTERS:
                return ("tuple", [("tuple", [S, S]), P])
            if last in PERM_SOURCES:
                a = self.ev(e.args[0], env) if e.args else (self.ev(e.func.value, env) if isinstance(e.func, ast.Attribute) else T)
                return P if a == F else T
            if last == "searchsorted" and len(e.args) >= 2:
                return self.ev(e.args[1], env)
            if last in REDUCE:
                return N
            if last in ELEMENTWISE:
                return self._join(*[self.ev(a, env) for a in e.args])
            if isinstance(e.func, ast.Attribute) and last in ("argmax", "argmin", "item", "any", "all", "sum", "max", "min"):
                return N
            return T
        return T

    def _join(self, *ks):
        if any(isinstance(k, tuple) for k in ks):
            return T
        # path sets: join element-wise over the cartesian product would be exact; a mixed F/S operand is what we look for
        out = set()
        real = [k - {"N"} for k in ks if k - {"N"}]
        if not real:
            return N
        if any("T" in k for k in real):
            return T
        for k in real:
            out |= k
        return frozenset(out)

    def bind(self, tgt, val, env):
        if isinstance(tgt, ast.Name):
            env[tgt.id] = val if not isinstance(val, tuple) else T
            if isinstance(val, tuple):
                env[tgt.id] = val
        elif isinstance(tgt, (ast.Tuple, ast.List)):
            if isinstance(val, tuple) and len(val[1]) == len(tgt.elts):
                for t, v in zip(tgt.elts, val[1]):
                    self.bind(t, v, env)
            else:
                for t in tgt.elts:
                    self.bind(t, T, env)
        elif isinstance(tgt, ast.Subscript) and isinstance(tgt.value, ast.Name) and tgt.value.id == self.frame:
            self.stores.append((tgt, tgt.slice, val if not isinstance(val, tuple) else T, self.frame_kind))

    def block(self, body, env):
        for s in body:
            if isinstance(s, ast.Assign):
                v = self.ev(s.value, env)
                for t in s.targets:
                    if isinstance(t, (ast.Tuple, ast.List)) and isinstance(s.value, (ast.Tuple, ast.List)) and len(t.elts) == len(s.value.elts):
                        for tt, vv in zip(t.elts, s.value.elts):
                            self.bind(tt, self.ev(vv, env), env)
                    else:
                        self.bind(t, v, env)
            elif isinstance(s, ast.AnnAssign) and s.value is not None:
                self.bind(s.target, self.ev(s.value, env), env)
            elif isinstance(s, ast.If):
                e1, e2 = dict(env), dict(env)
                fk = self.frame_kind
                self.block(s.body, e1)
                f1, self.frame_kind = self.frame_kind, fk
                self.block(s.orelse, e2)
                f2 = self.frame_kind
                self.frame_kind = f1 if f1 == f2 else T
                for k in set(e1) | set(e2):
                    a, b = e1.get(k, N), e2.get(k, N)
                    if isinstance(a, tuple) or isinstance(b, tuple):
                        env[k] = a if a == b else T
                    else:
                        u = (a | b)
                        env[k] = T if "T" in u else frozenset((u - {"N"}) or {"N"})
            elif isinstance(s, ast.For):
                it = norm_src(s.iter)
                whole = it in (f"{self.frame}.columns", f"list({self.frame}.columns)", f"{self.frame}", f"{self.frame}.keys()")
                if whole and len(s.body) == 1 and isinstance(s.body[0], ast.Assign) and isinstance(s.body[0].targets[0], ast.Subscript) \
                        and norm_src(s.body[0].targets[0]) == f"{self.frame}[{norm_src(s.target)}]":
                    env2 = dict(env)
                    v = self.ev(s.body[0].value, env2)
                    self.frame_kind = v if not isinstance(v, tuple) and v in (S, F) else T
                else:
                    self.block(s.body, env)
            elif isinstance(s, (ast.With, ast.Try)):
                self.block(getattr(s, "body", []), env)
            elif isinstance(s, (ast.Expr, ast.Assert, ast.Pass, ast.Return, ast.Raise, ast.Import, ast.ImportFrom)):
                continue
            else:
                continue


def analyse(d: Def, frame: str = "df"):
    ro = RowOrder(d, frame)
    ro.block(d.node.body, {})
    return ro


def check(ctx, col, rule: str, d: Def, frame: str = "df"):
    """Verdicts on the column stores of a row-permuting routine."""
    import os
    from ..model import Repo
    ro = analyse(d, frame)
    n = 0
    for tgt, column, val, fk in ro.stores:
        n += 1
        what = f"`{frame}[{norm_src(column)}]` is stored in the row order of the frame"
        if fk == S and "F" in val:
            col.bad(rule, d.qualname, d.loc(tgt), what,
                    f"the rows of `{frame}` have been permuted, but the value stored into `{norm_src(tgt)}` is, on some path, still in the order the rows "
                    f"came in (kinds {sorted(val)}): every value lands on another row than the one it was computed for", stmt=f"ro:{norm_src(column)}", definite=True)
        elif "T" in val or fk == T:
            col.unresolved(rule, d.qualname, d.loc(tgt), what, f"row order of the stored value not determined (value {sorted(val)}, frame {sorted(fk)})",
                           stmt=f"ro:{norm_src(column)}")
        else:
            col.ok(rule, d.qualname, d.loc(tgt), what, f"value {sorted(val)}, frame {sorted(fk)}", stmt=f"ro:{norm_src(column)}")
    here = os.path.dirname(os.path.dirname(os.path.abspath(__file__)))
    fx = Repo(here, pkg="fixtures")
    found = {}
    for fd in fx.all_defs():
        if fd.module.name.endswith("roworder_positive"):
            r = analyse(fd, "df")
            found[fd.name] = sorted({k for _, _, v, fk in r.stores if fk == S for k in (v if not isinstance(v, tuple) else T)})
    ok = "F" in found.get("mixed_orders", []) and found.get("permuted_consistently") == ["S"] and "F" not in found.get("through_sorter", ["F"])
    col.check(ok, rule, "sa.fixtures.roworder_positive", "sa/fixtures/roworder_positive.py:1",
              f"row-order inference recognises its kept examples ({n} store(s) in {d.name})", str(found), f"fixture results {found}", stmt="fixture", definite=True)
    return n
