"""E7 -- small decision tables.

`count_table`: truth vector of a predicate over a child count k = 0..K obtained by
substituting k for the counting sub-expression and folding constants.
`order_table`: outcome of a predicate over two or three symbolic terms for every
weak ordering of the terms (exhaustive over the orderings; terms are replaced by
rank numbers, which is sound for code that touches them only through comparisons).
"""

from __future__ import annotations

import ast
import copy
import itertools
from typing import Callable, Optional

from ..fold import Folder, Unfoldable
from ..model import dotted, norm_src


class _Replace(ast.NodeTransformer):
    def __init__(self, pred: Callable[[ast.AST], Optional[str]]):
        self.pred = pred
        self.hits = 0

    def visit(self, node):
        name = self.pred(node)
        if name is not None:
            self.hits += 1
            return ast.copy_location(ast.Name(id=name, ctx=ast.Load()), node)
        return super().visit(node)


def substitute(expr: ast.AST, pred) -> tuple[ast.AST, int]:
    e = copy.deepcopy(expr)
    r = _Replace(pred)
    e = r.visit(e)
    ast.fix_missing_locations(e)
    return e, r.hits


def is_count_expr(n: ast.AST) -> Optional[str]:
    """len(<anything>) / np.count_nonzero(<anything>) -> '__k'."""
    if isinstance(n, ast.Call):
        f = dotted(n.func) or ""
        if f == "len" or f.endswith("count_nonzero"):
            return "__k"
    return None


def count_table(repo, module, expr: ast.AST, kmax: int = 4, env: Optional[dict] = None,
                count_pred=is_count_expr):
    """[bool for k in 0..kmax] or None when the predicate is not a function of one count."""
    e, hits = substitute(expr, count_pred)
    if hits == 0:
        return None
    # the counted collection used for its truthiness (`... and xs`) is k as well
    counted = {norm_src(n.args[0]) for n in ast.walk(expr) if isinstance(n, ast.Call)
               and dotted(n.func) == "len" and n.args and isinstance(n.args[0], ast.Name)}
    if counted:
        e, _ = substitute(e, lambda n: "__k" if isinstance(n, ast.Name) and n.id in counted else None)
    out = []
    for k in range(kmax + 1):
        ev = dict(env or {})
        ev["__k"] = k
        try:
            out.append(bool(Folder(repo, module, None, ev).eval(e)))
        except Unfoldable:
            return None
    return out


def weak_orderings(n: int):
    """All assignments of ranks to n terms that are weak orderings (ties allowed)."""
    seen = set()
    for ranks in itertools.product(range(n), repeat=n):
        # canonical: ranks used must be 0..m-1 contiguous
        used = sorted(set(ranks))
        if used != list(range(len(used))):
            continue
        if ranks not in seen:
            seen.add(ranks)
            yield ranks


def order_table(repo, module, expr: ast.AST, terms: list[str], term_pred, env=None):
    """{ranks: bool} for every weak ordering of the symbolic terms."""
    e, hits = substitute(expr, term_pred)
    if hits == 0:
        return None
    table = {}
    for ranks in weak_orderings(len(terms)):
        ev = dict(env or {})
        for t, r in zip(terms, ranks):
            ev[t] = r * 2  # even numbers, so integer literals could sit in between
        try:
            table[ranks] = bool(Folder(repo, module, None, ev).eval(e))
        except Unfoldable:
            return None
    return table


def np_logic_to_bool(expr: ast.AST) -> ast.AST:
    """np.logical_and(a, b) -> (a and b); np.logical_or -> or; np.logical_not -> not."""
    class T(ast.NodeTransformer):
        def visit_Call(self, n):
            self.generic_visit(n)
            f = dotted(n.func) or ""
            if f.endswith("logical_and") and len(n.args) == 2:
                return ast.BoolOp(op=ast.And(), values=list(n.args))
            if f.endswith("logical_or") and len(n.args) == 2:
                return ast.BoolOp(op=ast.Or(), values=list(n.args))
            if f.endswith("logical_not") and len(n.args) == 1:
                return ast.UnaryOp(op=ast.Not(), operand=n.args[0])
            return n
    e = T().visit(copy.deepcopy(expr))
    ast.fix_missing_locations(e)
    return e
