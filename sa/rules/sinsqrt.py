"""The sine of an angle cannot be recovered from its cosine.

`sqrt(1 - cos(t)**2)` is |sin t|; with `copysign(., t)` it is sin t only for |t| <= pi.  A rotation builder that derives its sine this
way turns the wrong way for the other angles (negative angles, angles beyond a half turn), while still producing an orthogonal matrix --
so distance checks pass.  Zero-expected lint over the matrix builders; positive examples kept in sa/fixtures/sinsqrt_positive.py."""
from __future__ import annotations

import ast

from ..model import dotted, norm_src
from ..util import expand_names


def _is_cos(d, e) -> bool:
    for x in (expand_names(d, e) if d is not None else [e]):
        if isinstance(x, ast.Call) and (dotted(x.func) or "").rsplit(".", 1)[-1] == "cos":
            return True
    return False


def find(d, fn=None):
    fn = fn if fn is not None else d.node
    out = []
    for c in ast.walk(fn):
        if not (isinstance(c, ast.Call) and (dotted(c.func) or "").rsplit(".", 1)[-1] == "sqrt" and len(c.args) == 1):
            continue
        a = c.args[0]
        if not (isinstance(a, ast.BinOp) and isinstance(a.op, ast.Sub) and isinstance(a.left, ast.Constant) and a.left.value in (1, 1.0)):
            continue
        sq = a.right
        base = None
        if isinstance(sq, ast.BinOp) and isinstance(sq.op, ast.Pow) and isinstance(sq.right, ast.Constant) and sq.right.value == 2:
            base = sq.left
        elif isinstance(sq, ast.BinOp) and isinstance(sq.op, ast.Mult) and norm_src(sq.left) == norm_src(sq.right):
            base = sq.left
        if base is not None and _is_cos(d, base):
            out.append(c)
    return out


def check(ctx, col, rule: str, modules: tuple):
    import os
    from ..model import Repo
    n = hits = 0
    for d in ctx.repo.all_defs():
        if d.module.name not in modules or d.is_lambda or d.parent is not None:
            continue
        n += 1
        for c in find(d):
            hits += 1
            col.bad(rule, d.qualname, d.loc(c), "the sine of the rotation angle is computed from the angle", 
                    f"`{norm_src(c)}` is |sin| computed from the cosine: the sign of the sine is lost (or, with copysign(., angle), wrong beyond a half turn), "
                    f"so negative angles / angles in (pi, 2pi) rotate the wrong way while the matrix stays orthogonal", stmt="sin-from-cos", definite=True)
    here = os.path.dirname(os.path.dirname(os.path.abspath(__file__)))
    fx = Repo(here, pkg="fixtures")
    found = {d.name: len(find(d)) for d in fx.all_defs() if d.module.name.endswith("sinsqrt_positive")}
    ok = found.get("rot_sqrt") == 1 and found.get("rot_copysign") == 1 and found.get("rot_fine") == 0
    col.check(ok, rule, "sa.fixtures.sinsqrt_positive", "sa/fixtures/sinsqrt_positive.py:1",
              f"lint recognises its kept positive examples ({n} defs scanned, {hits} hit(s))", str(found), f"fixture results {found}", stmt="fixture")
