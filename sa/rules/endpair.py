"""A frustum has two ends, each a (centre, radius) pair: (c1, r1) and (c2, r2).

Zero-expected lint: a 2-tuple, or a conjunction of two closeness tests, that takes the centre of one end and the radius of the
OTHER end of the same object (`(f.c1, f.r2)`, `allclose(c, f.c2) and allclose(r, f.r1)`) is a copy-paste slip -- no quantity of
this code base is "centre of end 1 with radius of end 2".  Positive examples are kept in sa/fixtures/endpair_positive.py."""
from __future__ import annotations

import ast
import re

from ..model import norm_src


def _end(e):
    """`X.c1` -> (X, 'c', '1'); `X.r2` -> (X, 'r', '2'); plain names c1 / r2 -> ('', 'c', '1')"""
    if isinstance(e, ast.Attribute):
        m = re.fullmatch(r"(c|r|center|radius)_?([12])", e.attr)
        if m:
            return norm_src(e.value), m.group(1)[0], m.group(2)
    if isinstance(e, ast.Name):
        m = re.fullmatch(r"(c|r)([12])", e.id)
        if m:
            return "", m.group(1), m.group(2)
    return None


def _mixed(a, b):
    ea, eb = _end(a), _end(b)
    if ea is None or eb is None:
        return False
    return ea[0] == eb[0] and ea[0] != "" and {ea[1], eb[1]} == {"c", "r"} and ea[2] != eb[2]


def find(fn: ast.AST):
    out = []
    for n in ast.walk(fn):
        if isinstance(n, ast.Tuple) and len(n.elts) == 2 and isinstance(n.ctx, ast.Load) and _mixed(n.elts[0], n.elts[1]):
            out.append((n, f"`{norm_src(n)}` pairs the centre of one end with the radius of the other"))
        if isinstance(n, ast.BoolOp) and isinstance(n.op, ast.And) and len(n.values) == 2:
            ends = []
            for v in n.values:
                if isinstance(v, ast.Call) and len(v.args) >= 2:
                    ends.append([x for x in v.args[:2] if _end(x) is not None and _end(x)[0] != ""])
            if len(ends) == 2 and len(ends[0]) == 1 and len(ends[1]) == 1 and _mixed(ends[0][0], ends[1][0]):
                out.append((n, f"`{norm_src(n)[:90]}` matches the centre against one end and the radius against the other"))
    return out


def check(ctx, col, rule: str, modules: tuple):
    import os
    from ..model import Repo
    n_defs = hits = 0
    for d in ctx.repo.all_defs():
        if d.module.name not in modules or d.is_lambda or d.parent is not None:
            continue
        n_defs += 1
        for node, msg in find(d.node):
            hits += 1
            col.bad(rule, d.qualname, d.loc(node), "an end of a frustum is (centre, radius) of the SAME end", msg +
                    ": the closed forms take (c1, r1) and (c2, r2); mixing them describes a frustum that does not exist", stmt="pair:" + norm_src(node)[:40], definite=True)
    here = os.path.dirname(os.path.dirname(os.path.abspath(__file__)))
    fx = Repo(here, pkg="fixtures")
    found = {d.name: len(find(d.node)) for d in fx.all_defs() if d.module.name.endswith("endpair_positive")}
    ok = found.get("far_end_slip") == 1 and found.get("match_slip") == 1 and found.get("fine") == 0
    col.check(ok, rule, "sa.fixtures.endpair_positive", "sa/fixtures/endpair_positive.py:1",
              f"lint recognises its kept positive examples ({n_defs} defs scanned, {hits} hit(s))", str(found), f"fixture results {found}", stmt="fixture")
