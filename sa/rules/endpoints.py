"""Contiguity judged from the end points.

`x[-1] - x[0] == len(x) - 1` says that the values of x span exactly len(x) consecutive integers -- it says nothing about the rows in between: a
permutation of a consecutive range with the smallest value first and the largest last passes it.  Node ids in file order, and the node positions
along a path of an unsorted tree, are such sequences.  A shortcut taken under this test (the identity permutation, a plain slice instead of a
gather) is wrong for them.  Reported: a comparison of `X[-1] - X[0]` (also through locals bound once to `X[0]` / `X[-1]`, and in the form
`X[-1] + 1 - X[0] == len(X)`) with the length of X, in a condition that has no conjunct establishing that X is increasing
(`np.all(np.diff(X) ...)`, a sortedness predicate).  Zero expected; examples kept.
"""
from __future__ import annotations

import ast

from ..model import dotted, norm_src


def _single(fn):
    out, twice = {}, set()
    for n in ast.walk(fn):
        if isinstance(n, ast.Assign) and len(n.targets) == 1:
            t, v = n.targets[0], n.value
            pairs = []
            if isinstance(t, ast.Name):
                pairs = [(t.id, v)]
            elif isinstance(t, ast.Tuple) and isinstance(v, ast.Tuple) and len(t.elts) == len(v.elts):
                pairs = [(a.id, b) for a, b in zip(t.elts, v.elts) if isinstance(a, ast.Name)]
            for k, vv in pairs:
                if k in out:
                    twice.add(k)
                out[k] = vv
    for k in twice:
        out.pop(k, None)
    return out


def _end(e, b, which):
    """array name if e denotes X[0] (which=0) or X[-1] (which=-1), reading through single bindings"""
    for _ in range(3):
        if isinstance(e, ast.Name) and e.id in b:
            e = b[e.id]
        elif isinstance(e, ast.Call) and isinstance(e.func, ast.Name) and e.func.id in ("int", "float") and e.args:
            e = e.args[0]
        else:
            break
    if isinstance(e, ast.Subscript):
        i = e.slice
        v = None
        if isinstance(i, ast.Constant) and isinstance(i.value, int):
            v = i.value
        elif isinstance(i, ast.UnaryOp) and isinstance(i.op, ast.USub) and isinstance(i.operand, ast.Constant):
            v = -i.operand.value
        if v == which:
            return norm_src(e.value)
    return None


def _span_of(e, b):
    """X if e is X[-1] - X[0] (possibly + 1)"""
    plus = 0
    if isinstance(e, ast.BinOp) and isinstance(e.op, ast.Add) and isinstance(e.right, ast.Constant) and e.right.value == 1:
        e, plus = e.left, 1
    if isinstance(e, ast.BinOp) and isinstance(e.op, ast.Sub):
        left = e.left
        if isinstance(left, ast.BinOp) and isinstance(left.op, ast.Add) and isinstance(left.right, ast.Constant) and left.right.value == 1:
            left, plus = left.left, 1
        a, z = _end(left, b, -1), _end(e.right, b, 0)
        if a is not None and a == z:
            return a, plus
    return None, 0


def _len_of(e, b, arr):
    for _ in range(2):
        if isinstance(e, ast.Name) and e.id in b:
            e = b[e.id]
    minus = 0
    if isinstance(e, ast.BinOp) and isinstance(e.op, ast.Sub) and isinstance(e.right, ast.Constant) and e.right.value == 1:
        e, minus = e.left, 1
        for _ in range(2):
            if isinstance(e, ast.Name) and e.id in b:
                e = b[e.id]
    s = norm_src(e)
    if s in (f"len({arr})", f"{arr}.size", f"{arr}.shape[0]"):
        return True, minus
    return False, 0


def find(fn) -> list:
    if isinstance(fn, ast.Lambda):
        return []
    b = _single(fn)
    out = []
    for t in ast.walk(fn):
        if not isinstance(t, (ast.If, ast.IfExp, ast.While)):
            continue
        test = t.test
        for c in ast.walk(test):
            if isinstance(c, ast.Compare) and len(c.ops) == 1 and isinstance(c.ops[0], ast.Eq):
                for x, y in ((c.left, c.comparators[0]), (c.comparators[0], c.left)):
                    arr, plus = _span_of(x, b)
                    if arr is None:
                        continue
                    ok, minus = _len_of(y, b, arr)
                    if ok and plus + minus == 1:
                        mono = any(isinstance(k, ast.Call) and ((dotted(k.func) or "").rsplit(".", 1)[-1] in ("diff", "is_sorted", "issorted") or "sorted" in (dotted(k.func) or "").lower())
                                   and arr.split(".")[-1] in norm_src(k) for k in ast.walk(test))
                        if not mono:
                            out.append((c, arr))
    return out


def check(ctx, col, rule: str, modules: tuple):
    import os
    from ..model import Repo
    n = hits = 0
    for d in ctx.repo.all_defs():
        if d.module.name not in modules or d.is_lambda or d.parent is not None:
            continue
        n += 1
        for c, arr in find(d.node):
            hits += 1
            col.bad(rule, d.qualname, d.loc(c), "a shortcut for consecutive rows is taken only when the rows ARE consecutive",
                    f"`{norm_src(c)}` concludes from the first and the last element that `{arr}` is a run of consecutive values: a permutation of a consecutive range with the smallest "
                    f"value first and the largest last passes the test (ids in file order, node positions along a path of an unsorted tree), and the shortcut then reads the wrong rows",
                    stmt=f"endpoints:{arr}", definite=True)
    here = os.path.dirname(os.path.dirname(os.path.abspath(__file__)))
    fx = Repo(here, pkg="fixtures")
    found = {d.name: len(find(d.node)) for d in fx.all_defs() if d.module.name.endswith("endpoints_positive") and not d.is_lambda and d.parent is None}
    ok = found.get("span_equals_len") == 1 and found.get("span_named_first") == 1 and found.get("plus_one_form") == 1 and found.get("with_diff_check") == 0 and found.get("unrelated") == 0
    col.check(ok, rule, "sa.fixtures.endpoints_positive", "sa/fixtures/endpoints_positive.py:1",
              f"lint recognises its kept positive examples ({n} defs scanned, {hits} hit(s))", str(found), f"fixture results {found}", stmt="fixture")
    return hits


RULE_TEXT = ("contiguity is never judged from the end points alone: no test `X[-1] - X[0] == len(X) - 1` without a conjunct that X is increasing, as the condition of a shortcut "
             "(identity permutation, slice instead of gather); zero expected, positive examples kept")


def run(ctx, col, modules: tuple, rule: str = "R-ENDPOINTS"):
    col.rule(rule, RULE_TEXT, floor=1)
    return check(ctx, col, rule, tuple(modules))
