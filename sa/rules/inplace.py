"""A function that is handed an array must not write into it (zero-expected lint with kept positive examples).

Tracks, statement by statement, which local names still denote the caller's array (the parameter itself, or a numpy VIEW of it:
`np.expand_dims`, `np.asarray`, `reshape`, `moveaxis`, `swapaxes`, `transpose`, `.T`, `squeeze`, `ravel`, basic slicing, `.get_full()`),
and reports a store through such a name: `np.f(..., out=name)`, `name op= e`, `name[...] = e`, `name.sort()/.fill()/.resize()`.
A name rebound to a fresh array (arithmetic, `.astype`, `.copy()`, `np.array`, ...) no longer denotes the input.
must-alias on every path -> VIOLATION; alias on some paths only -> UNRESOLVED."""
from __future__ import annotations

import ast

from ..model import dotted, norm_src

VIEW_FUNCS = {"expand_dims", "asarray", "asanyarray", "reshape", "moveaxis", "swapaxes", "transpose", "squeeze", "ravel", "atleast_1d", "atleast_2d",
              "atleast_3d", "flip", "flipud", "fliplr", "rollaxis", "broadcast_to"}
VIEW_METHODS = {"reshape", "transpose", "swapaxes", "squeeze", "ravel", "view", "get_full", "T"}
INPLACE_METHODS = {"sort", "fill", "resize", "itemset", "put", "partition", "byteswap"}


def _view_of(e, alias: set):
    """is expression e the input itself or a view of it?"""
    if isinstance(e, ast.Name):
        return e.id in alias
    if isinstance(e, ast.Attribute) and e.attr == "T":
        return _view_of(e.value, alias)
    if isinstance(e, ast.Subscript):
        # basic slicing is a view; an index that is a name / call may be fancy: not claimed
        s = e.slice
        basic = all(isinstance(x, (ast.Slice, ast.Constant)) or (isinstance(x, ast.UnaryOp) and isinstance(x.operand, ast.Constant))
                    for x in (s.elts if isinstance(s, ast.Tuple) else [s]))
        return basic and _view_of(e.value, alias)
    if isinstance(e, ast.Call):
        f = dotted(e.func) or ""
        last = f.rsplit(".", 1)[-1]
        if isinstance(e.func, ast.Attribute) and last in VIEW_METHODS and _view_of(e.func.value, alias):
            return True
        if f.startswith(("np.", "numpy.")) and last in VIEW_FUNCS and e.args and _view_of(e.args[0], alias):
            if last in ("asarray", "asanyarray") and (len(e.args) > 1 or any(k.arg == "dtype" for k in e.keywords)):
                return None  # a dtype is requested: a view only if the dtype already matches -> not known
            return True
    if isinstance(e, ast.IfExp):
        a, b = _view_of(e.body, alias), _view_of(e.orelse, alias)
        return True if (a and b) else (None if (a or b or a is None or b is None) else False)
    return False


def scan(fn: ast.AST, params: list):
    """[(node, message, definite)]"""
    out = []

    def block(stmts, must: set, may: set):
        for s in stmts:
            # stores through an alias in this statement (before rebinding)
            for n in ast.walk(s) if not isinstance(s, (ast.If, ast.For, ast.While, ast.With, ast.Try)) else ast.walk(_header(s)):
                tgt = None
                if isinstance(n, ast.Call):
                    for k in n.keywords:
                        if k.arg == "out":
                            tgt = k.value
                    if isinstance(n.func, ast.Attribute) and n.func.attr in INPLACE_METHODS:
                        tgt = n.func.value
                elif isinstance(n, ast.AugAssign):
                    tgt = n.target
                elif isinstance(n, ast.Assign):
                    for t in n.targets:
                        if isinstance(t, ast.Subscript):
                            tgt = t.value
                if tgt is None:
                    continue
                base = tgt
                while isinstance(base, ast.Subscript):
                    base = base.value
                if isinstance(base, ast.Name) and base.id in may:
                    v = _view_of(tgt if not isinstance(tgt, ast.Subscript) else base, may)
                    if base.id in must:
                        out.append((n, f"`{norm_src(n)[:80]}` writes into `{base.id}`, which still is the array the caller passed (or a view of it)", True))
                    else:
                        out.append((n, f"`{norm_src(n)[:80]}` writes into `{base.id}`, which on some paths still is the caller's array", False))
            # rebinding
            if isinstance(s, ast.Assign) and len(s.targets) == 1 and isinstance(s.targets[0], ast.Name):
                x = s.targets[0].id
                v = _view_of(s.value, must)
                vm = _view_of(s.value, may)
                (must.add if v is True else must.discard)(x)
                (may.add if (vm is True or vm is None) else may.discard)(x)
            elif isinstance(s, ast.AugAssign) and isinstance(s.target, ast.Name):
                pass  # in place: the name keeps denoting what it denoted
            elif isinstance(s, ast.If):
                m1, y1 = set(must), set(may)
                m2, y2 = set(must), set(may)
                block(s.body, m1, y1)
                block(s.orelse, m2, y2)
                t1, t2 = _terminates(s.body), _terminates(s.orelse)
                if t1 and not t2:
                    must.clear(); must.update(m2); may.clear(); may.update(y2)
                elif t2 and not t1:
                    must.clear(); must.update(m1); may.clear(); may.update(y1)
                else:
                    must.intersection_update(m1 & m2) if False else (must.clear(), must.update(m1 & m2))
                    may.clear(); may.update(y1 | y2)
            elif isinstance(s, (ast.For, ast.While)):
                m1, y1 = set(must), set(may)
                block(s.body, m1, y1)
                must.intersection_update(m1)
                may.update(y1)
            elif isinstance(s, ast.With):
                block(s.body, must, may)
            elif isinstance(s, ast.Try):
                block(s.body, must, may)
    block(fn.body, set(params), set(params))
    return out


def _header(s):
    import copy
    h = copy.copy(s)
    for f in ("body", "orelse", "finalbody", "handlers"):
        if isinstance(getattr(h, f, None), list):
            setattr(h, f, [])
    return h


def _terminates(body):
    return bool(body) and isinstance(body[-1], (ast.Return, ast.Raise, ast.Continue, ast.Break))


def check(ctx, col, rule: str, targets: list):
    """targets: [(def qualname, [array parameter names])]"""
    import os
    from ..model import Repo
    hits = 0
    for q, params in targets:
        d = ctx.repo.get_def(q)
        for node, msg, definite in scan(d.node, params):
            hits += 1
            if definite:
                col.bad(rule, d.qualname, d.loc(node), "the array handed in is not written to", msg + ": the caller's data is changed by the call "
                        "(a second export of the same stack, or any later use of it, sees scaled / overwritten values)", stmt="inplace:" + norm_src(node)[:40], definite=True)
            else:
                col.unresolved(rule, d.qualname, d.loc(node), "the array handed in is not written to", msg, stmt="inplace:" + norm_src(node)[:40])
    here = os.path.dirname(os.path.dirname(os.path.abspath(__file__)))
    fx = Repo(here, pkg="fixtures")
    found = {d.name: len([1 for x in scan(d.node, ["data"]) if x[2]]) for d in fx.all_defs() if d.module.name.endswith("inplace_positive")}
    ok = found.get("scale_out") == 1 and found.get("scale_aug") == 1 and found.get("fresh_first") == 0 and found.get("slice_store") == 1
    col.check(ok, rule, "sa.fixtures.inplace_positive", "sa/fixtures/inplace_positive.py:1",
              f"lint recognises its kept positive examples ({len(targets)} functions scanned, {hits} hit(s))", str(found), f"fixture results {found}", stmt="fixture")
