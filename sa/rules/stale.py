"""Handles that outlive the object they were taken from.

    r = tree2.node(node2)                       # a view onto the object `tree2` names NOW
    tree2 = redirect_tree(tree2, node2, ...)    # `tree2` now names a NEW object (the operations of the library return copies)
    ... r.xyz() ...  r.children() ...           # still reads the old object: un-redirected, un-translated

Reported: a local bound to a node / view handle of `T` (`T.node(i)`, `T[i]`, `T.soma()`), then `T` re-bound to the result of a copy-returning call that takes `T`,
then the handle read on a path from the re-binding (reaching definitions on the CFG; a re-binding of the handle in between ends the path).  Zero expected; examples kept.
"""
from __future__ import annotations

import ast

from .. import cfg as cfgmod
from ..model import dotted, norm_src

HANDLE_METHODS = ("node", "soma", "get_node", "root")
COPYING = ("redirect_tree", "sort_tree", "cut_tree", "to_subtree", "get_subtree", "cat_tree", "copy", "deepcopy", "detach", "subtree")


def _handle_of(v):
    """T if v is T.node(...) / T.soma() / T[<int-like>]"""
    if isinstance(v, ast.Call) and isinstance(v.func, ast.Attribute) and v.func.attr in HANDLE_METHODS and isinstance(v.func.value, ast.Name):
        return v.func.value.id
    if isinstance(v, ast.Subscript) and isinstance(v.value, ast.Name) and not isinstance(v.slice, ast.Slice):
        return None  # plain subscripts are too general (arrays): not taken as handles
    return None


def _rebinds_to_copy(a, T):
    if not (isinstance(a, ast.Assign) and len(a.targets) == 1 and isinstance(a.targets[0], ast.Name) and a.targets[0].id == T):
        return False
    v = a.value
    if isinstance(v, ast.IfExp):
        return any(_rebinds_to_copy(ast.Assign(targets=a.targets, value=x), T) for x in (v.body, v.orelse))
    if isinstance(v, ast.Call):
        fn = (dotted(v.func) or "").rsplit(".", 1)[-1]
        uses_T = any(isinstance(x, ast.Name) and x.id == T for x in ast.walk(v))
        return fn in COPYING and uses_T
    return False


def find(fn) -> list:
    if isinstance(fn, ast.Lambda):
        return []
    handles = []
    for n in ast.walk(fn):
        if isinstance(n, ast.Assign) and len(n.targets) == 1 and isinstance(n.targets[0], ast.Name):
            T = _handle_of(n.value)
            if T is not None:
                handles.append((n, n.targets[0].id, T))
        elif isinstance(n, ast.Assign) and len(n.targets) == 1 and isinstance(n.targets[0], ast.Tuple) and isinstance(n.value, ast.Tuple) \
                and len(n.targets[0].elts) == len(n.value.elts):
            for t_, v_ in zip(n.targets[0].elts, n.value.elts):
                T = _handle_of(v_)
                if T is not None and isinstance(t_, ast.Name):
                    handles.append((n, t_.id, T))
    if not handles:
        return []
    g = cfgmod.CFG(fn.body, getattr(fn, "name", ""))
    out = []

    def header(n):
        a = n.ast
        if a is None:
            return []
        if isinstance(a, (ast.For, ast.AsyncFor)):
            return [a.iter]
        if isinstance(a, ast.While):
            return [a.test]
        if isinstance(a, (ast.With, ast.AsyncWith)):
            return [i.context_expr for i in a.items]
        if isinstance(a, (ast.Try, ast.Match, ast.match_case, ast.ExceptHandler)):
            return []
        if isinstance(a, ast.If):
            return [a.test]
        return [a]

    for st, h, T in handles:
        n0 = g.node_of(st)
        if n0 is None:
            continue
        # walk from the handle's binding; state: has T been re-bound to a copy on this path?
        seen = set()
        stack = [(m, False) for m, _l in g.succ[n0]]
        while stack:
            n, stale = stack.pop()
            if (n, stale) in seen:
                continue
            seen.add((n, stale))
            a = n.ast
            if stale and a is not None:
                reads = [x for hh in header(n) for x in ast.walk(hh) if isinstance(x, ast.Name) and x.id == h and isinstance(x.ctx, ast.Load)]
                if reads:
                    out.append((a, h, T))
                    break
            if isinstance(a, ast.Assign) and any(isinstance(x, ast.Name) and x.id == h for t in a.targets for x in ast.walk(t)):
                continue  # the handle is taken anew
            if a is not None and _rebinds_to_copy(a, T):
                stale = True
            for m, _l in g.succ[n]:
                stack.append((m, stale))
    uniq, ids = [], set()
    for a, h, T in out:
        if id(a) not in ids:
            ids.add(id(a))
            uniq.append((a, h, T))
    return uniq


def check(ctx, col, rule: str, modules: tuple):
    import os
    from ..model import Repo
    n = hits = 0
    for d in ctx.repo.all_defs():
        if d.module.name not in modules or d.is_lambda or d.parent is not None:
            continue
        n += 1
        for a, h, T in find(d.node):
            hits += 1
            col.bad(rule, d.qualname, d.loc(a), "a node handle is read from the tree it was taken from",
                    f"`{norm_src(a)[:70]}` reads `{h}`, a handle taken from `{T}` before `{T}` was re-bound to the copy a tree operation returned: the handle still looks at the "
                    f"old object (not re-rooted, not translated), so positions / children read through it do not belong to the tree that is being assembled", stmt=f"stale:{h}", definite=True)
    here = os.path.dirname(os.path.dirname(os.path.abspath(__file__)))
    fx = Repo(here, pkg="fixtures")
    found = {d.name: len(find(d.node)) for d in fx.all_defs() if d.module.name.endswith("stale_positive") and not d.is_lambda and d.parent is None}
    ok = found.get("hoisted_handle") == 1 and found.get("handle_after_rebind") == 0 and found.get("handle_retaken") == 0
    col.check(ok, rule, "sa.fixtures.stale_positive", "sa/fixtures/stale_positive.py:1",
              f"lint recognises its kept positive examples ({n} defs scanned, {hits} hit(s))", str(found), f"fixture results {found}", stmt="fixture")
    return hits


RULE_TEXT = ("no node handle outlives its tree: a handle taken from T is not read after T was re-bound to the copy returned by a tree operation (reaching definitions on the CFG); "
             "zero expected, positive examples kept")


def run(ctx, col, modules: tuple, rule: str = "R-STALE"):
    col.rule(rule, RULE_TEXT, floor=1)
    return check(ctx, col, rule, tuple(modules))
