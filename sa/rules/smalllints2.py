"""Five more small construct lints (zero expected on a correct tree; kept examples in sa/fixtures/smalllints2_positive.py).

R-PATHIO     an os.path function applied to a parameter that may be a stream (annotation mentions IO / PathOrIO) outside an `isinstance(p, str)` test: reading from a StringIO /
             BytesIO raises TypeError on that path (typically only when a warning is due).
R-FRAMECAST  a whole data frame converted to ONE array (`df.to_numpy()`, `df.iloc[...].to_numpy()`, `.values`) and written back into a frame: a frame with integer and float
             columns becomes a float64 block, 64-bit integers beyond 2**53 are rounded when they are cast back.
R-EMPTYIDX   an index array built with np.array(<list / comprehension>) without dtype and used as a subscript: for an empty list the array is float64 and indexing raises.
R-FRESHNODE  a node handle that is re-pointed (`handle.idx = ...`): callbacks that keep or return the node they were given all end up with the same, last, node.
R-SQDTYPE    squared lengths accumulated in the dtype of the input points (einsum / dot / square / ** 2 / x * x of a coordinate difference): an int16 voxel cloud overflows;
             np.linalg.norm promotes to float.
"""
from __future__ import annotations

import ast

from ..model import dotted, norm_src


def _parents(fn):
    par = {}
    for n in ast.walk(fn):
        for c in ast.iter_child_nodes(n):
            par[id(c)] = n
    return par


def find_pathio(fn) -> list:
    if isinstance(fn, ast.Lambda):
        return []
    a = fn.args
    cand = {x.arg for x in a.posonlyargs + a.args + a.kwonlyargs if x.annotation is not None and ("IO" in norm_src(x.annotation))}
    if not cand:
        return []
    par = _parents(fn)
    out = []
    for c in ast.walk(fn):
        if isinstance(c, ast.Call) and (dotted(c.func) or "").startswith("os.path.") and c.args and isinstance(c.args[0], ast.Name) and c.args[0].id in cand:
            nm = c.args[0].id
            guarded = False
            cur, child = par.get(id(c)), c
            while cur is not None:
                test = None
                if isinstance(cur, ast.IfExp) and (child is cur.body):
                    test = cur.test
                elif isinstance(cur, ast.If) and any(child is s for s in cur.body):
                    test = cur.test
                elif isinstance(cur, ast.BoolOp) and isinstance(cur.op, ast.And):
                    i = next((k for k, v in enumerate(cur.values) if v is child), 0)
                    for v in cur.values[:i]:
                        if "isinstance" in norm_src(v) and nm in norm_src(v):
                            guarded = True
                if test is not None and any(isinstance(t, ast.Call) and isinstance(t.func, ast.Name) and t.func.id == "isinstance" and t.args and norm_src(t.args[0]) == nm
                                            and ("str" in norm_src(t.args[1]) or "PathLike" in norm_src(t.args[1])) for t in ast.walk(test)) and not (
                        isinstance(test, ast.UnaryOp) and isinstance(test.op, ast.Not)):
                    guarded = True
                # early exits: `if not isinstance(p, str): return/raise` before the call
                child, cur = cur, par.get(id(cur))
            if not guarded:
                for st in ast.walk(fn):
                    if isinstance(st, ast.If) and st.lineno < c.lineno and isinstance(st.test, ast.UnaryOp) and isinstance(st.test.op, ast.Not) and "isinstance" in norm_src(st.test) \
                            and nm in norm_src(st.test) and st.body and isinstance(st.body[-1], (ast.Return, ast.Raise)):
                        guarded = True
            if not guarded:
                out.append((c, nm))
    return out


def find_framecast(fn) -> list:
    if isinstance(fn, ast.Lambda):
        return []
    out = []

    def whole_frame(e) -> bool:
        if isinstance(e, ast.Name) and e.id in ("df", "frame", "table"):
            return True
        if isinstance(e, ast.Subscript):
            v = e.value
            if isinstance(v, ast.Attribute) and v.attr in ("iloc", "loc") and whole_frame(v.value):
                return not (isinstance(e.slice, ast.Tuple) and len(e.slice.elts) == 2 and not isinstance(e.slice.elts[1], ast.Slice))   # df.iloc[rows] / df.iloc[rows, :]
            if whole_frame(v) and isinstance(e.slice, (ast.List,)):
                return True
        return False
    for c in ast.walk(fn):
        # DataFrame.update copies non-missing values only: a NaN moving into a row leaves the previous occupant's value there
        if isinstance(c, ast.Call) and isinstance(c.func, ast.Attribute) and c.func.attr == "update" and whole_frame(c.func.value) and c.args \
                and any(isinstance(x, ast.Attribute) and x.attr in ("iloc", "loc") for x in ast.walk(c.args[0])):
            out.append((c, "DataFrame.update (skips NaN)"))
    for st in ast.walk(fn):
        if isinstance(st, ast.Assign) and any(isinstance(t, ast.Subscript) and (whole_frame(t) or whole_frame(t.value) or (isinstance(t.value, ast.Attribute) and whole_frame(t.value.value)))
                                              for t in st.targets):
            for c in ast.walk(st.value):
                if isinstance(c, ast.Call) and isinstance(c.func, ast.Attribute) and c.func.attr in ("to_numpy", "to_records") and whole_frame(c.func.value) and not any(k.arg == "dtype" for k in c.keywords):
                    out.append((st, norm_src(c)))
                if isinstance(c, ast.Attribute) and c.attr == "values" and whole_frame(c.value):
                    out.append((st, norm_src(c)))
    return out


def find_emptyidx(fn) -> list:
    if isinstance(fn, ast.Lambda):
        return []
    built = {}
    for st in ast.walk(fn):
        if isinstance(st, ast.Assign) and len(st.targets) == 1 and isinstance(st.targets[0], ast.Name):
            for c in ast.walk(st.value):
                if isinstance(c, ast.Call) and (dotted(c.func) or "") in ("np.array", "numpy.array", "np.asarray", "numpy.asarray") and c.args and len(c.args) == 1 \
                        and not any(k.arg == "dtype" for k in c.keywords) and isinstance(c.args[0], (ast.ListComp, ast.List)) and not (isinstance(c.args[0], ast.List) and c.args[0].elts):
                    # the assigned value is that array, possibly shifted by a scalar
                    v = st.value
                    if v is c or (isinstance(v, ast.BinOp) and (v.left is c or v.right is c)):
                        built[st.targets[0].id] = st
    out = []
    for n in ast.walk(fn):
        if isinstance(n, ast.Subscript) and isinstance(n.slice, ast.Name) and n.slice.id in built:
            binds = [st for st in ast.walk(fn) if isinstance(st, ast.Assign) and any(isinstance(t, ast.Name) and t.id == n.slice.id for t in st.targets)]
            # bound once, or in alternative arms that all build an array (either can reach the use)
            if len(binds) == 1 or all(any(isinstance(c, ast.Call) and (dotted(c.func) or "").rsplit(".", 1)[-1] in ("array", "asarray") for c in ast.walk(b.value)) for b in binds):
                out.append((n, built[n.slice.id]))
    return out


def find_freshnode(fn) -> list:
    if isinstance(fn, ast.Lambda) or getattr(fn, "name", "") in ("__init__", "__new__"):
        return []
    out = []
    for st in ast.walk(fn):
        if isinstance(st, (ast.Assign, ast.AugAssign)):
            for t in (st.targets if isinstance(st, ast.Assign) else [st.target]):
                if isinstance(t, ast.Attribute) and t.attr == "idx" and isinstance(t.value, ast.Name) and t.value.id != "self":
                    out.append((st, t.value.id))
    return out


def find_sqdtype(fn, source="points") -> list:
    if isinstance(fn, ast.Lambda):
        return []
    derived = {source}
    floaty = set()
    for _ in range(3):
        for st in ast.walk(fn):
            if isinstance(st, ast.Assign) and len(st.targets) == 1 and isinstance(st.targets[0], ast.Name):
                v = st.value
                names = {n.id for n in ast.walk(v) if isinstance(n, ast.Name)}
                if names & derived and not any(isinstance(c, ast.Call) and ((dotted(c.func) or "").rsplit(".", 1)[-1] in ("norm", "sqrt", "astype", "float32", "float64", "hypot")
                                                                           or any(k.arg == "dtype" for k in c.keywords)) for c in ast.walk(v)) \
                        and isinstance(v, (ast.BinOp, ast.Call, ast.Subscript, ast.Name)) and (not isinstance(v, ast.BinOp) or isinstance(v.op, ast.Sub)):
                    derived.add(st.targets[0].id)
    out = []
    for c in ast.walk(fn):
        ops = None
        if isinstance(c, ast.Call) and (dotted(c.func) or "").rsplit(".", 1)[-1] in ("einsum", "dot", "inner", "vdot", "square", "tensordot"):
            ops = [a for a in c.args if isinstance(a, ast.Name)]
        elif isinstance(c, ast.BinOp) and isinstance(c.op, ast.Pow) and isinstance(c.left, ast.Name):
            ops = [c.left]
        elif isinstance(c, ast.BinOp) and isinstance(c.op, ast.Mult) and isinstance(c.left, ast.Name) and isinstance(c.right, ast.Name) and c.left.id == c.right.id:
            ops = [c.left]
        if ops and any(o.id in derived and o.id != source for o in ops):
            out.append((c, next(o.id for o in ops if o.id in derived)))
    return out


def _fixtures():
    import os
    from ..model import Repo
    here = os.path.dirname(os.path.dirname(os.path.abspath(__file__)))
    fx = Repo(here, pkg="fixtures")
    out = {}
    for d in fx.all_defs():
        if d.module.name.endswith("smalllints2_positive") and not d.is_lambda and d.parent is None:
            out[d.name] = (len(find_pathio(d.node)), len(find_framecast(d.node)), len(find_emptyidx(d.node)), len(find_freshnode(d.node)), len(find_sqdtype(d.node)))
    return out


def _fixture_check(col, rule):
    fx = _fixtures()
    ok = fx.get("basename_of_stream") == (1, 0, 0, 0, 0) and fx.get("abspath_if_str") == (0, 0, 0, 0, 0) and fx.get("block_move") == (0, 1, 0, 0, 0) and fx.get("column_by_column") == (0, 0, 0, 0, 0) \
        and fx.get("index_from_comprehension") == (0, 0, 1, 0, 0) and fx.get("index_with_dtype") == (0, 0, 0, 0, 0) and fx.get("cursor_node") == (0, 0, 0, 1, 0) and fx.get("squared_in_input_dtype") == (0, 0, 0, 0, 1) \
        and fx.get("norm_promotes") == (0, 0, 0, 0, 0)
    col.check(ok, rule, "sa.fixtures.smalllints2_positive", "sa/fixtures/smalllints2_positive.py:1", "the small lints recognise their kept examples", str(fx), f"fixture results {fx}", stmt="fixture")


def _run(ctx, col, modules, rule, text, finder, what, why, key):
    col.rule(rule, text, floor=1)
    for d in ctx.repo.all_defs():
        if d.module.name not in modules or d.is_lambda:
            continue
        for node, info in finder(d.node):
            col.bad(rule, d.qualname, d.loc(node), what, why(node, info), stmt=f"{key}:{str(info)[:24] if not isinstance(info, ast.AST) else key}", definite=True)
    _fixture_check(col, rule)


def run_pathio(ctx, col, modules, rule="R-PATHIO"):
    _run(ctx, col, modules, rule, "no os.path function is applied to a parameter that may be a stream outside an isinstance(<p>, str) test (zero expected, examples kept)", find_pathio,
         "a source given as a stream is never treated as a path",
         lambda n, nm: f"`{norm_src(n)}` is evaluated for every kind of source: when `{nm}` is a StringIO / BytesIO, os.path raises TypeError -- reading a stream fails exactly when this line is reached "
                       f"(e.g. when a warning about the file is due)", "pathio")


def run_framecast(ctx, col, modules, rule="R-FRAMECAST"):
    _run(ctx, col, modules, rule, "rows are moved column by column: no whole-frame `.to_numpy()` / `.values` written back into the frame (a mixed int / float frame becomes one float64 block; "
         "64-bit integers beyond 2**53 are rounded) (zero expected, examples kept)", find_framecast, "every column keeps its own dtype while rows are permuted",
         lambda n, src: f"`{norm_src(n)[:80]}` moves all columns through one array (`{src}`): with integer and float columns in the table that array is float64, so an int64 / uint64 column "
                        f"(segment ids, timestamps) is rounded to 53 bits on the way back", "framecast")


def run_emptyidx(ctx, col, modules, rule="R-EMPTYIDX"):
    _run(ctx, col, modules, rule, "an index array built from a list that may be empty carries an integer dtype (np.array([...]) of an empty list is float64 and cannot index) (zero expected, examples kept)",
         find_emptyidx, "an empty selection is a valid selection",
         lambda n, st: f"`{norm_src(n)[:60]}` indexes with `{norm_src(st)[:70]}`: when the list is empty (a junction node without children, a tree of one node) the array is float64 and numpy "
                       f"raises IndexError -- the degenerate case fails instead of being a no-op", "emptyidx")


def run_freshnode(ctx, col, modules, rule="R-FRESHNODE"):
    _run(ctx, col, modules, rule, "every callback gets its own node handle: no handle is re-pointed by assigning its `idx` (zero expected, examples kept)", find_freshnode,
         "a node given to a callback stays that node",
         lambda n, nm: f"`{norm_src(n)}` re-points the handle `{nm}`: every callback of the traversal receives the same object, so a callback that returns or keeps the node it was given "
                       f"(`leave=lambda n, c: n`) later finds it pointing at the last node visited", "freshnode")


def run_sqdtype(ctx, col, modules, rule="R-SQDTYPE"):
    _run(ctx, col, modules, rule, "squared coordinate differences are not accumulated in the dtype of the input cloud (einsum / dot / square / ** 2 on the raw difference): int16 voxel coordinates "
         "overflow; np.linalg.norm promotes to float (zero expected, examples kept)", find_sqdtype, "pairwise distances are exact for integer clouds",
         lambda n, nm: f"`{norm_src(n)[:70]}` squares `{nm}` in the dtype of the points: for an int16 cloud with an extent above 181 the squares overflow and the 'distances' that drive the "
                       f"spanning tree are wrong (the tree is no longer minimal)", "sqdtype")


def find_clip(fn) -> list:
    """parent ids clipped at -1 (`(pid - base).clip(lower=-1)`, np.maximum(pid - base, -1)): a shifted parent id below -1 is a legitimate value, not a root marker"""
    if isinstance(fn, ast.Lambda):
        return []
    out = []
    for c in ast.walk(fn):
        if not isinstance(c, ast.Call):
            continue
        last = (dotted(c.func) or "").rsplit(".", 1)[-1] if dotted(c.func) else (c.func.attr if isinstance(c.func, ast.Attribute) else "")
        if last not in ("clip", "maximum", "fmax"):
            continue
        vals = list(c.args) + [k.value for k in c.keywords]
        has_m1 = any(isinstance(v, ast.UnaryOp) and isinstance(v.op, ast.USub) and isinstance(v.operand, ast.Constant) and v.operand.value == 1 for v in vals)
        about_pid = "pid" in norm_src(c)
        if has_m1 and about_pid:
            out.append((c, "pid"))
    return out


def run_clip(ctx, col, modules, rule="R-CLIP"):
    col.rule(rule, "re-based parent ids are not clipped at -1: after subtracting the first root's id a parent id below that root's id is negative and still a real parent; only the rows that "
             "were roots before get -1 (mask taken before the shift) (zero expected)", floor=0)
    n = 0
    for d in ctx.repo.all_defs():
        if d.module.name not in modules or d.is_lambda:
            continue
        for node, _ in find_clip(d.node):
            n += 1
            col.bad(rule, d.qualname, d.loc(node), "a negative re-based parent id stays a parent", f"`{norm_src(node)[:80]}` turns every re-based parent id below -1 into the root marker: in a file whose first "
                    f"root does not carry the smallest id (root listed with the largest id, a forest whose later tree has smaller ids) the nodes hanging on a smaller id silently become extra roots",
                    stmt="clip", definite=True)
    if not n:
        col.ok(rule, "swcgeom.core.swc_utils.normalizer", "swcgeom/core/swc_utils/normalizer.py:1", "a negative re-based parent id stays a parent", "no clip / maximum at -1 over a parent column", stmt="clip")


def find_splitlines(fn) -> list:
    if isinstance(fn, ast.Lambda):
        return []
    return [(c, "splitlines") for c in ast.walk(fn) if isinstance(c, ast.Call) and isinstance(c.func, ast.Attribute) and c.func.attr == "splitlines"]


def run_splitlines(ctx, col, modules, rule="R-SPLITLINES"):
    col.rule(rule, "the reader takes its lines from the file object (universal newlines: \\n, \\r\\n, \\r), never from str.splitlines(), which also cuts at \\x0b, \\x0c, \\x1c-\\x1e, \\x85, "
             "U+2028 and U+2029 -- characters the row regex treats as blanks inside a line (zero expected)", floor=0)
    n = 0
    for d in ctx.repo.all_defs():
        if d.module.name not in modules or d.is_lambda:
            continue
        for node, _ in find_splitlines(d.node):
            n += 1
            col.bad(rule, d.qualname, d.loc(node), "a line is what the file object says a line is",
                    f"`{norm_src(node)[:70]}` cuts the text at form feeds, vertical tabs, NEL, U+2028 ... as well: a comment or a row that contains one of them is split in two -- the "
                    f"tail is rejected as an invalid row, or read as an extra node", stmt="splitlines", definite=True)
    if not n:
        col.ok(rule, "swcgeom.core.swc_utils.io", "swcgeom/core/swc_utils/io.py:1", "a line is what the file object says a line is", "no str.splitlines() in the reader", stmt="splitlines")


def find_twice(fn) -> list:
    """Iterable-annotated parameters that are consumed more than once (iterated, or handed to a callee) before being bound to a materialised copy"""
    if isinstance(fn, ast.Lambda):
        return []
    a = fn.args
    cand = {x.arg for x in a.posonlyargs + a.args + a.kwonlyargs if x.annotation is not None and norm_src(x.annotation).replace("Optional[", "").startswith(("Iterable", "Iterator"))}
    out = []
    for p in sorted(cand):
        rebind = [st.lineno for st in ast.walk(fn) if isinstance(st, ast.Assign) and any(isinstance(t, ast.Name) and t.id == p for t in st.targets)]
        limit = min(rebind) if rebind else 10 ** 9
        uses = []
        for n in ast.walk(fn):
            if isinstance(n, (ast.For, ast.comprehension)) and isinstance(n.iter, ast.Name) and n.iter.id == p:
                uses.append(n.iter)
            elif isinstance(n, ast.Call) and (dotted(n.func) or "") not in ("isinstance", "len", "type", "id", "bool"):
                for x in list(n.args) + [k.value for k in n.keywords]:
                    if isinstance(x, ast.Name) and x.id == p:
                        uses.append(x)
                    if isinstance(x, ast.Starred) and isinstance(x.value, ast.Name) and x.value.id == p:
                        uses.append(x.value)
        uses = [u for u in uses if u.lineno <= limit]
        if len(uses) > 1:
            out.append((uses[1], (p, [u.lineno for u in uses])))
    return out


def run_twice(ctx, col, modules, rule="R-ITER2", only=None):
    col.rule(rule, "an Iterable-annotated option is consumed once: it is iterated or handed on at most once before being bound to a list of its own (a generator / map object is a legal "
             "argument and is empty the second time) (zero expected)", floor=0)
    n = 0
    for d in ctx.repo.all_defs():
        if d.module.name not in modules or d.is_lambda or (only and d.name not in only):
            continue
        for node, (p, lines) in find_twice(d.node):
            n += 1
            col.bad(rule, d.qualname, d.loc(node), f"`{p}` is walked once", f"`{p}` (annotated Iterable) is consumed {len(lines)} times (lines {lines}) without being materialised first: for a generator / "
                    f"iter() / map() argument the second consumer sees an empty sequence -- the requested extra columns are silently dropped, or nothing is removed", stmt=f"twice:{p}", definite=True)
    if not n:
        col.ok(rule, "swcgeom.core.swc_utils.io", "swcgeom/core/swc_utils/io.py:1", "Iterable options are walked once", "no Iterable parameter consumed twice", stmt="twice")


def run_allpairs(ctx, col, modules, rule="R-ALLPAIRS"):
    """the pairwise-overlap term of the tree volume ranges over ALL unordered pairs of a node's child cones: `itertools.pairwise` / `zip(x, x[1:])` give the adjacent pairs only"""
    col.rule(rule, "a term over pairs of sibling cones ranges over all unordered pairs (i < j double loop, itertools.combinations(x, 2)); itertools.pairwise / zip(x, x[1:]) yield the "
             "adjacent pairs only, so with three or more children some overlaps are never subtracted and the result depends on the order of the children (zero expected)", floor=0)
    n = 0
    for d in ctx.repo.all_defs():
        if d.module.name not in modules or d.is_lambda:
            continue
        for c in ast.walk(d.node):
            hit = None
            if isinstance(c, ast.Call) and (dotted(c.func) or "").rsplit(".", 1)[-1] == "pairwise" and c.args:
                hit = norm_src(c)
            if isinstance(c, ast.Call) and isinstance(c.func, ast.Name) and c.func.id == "zip" and len(c.args) == 2 and isinstance(c.args[1], ast.Subscript) \
                    and norm_src(c.args[1].value) == norm_src(c.args[0]) and isinstance(c.args[1].slice, ast.Slice) and norm_src(c.args[1].slice.lower or ast.Constant(0)) == "1":
                hit = norm_src(c)
            if hit and any(k in hit for k in ("cone", "frust", "child", "sibling")):
                n += 1
                col.bad(rule, d.qualname, d.loc(c), "every pair of sibling cones is considered", f"`{hit[:60]}` pairs each cone with the next one only: with three or more children the overlap of "
                        f"non-adjacent cones is never subtracted, and which pairs are adjacent depends on the order of the children in the node table (the volume changes under renumbering)",
                        stmt="allpairs", definite=True)
    if not n:
        col.ok(rule, "swcgeom.analysis.volume", "swcgeom/analysis/volume.py:1", "every pair of sibling cones is considered", "no adjacent-pairs iteration over the child cones", stmt="allpairs")
