"""Static-analysis machinery for the swcgeom properties C01..C20.

Nothing in this package imports or runs code from /repo: every fact is
computed from the parsed source (``ast``) of the current working tree.
"""
