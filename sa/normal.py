"""Canonical form of a module's AST, applied once after parsing (sa/model.py) so that every rule sees the same
program whatever spelling the source uses.  Each step is a semantics-preserving rewrite of the kind a compiler's
lowering pass does; none depends on names, positions or on what the program computes.  Line numbers are kept.

  doc    docstrings / bare string statements are dropped (an emptied body gets `pass`)
  ann    inside functions `x: T = e` -> `x = e`; a bare local declaration `x: T` is dropped
  cmp    `k < len(x)` -> `len(x) > k`; `len(x) >= k` -> `len(x) > k-1`; `len(x) <= k` -> `len(x) < k+1`;
         `len(x) != 0` -> `len(x) > 0`   (integers only: the operand is a `len(...)`)
  flip   `if not c: A else: B` -> `if c: B else: A`; likewise `!=`/`is not`/`not in` tests with both arms present
         (orelse must not be an `elif` chain)
  early  `if c: A else: B` where A always ends in return / raise / continue / break -> `if c: A` followed by B
  names  every function's locals are renamed to the names of the reference tree (sa/names.py), new use-once temporaries
         are substituted away
  temp   (not active; `names` applies it to new temporaries only) a local bound once, by a plain assignment, and read exactly once, in the statement that follows the
         assignment (in the part of it that is evaluated once), is substituted and the assignment dropped
         (`res = f(x); return res` -> `return f(x)`)

The steps that are on are listed in ACTIVE; `VERIF_NORMAL=a,b,..` overrides (used while developing)."""

from __future__ import annotations

import ast
import os

ACTIVE = ("doc", "ann", "cmp", "flip", "early", "loops", "names")  # "merge", "tuples": implemented, not needed so far  # "temp" is implemented but not switched on yet (rules still name today's temporaries)


def _active():
    v = os.environ.get("VERIF_NORMAL")
    if v is None:
        return ACTIVE
    return tuple(x for x in v.split(",") if x)


# ---------------------------------------------------------------- helpers

def _is_len(e):
    return isinstance(e, ast.Call) and isinstance(e.func, ast.Name) and e.func.id == "len" and len(e.args) == 1 and not e.keywords


def _intc(e):
    if isinstance(e, ast.Constant) and type(e.value) is int:
        return e.value
    if isinstance(e, ast.UnaryOp) and isinstance(e.op, ast.USub) and isinstance(e.operand, ast.Constant) and type(e.operand.value) is int:
        return -e.operand.value
    return None


def _const(k, like):
    return ast.copy_location(ast.Constant(k), like)


_FLIP = {ast.Lt: ast.Gt, ast.Gt: ast.Lt, ast.LtE: ast.GtE, ast.GtE: ast.LtE, ast.Eq: ast.Eq, ast.NotEq: ast.NotEq}


def _numconst(e) -> bool:
    if isinstance(e, ast.UnaryOp) and isinstance(e.op, ast.USub):
        e = e.operand
    return isinstance(e, ast.Constant) and isinstance(e.value, (int, float)) and not isinstance(e.value, bool)


class _Cmp(ast.NodeTransformer):
    def visit_UnaryOp(self, n):
        self.generic_visit(n)
        # `not (a == b)` -> `a != b` (and is / in); `not (len(x) == 0)` etc. are integers: every comparison can be negated
        if isinstance(n.op, ast.Not) and isinstance(n.operand, ast.Compare) and len(n.operand.ops) == 1:
            c = n.operand
            inv = {ast.Eq: ast.NotEq, ast.NotEq: ast.Eq, ast.Is: ast.IsNot, ast.IsNot: ast.Is, ast.In: ast.NotIn, ast.NotIn: ast.In}
            t = type(c.ops[0])
            if t in inv:
                return self.visit_Compare(ast.copy_location(ast.Compare(left=c.left, ops=[inv[t]()], comparators=c.comparators), c), again=True)
            ints = {ast.Lt: ast.GtE, ast.GtE: ast.Lt, ast.Gt: ast.LtE, ast.LtE: ast.Gt}
            if t in ints and (_is_len(c.left) or _is_len(c.comparators[0])):
                return self.visit_Compare(ast.copy_location(ast.Compare(left=c.left, ops=[ints[t]()], comparators=c.comparators), c), again=True)
        return n

    def visit_Compare(self, n, again=False):
        if not again:
            self.generic_visit(n)
        if len(n.ops) != 1:
            return n
        a, op, b = n.left, n.ops[0], n.comparators[0]
        # a numeric literal stands on the right, a len() on the left; any other comparison is oriented like the same comparison
        # of the reference tree (sa/names.py orient_comparisons, after the locals have their reference names)
        if type(op) in _FLIP:
            if _numconst(a) and not _numconst(b):
                a, b, op = b, a, _FLIP[type(op)]()
            elif not _numconst(b) and not _numconst(a):
                if _is_len(b) and not _is_len(a):
                    a, b, op = b, a, _FLIP[type(op)]()
            n = ast.copy_location(ast.Compare(left=a, ops=[op], comparators=[b]), n)
        if _is_len(b) and _intc(a) is not None:
            flip = {ast.Lt: ast.Gt, ast.Gt: ast.Lt, ast.LtE: ast.GtE, ast.GtE: ast.LtE, ast.Eq: ast.Eq, ast.NotEq: ast.NotEq}
            if type(op) in flip:
                a, b, op = b, a, flip[type(op)]()
        if _is_len(a) and _intc(b) is not None:
            k = _intc(b)
            if isinstance(op, ast.GtE):
                op, b = ast.Gt(), _const(k - 1, b)
            elif isinstance(op, ast.LtE):
                op, b = ast.Lt(), _const(k + 1, b)
            elif isinstance(op, ast.NotEq) and k == 0:
                op, b = ast.Gt(), _const(0, b)
            elif isinstance(op, ast.Lt) and k == 1:
                op, b = ast.Eq(), _const(0, b)
            return ast.copy_location(ast.Compare(left=a, ops=[op], comparators=[b]), n)
        return n


def _terminates(body) -> bool:
    if not body:
        return False
    last = body[-1]
    if isinstance(last, (ast.Return, ast.Raise, ast.Continue, ast.Break)):
        return True
    if isinstance(last, ast.If) and last.orelse:
        return _terminates(last.body) and _terminates(last.orelse)
    return False


_NEG = {ast.NotEq: ast.Eq, ast.IsNot: ast.Is, ast.NotIn: ast.In}


def _positive(test):
    """(positive test, was_negated)"""
    if isinstance(test, ast.UnaryOp) and isinstance(test.op, ast.Not):
        return test.operand, True
    if isinstance(test, ast.Compare) and len(test.ops) == 1 and type(test.ops[0]) in _NEG:
        return ast.copy_location(ast.Compare(left=test.left, ops=[_NEG[type(test.ops[0])]()], comparators=test.comparators), test), True
    return test, False


def _is_elif(orelse) -> bool:
    return len(orelse) == 1 and isinstance(orelse[0], ast.If)


# ---------------------------------------------------------------- block rewriting

_BLOCK_FIELDS = ("body", "orelse", "finalbody")


def _rewrite_blocks(node, fn, in_function=False):
    """apply fn(stmts, in_function) -> stmts to every statement list, innermost first"""
    for ch in ast.iter_child_nodes(node):
        _rewrite_blocks(ch, fn, in_function or isinstance(node, (ast.FunctionDef, ast.AsyncFunctionDef)))
    inside = in_function or isinstance(node, (ast.FunctionDef, ast.AsyncFunctionDef))
    for f in _BLOCK_FIELDS:
        b = getattr(node, f, None)
        if isinstance(b, list) and (not b or isinstance(b[0], ast.stmt)):
            if b:
                nb = fn(b, inside, node, f)
                if not nb and f == "body":
                    nb = [ast.copy_location(ast.Pass(), b[0])]
                setattr(node, f, nb)
    if isinstance(node, ast.Try):
        for h in node.handlers:
            pass  # handlers are visited as children (ExceptHandler has .body)
    if isinstance(node, ast.Match):
        pass  # match_case has .body, visited as a child


def _doc(stmts, inside, owner, field):
    out = [s for s in stmts if not (isinstance(s, ast.Expr) and isinstance(s.value, ast.Constant) and isinstance(s.value.value, str))]
    return out


def _ann(stmts, inside, owner, field):
    if not inside or isinstance(owner, ast.ClassDef):
        return stmts
    out = []
    for s in stmts:
        if isinstance(s, ast.AnnAssign):
            if s.value is None:
                continue
            out.append(ast.copy_location(ast.Assign(targets=[s.target], value=s.value), s))
        else:
            out.append(s)
    return out


def _flip(stmts, inside, owner, field):
    for s in stmts:
        if isinstance(s, ast.If) and s.orelse and not _is_elif(s.orelse):
            t, neg = _positive(s.test)
            if neg:
                s.test, s.body, s.orelse = t, s.orelse, s.body
    return stmts


def _early(stmts, inside, owner, field):
    out = []
    for s in stmts:
        out.append(s)
        if isinstance(s, ast.If) and s.orelse and _terminates(s.body):
            rest = s.orelse
            s.orelse = []
            out.extend(_early(rest, inside, s, "orelse"))
    return out


def _whiletrue(stmts, inside, owner, field):
    """`while True: if c: break; B` -> `while not c: B`  (the break test is the first statement, nothing else to it)"""
    for s in stmts:
        if isinstance(s, ast.While) and isinstance(s.test, ast.Constant) and s.test.value is True and not s.orelse and s.body:
            f = s.body[0]
            if isinstance(f, ast.If) and not f.orelse and len(f.body) == 1 and isinstance(f.body[0], ast.Break):
                s.test = _Cmp().visit(ast.copy_location(ast.UnaryOp(op=ast.Not(), operand=f.test), f.test))
                s.body = s.body[1:] or [ast.copy_location(ast.Pass(), f)]
    return stmts


def _mergeif(stmts, inside, owner, field):
    """`if a: if b: X` (no else on either, nothing else in the outer body) -> `if a and b: X`"""
    for s in stmts:
        while isinstance(s, ast.If) and not s.orelse and len(s.body) == 1 and isinstance(s.body[0], ast.If) and not s.body[0].orelse:
            inner = s.body[0]
            vals = (s.test.values if isinstance(s.test, ast.BoolOp) and isinstance(s.test.op, ast.And) else [s.test]) + \
                   (inner.test.values if isinstance(inner.test, ast.BoolOp) and isinstance(inner.test.op, ast.And) else [inner.test])
            s.test = ast.copy_location(ast.BoolOp(op=ast.And(), values=vals), s.test)
            s.body = inner.body
    return stmts


def _tuplesplit(stmts, inside, owner, field):
    """`a, b = x, y` -> `a = x; b = y` when no bound name is read by a later value (plain names only)"""
    out = []
    for s in stmts:
        if isinstance(s, ast.Assign) and len(s.targets) == 1 and isinstance(s.targets[0], ast.Tuple) and isinstance(s.value, ast.Tuple) \
                and len(s.targets[0].elts) == len(s.value.elts) and all(isinstance(t, ast.Name) for t in s.targets[0].elts) \
                and not any(isinstance(v, ast.Starred) for v in s.value.elts):
            tg = [t.id for t in s.targets[0].elts]
            if not any(isinstance(n, ast.Name) and n.id in tg[:i] for i, v in enumerate(s.value.elts) for n in ast.walk(v)):
                for t, v in zip(s.targets[0].elts, s.value.elts):
                    out.append(ast.copy_location(ast.Assign(targets=[t], value=v), s))
                continue
        out.append(s)
    return out


def _loop2comp(stmts, inside, owner, field):
    """`x = []` followed by `for v in it: [if c:] x.append(e)` -> `x = [e for v in it if c]`"""
    out, k = [], 0
    while k < len(stmts):
        s = stmts[k]
        nxt = stmts[k + 1] if k + 1 < len(stmts) else None
        if inside and isinstance(s, ast.Assign) and len(s.targets) == 1 and isinstance(s.targets[0], ast.Name) and isinstance(s.value, ast.List) \
                and not s.value.elts and isinstance(nxt, ast.For) and not nxt.orelse and len(nxt.body) == 1:
            x = s.targets[0].id
            inner, conds = nxt.body[0], []
            while isinstance(inner, ast.If) and not inner.orelse and len(inner.body) == 1:
                conds.append(inner.test)
                inner = inner.body[0]
            if isinstance(inner, ast.Expr) and isinstance(inner.value, ast.Call) and isinstance(inner.value.func, ast.Attribute) \
                    and inner.value.func.attr == "append" and isinstance(inner.value.func.value, ast.Name) and inner.value.func.value.id == x \
                    and len(inner.value.args) == 1 and not inner.value.keywords:
                others = [nxt.iter, inner.value.args[0]] + conds
                if not any(isinstance(n, ast.Name) and n.id == x for e in others for n in ast.walk(e)) \
                        and not any(isinstance(n, (ast.Yield, ast.YieldFrom, ast.Await, ast.NamedExpr)) for e in others for n in ast.walk(e)):
                    comp = ast.ListComp(elt=inner.value.args[0], generators=[ast.comprehension(target=nxt.target, iter=nxt.iter, ifs=conds, is_async=0)])
                    out.append(ast.copy_location(ast.Assign(targets=[s.targets[0]], value=ast.copy_location(comp, nxt)), s))
                    k += 2
                    continue
        out.append(s)
        k += 1
    return out


# ---------------------------------------------------------------- single-use temporaries

def _fn_scope_nodes(fn):
    todo = list(ast.iter_child_nodes(fn))
    while todo:
        n = todo.pop()
        yield n
        todo.extend(ast.iter_child_nodes(n))


def _once_evaluated_exprs(s):
    """expressions of statement s that are evaluated exactly once, before any nested block of s runs"""
    if isinstance(s, (ast.Return, ast.Expr)):
        return [s.value] if s.value is not None else []
    if isinstance(s, ast.Assign):
        return [s.value] + [t for t in s.targets if not isinstance(t, ast.Name)]
    if isinstance(s, ast.AugAssign):
        return [s.value] + ([s.target] if not isinstance(s.target, ast.Name) else [])
    if isinstance(s, ast.AnnAssign):
        return [s.value] if s.value is not None else []
    if isinstance(s, ast.If):
        return [s.test]
    if isinstance(s, ast.For):
        return [s.iter]
    if isinstance(s, ast.With):
        return [s.items[0].context_expr] if s.items else []
    if isinstance(s, ast.Raise):
        return [x for x in (s.exc, s.cause) if x is not None]
    if isinstance(s, ast.Assert):
        return [s.test]
    return []


class _Subst(ast.NodeTransformer):
    def __init__(self, name, value):
        self.name, self.value, self.done = name, value, 0

    def visit_Name(self, n):
        if n.id == self.name and isinstance(n.ctx, ast.Load):
            self.done += 1
            return self.value
        return n

    def visit_Lambda(self, n):
        return n  # a use inside a lambda / comprehension is evaluated later or repeatedly: never substituted

    visit_ListComp = visit_SetComp = visit_DictComp = visit_GeneratorExp = visit_Lambda


def _uses_in(e, name, deferred=False):
    """(#loads of name evaluated once in e, #loads in deferred positions)"""
    direct = later = 0

    def walk(n, d):
        nonlocal direct, later
        if isinstance(n, ast.Name) and n.id == name and isinstance(n.ctx, ast.Load):
            if d:
                later += 1
            else:
                direct += 1
        dd = d or isinstance(n, (ast.Lambda, ast.ListComp, ast.SetComp, ast.DictComp, ast.GeneratorExp))
        for ch in ast.iter_child_nodes(n):
            walk(ch, dd)

    walk(e, deferred)
    return direct, later


def _temp_function(fn, only=None):
    # names bound / read in the whole function (incl. nested scopes: a nested use blocks the rewrite)
    changed = True
    while changed:
        changed = False
        loads, stores = {}, {}
        for n in _fn_scope_nodes(fn):
            if isinstance(n, ast.Name):
                (loads if isinstance(n.ctx, ast.Load) else stores).setdefault(n.id, []).append(n)
            elif isinstance(n, (ast.Global, ast.Nonlocal)):
                for x in n.names:
                    stores.setdefault(x, []).extend([n, n])
            elif isinstance(n, ast.arg):
                stores.setdefault(n.arg, []).append(n)
            elif isinstance(n, (ast.MatchAs, ast.MatchStar)) and n.name:
                stores.setdefault(n.name, []).extend([n, n])
            elif isinstance(n, ast.ExceptHandler) and n.name:
                stores.setdefault(n.name, []).extend([n, n])
        a = fn.args
        params = {x.arg for x in a.posonlyargs + a.args + a.kwonlyargs} | ({a.vararg.arg} if a.vararg else set()) | ({a.kwarg.arg} if a.kwarg else set())

        def try_block(stmts):
            for k in range(len(stmts) - 1):
                s, nxt = stmts[k], stmts[k + 1]
                if not (isinstance(s, ast.Assign) and len(s.targets) == 1 and isinstance(s.targets[0], ast.Name)):
                    continue
                x = s.targets[0].id
                if only is not None and not only(x):
                    continue
                if x in params or len(stores.get(x, [])) != 1 or len(loads.get(x, [])) != 1:
                    continue
                if any(isinstance(y, (ast.Yield, ast.YieldFrom, ast.Await, ast.NamedExpr)) for y in ast.walk(s.value)):
                    continue
                exprs = _once_evaluated_exprs(nxt)
                tot_d = tot_l = 0
                for e in exprs:
                    d, l = _uses_in(e, x)
                    tot_d += d
                    tot_l += l
                if tot_d != 1 or tot_l != 0:
                    continue
                # the single read must be the one we found (not elsewhere in nxt's nested blocks)
                sub = _Subst(x, s.value)
                if isinstance(nxt, (ast.Return, ast.Expr)):
                    nxt.value = sub.visit(nxt.value)
                elif isinstance(nxt, ast.Assign):
                    nxt.value = sub.visit(nxt.value)
                    nxt.targets = [t if isinstance(t, ast.Name) else sub.visit(t) for t in nxt.targets]
                elif isinstance(nxt, ast.AugAssign):
                    nxt.value = sub.visit(nxt.value)
                    if not isinstance(nxt.target, ast.Name):
                        nxt.target = sub.visit(nxt.target)
                elif isinstance(nxt, ast.AnnAssign):
                    nxt.value = sub.visit(nxt.value)
                elif isinstance(nxt, ast.If):
                    nxt.test = sub.visit(nxt.test)
                elif isinstance(nxt, ast.For):
                    nxt.iter = sub.visit(nxt.iter)
                elif isinstance(nxt, ast.With):
                    nxt.items[0].context_expr = sub.visit(nxt.items[0].context_expr)
                elif isinstance(nxt, ast.Raise):
                    if nxt.exc is not None:
                        nxt.exc = sub.visit(nxt.exc)
                    if nxt.cause is not None:
                        nxt.cause = sub.visit(nxt.cause)
                elif isinstance(nxt, ast.Assert):
                    nxt.test = sub.visit(nxt.test)
                if sub.done == 1:
                    del stmts[k]
                    return True
            return False

        for n in [fn] + list(_fn_scope_nodes(fn)):
            if isinstance(n, (ast.FunctionDef, ast.AsyncFunctionDef, ast.Lambda)) and n is not fn:
                continue
            for f in _BLOCK_FIELDS:
                b = getattr(n, f, None)
                if isinstance(b, list) and b and isinstance(b[0], ast.stmt):
                    if try_block(b):
                        changed = True
                        break
            if changed:
                break


def _temp(tree):
    fns = [n for n in ast.walk(tree) if isinstance(n, (ast.FunctionDef, ast.AsyncFunctionDef))]
    # innermost first so that an outer function sees its nested functions already reduced
    for fn in reversed(fns):
        _temp_function(fn)


# ---------------------------------------------------------------- entry

def normalise(tree: ast.Module, modname: str = "") -> ast.Module:
    act = _active()
    if "cmp" in act:
        tree = _Cmp().visit(tree)
    if "doc" in act:
        _rewrite_blocks(tree, _doc)
    if "ann" in act:
        _rewrite_blocks(tree, _ann)
    if "flip" in act:
        _rewrite_blocks(tree, _flip)
    if "early" in act:
        _rewrite_blocks(tree, _early)
    if "loops" in act:
        _rewrite_blocks(tree, _whiletrue)
    if "merge" in act:
        _rewrite_blocks(tree, _mergeif)
        _rewrite_blocks(tree, _loop2comp)
    if "tuples" in act:
        _rewrite_blocks(tree, _tuplesplit)
    if "names" in act and modname:
        from . import names
        for _ in range(3):
            st = {}
            names.translate_module(tree, modname, st)
            before = ast.dump(tree)
            names.inline_new_temporaries(tree)
            if ast.dump(tree) == before:
                break
        names.orient_comparisons(tree, modname)
    if "temp" in act:
        _temp(tree)
    ast.fix_missing_locations(tree)
    return tree
