"""C07 -- re-rooting and concatenation preserve structure and geometry."""

from __future__ import annotations

import ast

from .. import own
from ..util import expand_names
from ..model import AnalysisError, dotted, norm_src, own_nodes
from ..rules import xyz
from ..util import const_int
from .c03 import analyse
from .c04 import recursion_free

TU = "swcgeom.core.tree_utils"


def _squared_norm(d, t):
    """`np.dot(v, v) < tol`, `v @ v < tol`, `np.sum(v * v)`, `np.sum(v ** 2)`, `(v ** 2).sum()`: the operand v, else None"""
    if not (isinstance(t, ast.Compare) and len(t.ops) == 1 and isinstance(t.ops[0], (ast.Lt, ast.LtE))):
        return None
    e = t.left
    if isinstance(e, ast.Call) and (dotted(e.func) or "").endswith(("np.dot", "np.inner", "np.vdot")) and len(e.args) == 2 \
            and norm_src(e.args[0]) == norm_src(e.args[1]):
        return e.args[0]
    if isinstance(e, ast.BinOp) and isinstance(e.op, ast.MatMult) and norm_src(e.left) == norm_src(e.right):
        return e.left
    inner = None
    if isinstance(e, ast.Call) and (dotted(e.func) or "").endswith("np.sum") and e.args:
        inner = e.args[0]
    elif isinstance(e, ast.Call) and isinstance(e.func, ast.Attribute) and e.func.attr == "sum" and not e.args:
        inner = e.func.value
    if inner is not None:
        if isinstance(inner, ast.BinOp) and isinstance(inner.op, ast.Pow) and norm_src(inner.right) == "2":
            return inner.left
        if isinstance(inner, ast.BinOp) and isinstance(inner.op, ast.Mult) and norm_src(inner.left) == norm_src(inner.right):
            return inner.left
    return None


def run(ctx, col, tier):
    repo = ctx.repo
    from ..rules import smalllints2 as _s2
    _s2.run_emptyidx(ctx, col, ('swcgeom.core.tree_utils', 'swcgeom.core.tree_utils_impl', 'swcgeom.core.swc_utils.subtree', 'swcgeom.core.swc_utils.normalizer'))
    from ..rules import stateless as _stateless_memo
    _stateless_memo.run_memo(ctx, col)
    from ..rules import stale as _stale
    _stale.run(ctx, col, ('swcgeom.core.tree_utils', 'swcgeom.transforms.path'))
    from ..rules import rootpos as _rootpos
    _rootpos.run(ctx, col, ('swcgeom.core.tree_utils', 'swcgeom.core.tree_utils_impl', 'swcgeom.transforms.path'))
    col.rule("R-PURE", "both operations work on copies: no store through an input alias, result fresh", floor=2)
    col.rule("R-REROOT", "re-rooting: the chain new root -> old root is collected by following "
             "parents; only pid and type are stored; the new root gets -1; every other chain node "
             "is re-parented to its former child; the type exchange is between the two ends of "
             "the chain", floor=6, shape=True)
    col.rule("R-SHIFT", "concatenation shifts id and parent id of the second tree by the same "
             "amount, the node count of the first tree", floor=2, shape=True)
    col.rule("R-SENT", "the second tree's shifted root marker never survives: its root is either "
             "re-linked to the junction node or deleted (merge), and the link/removal targets are "
             "computed before the shift", floor=4, shape=True)
    col.rule("R-XYZ", "the translation statements form one family over x, y, z", floor=1, shape=True)
    col.rule("R-CAT", "concatenation plumbing: second tree re-rooted at the junction when needed "
             "(without renumbering), columns appended first-tree-first for every key of the first "
             "tree, result renumbered before return, translate flag gates the translation", floor=6, shape=True)
    col.rule("R-CG", "recursion-free", floor=2)
    col.not_decided += ["edge-set preservation and rigid translation as statements about values",
                        "the merge tolerance"]

    for q in (f"{TU}.redirect_tree", f"{TU}.cat_tree"):
        d = repo.get_def(q)
        I, r, _ = analyse(ctx, d, None)
        fresh = isinstance(r, own.Obj) and not own.storage_owners(r)
        col.check(not I.effects and fresh, "R-PURE", q, d.loc(), "inputs untouched, result fresh",
                  f"{I.stores_seen} stores met", (f"write through an input alias at {I.effects[0].where()}: "
                  f"`{norm_src(I.effects[0].node)[:60]}`" if I.effects else "result shares storage with an input"),
                  stmt="pure")
        recursion_free(ctx, col, "R-CG", [q], f"recursion-free from {q.split('.')[-1]}")

    from ..rules import rtolpos
    rtolpos.run(ctx, col, ("swcgeom.core.tree_utils.cat_tree", "swcgeom.core.tree_utils.redirect_tree"))
    col.guard(anchored, ctx, col)
    from .c05 import tree_gather_keys
    col.guard(tree_gather_keys, ctx, col, "R-CAT")
    col.guard(reroot, ctx, col)
    col.guard(cat, ctx, col)


def reroot(ctx, col):
    repo = ctx.repo
    R = "R-REROOT"
    d = repo.get_def(f"{TU}.redirect_tree")
    q = d.qualname
    body = d.node.body
    pa = [n for n in own_nodes(d) if isinstance(n, ast.Assign) and norm_src(n.targets[0]) == "path"]
    ok = len(pa) == 1 and norm_src(pa[0].value) == "[tree.node(new_root)]"
    col.check(ok, R, q, d.loc(pa[0]) if pa else d.loc(), "chain starts at the requested node",
              norm_src(pa[0].value) if pa else "", "chain does not start at tree.node(new_root)", stmt="chain-start")
    wh = [n for n in own_nodes(d) if isinstance(n, ast.While)]
    ok = len(wh) == 1 and norm_src(wh[0].test) == "(p := path[-1].parent()) is not None" and \
        [norm_src(s) for s in wh[0].body] == ["path.append(p)"]
    col.judge(len(wh) == 1, ok, R, q, d.loc(wh[0]) if wh else d.loc(), "chain follows parents up to the root",
              norm_src(wh[0].test) if wh else "", "chain loop is not `while (p := path[-1].parent()) is not None: path.append(p)`",
              stmt="chain-loop")
    # stores
    stores = [n for n in own_nodes(d) if isinstance(n, ast.Assign)
              and any(isinstance(t, (ast.Attribute, ast.Subscript)) or
                      (isinstance(t, ast.Tuple) and any(isinstance(e, ast.Attribute) for e in t.elts))
                      for t in n.targets)]
    srcs = [norm_src(s) for s in stores]
    newroot = [s for s in stores if norm_src(s.targets[0]) == "path[0].pid"]
    ok = len(newroot) == 1 and const_int(newroot[0].value) == -1
    col.check(ok, R, q, d.loc(newroot[0]) if newroot else d.loc(), "the requested node becomes the root (parent -1)",
              norm_src(newroot[0]) if newroot else "", "path[0].pid is not set to -1", stmt="new-root")
    swap = [s for s in stores if isinstance(s.targets[0], ast.Tuple)]
    ok = len(swap) == 1 and norm_src(swap[0]) in (
        "path[0].type, path[-1].type = (path[-1].type, path[0].type)",
        "(path[0].type, path[-1].type) = (path[-1].type, path[0].type)",
        "path[-1].type, path[0].type = (path[0].type, path[-1].type)")
    col.check(ok, R, q, d.loc(swap[0]) if swap else d.loc(), "only the types of the old and the new root are exchanged",
              norm_src(swap[0]) if swap else "", "type store is not the two-element exchange between path[0] and path[-1]",
              stmt="type-swap")
    loops = [n for n in own_nodes(d) if isinstance(n, ast.For)]
    ok = False
    if len(loops) == 1:
        lp = loops[0]
        if isinstance(lp.target, ast.Tuple) and len(lp.target.elts) == 2:
            a, b = [e.id for e in lp.target.elts]
            ok = norm_src(lp.iter) == "zip(path[1:], path[:-1])" and len(lp.body) == 1 and \
                norm_src(lp.body[0]) == f"{a}.pid = {b}.id"
    col.check(ok, R, q, d.loc(loops[0]) if loops else d.loc(), "each chain node's parent becomes its former "
              "child on the chain (edge set kept, direction reversed)", norm_src(loops[0]) if loops else "",
              "reversal loop is not `for n, p in zip(path[1:], path[:-1]): n.pid = p.id`", stmt="reverse")
    ok = len(stores) == 3 and loops and swap and newroot and \
        all(s.lineno > wh[0].lineno for s in stores) if wh else False
    col.check(bool(ok), R, q, d.loc(), "exactly three store statements (root marker, type exchange, reversal), "
              "all after the chain is complete", f"{len(stores)} stores", f"stores: {srcs}", stmt="stores")
    rets = [n for n in own_nodes(d) if isinstance(n, ast.Return)]
    ok = len(rets) == 1 and norm_src(rets[0].value) == "tree" and norm_src(body[0] if not isinstance(body[0], ast.Expr) else body[1]) == "tree = tree.copy()"
    col.check(ok, R, q, d.loc(rets[0]) if rets else d.loc(), "works on and returns the copy", "",
              "first statement is not `tree = tree.copy()` / return is not the copy", stmt="copy-return")


def cat(ctx, col):
    repo = ctx.repo
    d = repo.get_def(f"{TU}.cat_tree")
    q = d.qualname
    src = {}
    for n in own_nodes(d):
        if isinstance(n, ast.Assign) and isinstance(n.targets[0], ast.Name):
            src.setdefault(n.targets[0].id, []).append(n)
    # R-SHIFT
    augs = [n for n in own_nodes(d) if isinstance(n, ast.AugAssign) and isinstance(n.op, ast.Add)
            and isinstance(n.target, ast.Subscript) and norm_src(n.target.value) == "tree2.ndata"]
    cols = {norm_src(a.target.slice).split(".")[-1]: a for a in augs}
    ok = set(cols) == {"id", "pid"} and norm_src(cols["id"].value) == norm_src(cols["pid"].value)
    col.check(ok, "R-SHIFT", q, d.loc(augs[0]) if augs else d.loc(), "id and pid of the second tree are "
              "shifted by the same expression", "; ".join(norm_src(a) for a in augs),
              f"shifts differ or a column is missing: {[norm_src(a) for a in augs]}", stmt="same-shift")
    amount = norm_src(cols["id"].value) if "id" in cols else None
    ns = src.get(amount, [None])[0] if amount else None
    ok = ns is not None and norm_src(ns.value) == "tree.number_of_nodes()"
    col.check(bool(ok), "R-SHIFT", q, d.loc(ns) if ns is not None else d.loc(), "the shift is the first tree's node count",
              norm_src(ns.value) if ns is not None else "", f"shift amount `{amount}` is not tree.number_of_nodes()",
              stmt="shift-amount")
    # R-SENT
    def _assigned(body):
        return {norm_src(s.targets[0]) for s in body if isinstance(s, ast.Assign)}
    merge_if = [n for n in own_nodes(d) if isinstance(n, ast.If) and {"remove", "link_to_root"} <= _assigned(n.body)
                and {"remove", "link_to_root"} <= _assigned(n.orelse)]
    if len(merge_if) != 1:
        raise AnalysisError("anchor-vanished: the merge / link decision of cat_tree (an `if` binding `remove` and `link_to_root` in both arms)")
    mi = merge_if[0]
    t = mi.test
    tsrc = norm_src(t)
    # the decision must be a coincidence test: |position(junction of tree 2) - position(junction of tree 1)| < tolerance
    is_dist = isinstance(t, ast.Compare) and len(t.ops) == 1 and isinstance(t.ops[0], (ast.Lt, ast.LtE)) \
        and isinstance(t.left, ast.Call) and (dotted(t.left.func) or "").endswith("linalg.norm") and t.left.args \
        and isinstance(t.left.args[0], ast.BinOp) and isinstance(t.left.args[0].op, ast.Sub)
    if is_dist:
        a, b = norm_src(t.left.args[0].left), norm_src(t.left.args[0].right)
        ends = {a, b}
        ok = ends == {"tree2.node(node2).xyz()", "c.xyz()"} or ends == {"tree2.node(node2).xyz()", "tree.node(node1).xyz()"}
        tol = norm_src(t.comparators[0])
        col.check(ok and tol in ("EPS", "eps"), "R-SENT", q, d.loc(mi),
                  "junction nodes are merged iff they coincide (distance between the two junction nodes below the tolerance)",
                  tsrc, f"merge test `{tsrc}` does not compare the distance between the two junction nodes with the tolerance",
                  stmt="merge-test")
    elif _squared_norm(d, t) is not None:
        # |v|^2 < tol: the same test as |v| < tol only if the tolerance is squared too
        tol = t.comparators[0]
        tol_sq = (isinstance(tol, ast.BinOp) and isinstance(tol.op, ast.Pow) and norm_src(tol.left) in ("EPS", "eps") and norm_src(tol.right) == "2") or \
                 (isinstance(tol, ast.BinOp) and isinstance(tol.op, ast.Mult) and norm_src(tol.left) == norm_src(tol.right) and norm_src(tol.left) in ("EPS", "eps"))
        col.judge(tol_sq or norm_src(tol) in ("EPS", "eps"), tol_sq, "R-SENT", q, d.loc(mi),
                  "junction nodes are merged iff they coincide (distance between the two junction nodes below the tolerance)", tsrc,
                  f"`{tsrc}` compares the SQUARED distance of the junction nodes with the unsquared tolerance: nodes up to sqrt(EPS) apart "
                  f"(thousands of times the tolerance) are merged and one of them is lost", stmt="merge-test", definite=True)
    elif not any(isinstance(x, ast.Call) and (dotted(x.func) or "").endswith(("norm", "allclose", "isclose", "distance", "array_equal", "hypot", "dist"))
                 or isinstance(x, ast.Attribute) and x.attr in ("xyz", "x", "y", "z")
                 for e_ in expand_names(d, t) for x in ast.walk(e_)):
        col.bad("R-SENT", q, d.loc(mi), "junction nodes are merged iff they coincide (distance between the two junction nodes below the tolerance)",
                f"the merge / link decision is `{tsrc}`, which does not look at the positions of the two junction nodes: "
                f"coincident junctions are duplicated (or distinct ones merged)", stmt="merge-test", definite=True)
    elif any(isinstance(x, ast.Call) and ((isinstance(x.func, ast.Attribute) and x.func.attr in ("min", "any")) or (dotted(x.func) or "").rsplit(".", 1)[-1] in ("min", "amin", "any", "nanmin"))
             for e_ in expand_names(d, t) for x in ast.walk(e_)) and any(isinstance(x, ast.Call) and (dotted(x.func) or "").rsplit(".", 1)[-1] in ("abs", "absolute", "fabs")
                                                                         for e_ in expand_names(d, t) for x in ast.walk(e_)):
        col.rule("R-COINCIDE", "two junction nodes coincide when they agree in ALL coordinates: the merge test is not the smallest per-axis gap (`abs(a - b).min() < eps`, any(...)) -- "
                 "two planar tracings share z without sharing a point", floor=0)
        col.bad("R-COINCIDE", q, d.loc(mi), "junction nodes are merged iff they coincide in all coordinates",
                f"the merge test `{tsrc}` takes the smallest (or any) per-axis gap: junction nodes that agree in one coordinate only (two tracings in the plane z = 0) are taken for the same "
                f"point, the second tree's junction node is deleted and its children hang on a node far away", stmt="merge-min", definite=True)
    else:
        col.unresolved("R-SENT", q, d.loc(mi), "junction nodes are merged iff they coincide", f"merge test `{tsrc}` not understood", stmt="merge-test")
    def assigns(body):
        return {norm_src(s.targets[0]): norm_src(s.value) for s in body if isinstance(s, ast.Assign)}
    a_m, a_n = assigns(mi.body), assigns(mi.orelse)
    ok = a_m.get("remove") == f"[node2 + {amount}]" and \
        a_m.get("link_to_root") == f"[n.id + {amount} for n in tree2.node(node2).children()]"
    col.check(ok, "R-SENT", q, d.loc(mi), "merge: the second root is deleted and its children are linked to the junction",
              str(a_m), f"merge arm: {a_m}", stmt="merge-arm")
    ok = a_n.get("remove") == "None" and a_n.get("link_to_root") == f"[node2 + {amount}]"
    col.check(ok, "R-SENT", q, d.loc(mi), "no merge: the second root itself is linked to the junction",
              str(a_n), f"non-merge arm: {a_n}", stmt="link-arm")
    first_shift = min(a.lineno for a in augs) if augs else 0
    ok = mi.lineno < first_shift
    col.check(ok, "R-SENT", q, d.loc(mi), "link / removal targets are computed before ids are shifted", "",
              "targets computed after the shift: tree2's node API no longer addresses the same nodes", stmt="before-shift")
    links = [n for n in own_nodes(d) if isinstance(n, ast.For) and norm_src(n.iter) == "link_to_root"]
    ok = len(links) == 1 and [norm_src(s) for s in links[0].body] == [f"tree.node({norm_src(links[0].target)}).pid = node1"]
    col.check(ok, "R-SENT", q, d.loc(links[0]) if links else d.loc(), "every link target gets the junction node as parent",
              norm_src(links[0]) if links else "", "link loop is not `tree.node(n).pid = node1`", stmt="link-loop")
    dels = [n for n in own_nodes(d) if isinstance(n, ast.If) and norm_src(n.test) == "remove is not None"]
    ok = len(dels) == 1 and any(isinstance(x, ast.Call) and dotted(x.func) == "np.delete" and norm_src(x.args[1]) == "remove"
                                for x in ast.walk(dels[0]))
    ok = ok and any(isinstance(x, ast.For) and norm_src(x.iter) == "tree.ndata.items()" for x in ast.walk(dels[0]))
    ok = ok and links and dels[0].lineno > links[0].lineno
    col.check(bool(ok), "R-SENT", q, d.loc(dels[0]) if dels else d.loc(), "the merged root is deleted from every column, "
              "after re-linking", "", "removal does not np.delete(v, remove) for every column after the link loop",
              stmt="delete")
    # R-XYZ
    tr = [n for n in own_nodes(d) if isinstance(n, ast.If) and norm_src(n.test) == "translate"]
    if len(tr) != 1:
        raise AnalysisError("anchor-vanished: `if translate:` of cat_tree")
    okf, detail = xyz.family(tr[0].body)
    if okf is None:
        col.unresolved("R-XYZ", q, d.loc(tr[0]), "translation family", detail, stmt="xyz")
    else:
        col.check(okf, "R-XYZ", q, d.loc(tr[0]), "translation statements are one family over x,y,z", detail,
                  detail, stmt="xyz")
    xs = [s for s in tr[0].body if xyz.axis_of(s) == "x"]
    ok = len(xs) == 1 and norm_src(xs[0]) == "tree2.ndata[names.x] -= tree2.node(node2).x - c.x"
    col.check(ok, "R-CAT", q, d.loc(xs[0]) if xs else d.loc(tr[0]), "the second tree is moved by "
              "(junction2 - junction1), so the junction nodes coincide", norm_src(xs[0]) if xs else "",
              f"x translation is `{norm_src(xs[0]) if xs else None}`", stmt="offset")
    # R-CAT
    c_asg = src.get("c", [None])[0]
    ok = c_asg is not None and norm_src(c_asg.value) == "tree.node(node1)"
    col.check(ok, "R-CAT", q, d.loc(c_asg) if c_asg is not None else d.loc(), "junction on the first tree is node1",
              "", "c is not tree.node(node1)", stmt="junction1")
    rr = [n for n in own_nodes(d) if isinstance(n, ast.If) and norm_src(n.test) == "not tree2.node(node2).is_root()"]
    ok = len(rr) == 1 and [norm_src(s) for s in rr[0].body] == ["tree2 = redirect_tree(tree2, node2, sort=False)"]
    col.check(ok, "R-CAT", q, d.loc(rr[0]) if rr else d.loc(), "second tree is re-rooted at its junction node "
              "when that is not its root, without renumbering", "", "re-rooting of the second tree is missing or renumbers "
              "(node2 would address another node)", stmt="reroot2")
    cat_loops = [n for n in own_nodes(d) if isinstance(n, ast.For) and norm_src(n.iter) == "tree.ndata.items()"
                 and n not in [x for dl in dels for x in ast.walk(dl)]]
    ok = False
    if len(cat_loops) == 1:
        lp = cat_loops[0]
        k, v = [e.id for e in lp.target.elts]
        ifs = [s for s in lp.body if isinstance(s, ast.If)]
        ok = len(ifs) == 1 and norm_src(ifs[0].test) == f"{k} in tree2.ndata" and \
            norm_src(ifs[0].body[0]) == f"tree.ndata[{k}] = np.concatenate([{v}, tree2.ndata[{k}]])" and \
            norm_src(ifs[0].orelse[0]) == f"tree.ndata[{k}] = np.pad({v}, (0, tree2.number_of_nodes()))"
    col.check(ok, "R-CAT", q, d.loc(cat_loops[0]) if cat_loops else d.loc(), "every column of the first tree is "
              "extended by the second tree's column (first tree's rows first), missing columns padded",
              "", "column concatenation is not [first, second] for every key of the first tree", stmt="concat")
    ok = cat_loops and augs and cat_loops[0].lineno > max(a.lineno for a in augs)
    col.check(bool(ok), "R-CAT", q, d.loc(), "columns are joined after the id shift", "", "concatenation happens before the shift",
              stmt="concat-after-shift")
    g = ctx.cfg(d)
    rets = [n for n in g.nodes if n.kind == "stmt" and isinstance(n.ast, ast.Return)]
    sorts = [n for n in g.nodes if n.kind == "stmt" and n.ast is not None and
             any(isinstance(x, ast.Call) and dotted(x.func) == "_sort_tree" and norm_src(x.args[0]) == "tree"
                 for x in ast.walk(n.ast))]
    ok = bool(rets) and all(g.must_pass(g.entry, [r], lambda n: n in sorts, edge_ok=lambda a, b, l: l != "exc")
                            and norm_src(r.ast.value) == "tree" for r in rets)
    col.check(ok, "R-CAT", q, d.loc(rets[0].ast) if rets else d.loc(), "the joined tree is renumbered before it is returned",
              "", "a return is reachable without _sort_tree(tree)", stmt="sorted")
    cp = [n for n in own_nodes(d) if isinstance(n, ast.Assign) and isinstance(n.targets[0], ast.Tuple)
          and norm_src(n.value) == "(tree1.copy(), tree2.copy())"]
    col.check(len(cp) == 1 and [norm_src(e) for e in cp[0].targets[0].elts] == ["tree", "tree2"], "R-CAT", q,
              d.loc(cp[0]) if cp else d.loc(), "both inputs are copied first", "", "inputs are not both copied before use",
              stmt="copies")


def anchored(ctx, col):
    """Statements that carry the clauses, matched three-way under one renaming per function."""
    repo = ctx.repo
    d = repo.get_def(f"{TU}.redirect_tree")
    col.text_group("R-REROOT", d.qualname, d, [
        ("works on a copy", ["tree = tree.copy()"], "copy"),
        ("the chain starts at the requested node", ["path = [tree.node(new_root)]"], "start"),
        ("... and follows parents up to the old root", ["while (p := path[-1].parent()) is not None: path.append(p)"], "climb"),
        ("the new root has no parent", ["path[0].pid = -1"], "root-marker"),
        ("only the types of the old and the new root are exchanged", ["path[0].type, path[-1].type = path[-1].type, path[0].type"], "type-swap"),
        ("each chain node's parent becomes its former child on the chain", ["for n, p in zip(path[1:], path[:-1]): n.pid = p.id"], "reverse"),
        ("renumbering only when requested", ["if sort: _sort_tree(tree)"], "sort"),
        ("the re-rooted copy is returned", ["return tree"], "ret"),
    ], fixed=("new_root", "sort", "_sort_tree"))
    # write set: `.type` may be stored only for the two ends of the chain (never inside a loop over the chain)
    for n in own_nodes(d):
        if isinstance(n, (ast.For, ast.While)):
            for st in ast.walk(n):
                tg = st.targets if isinstance(st, ast.Assign) else ([st.target] if isinstance(st, ast.AugAssign) else [])
                for t in tg:
                    for tt in (t.elts if isinstance(t, ast.Tuple) else [t]):
                        if isinstance(tt, ast.Attribute) and tt.attr == "type":
                            col.bad("R-REROOT", d.qualname, d.loc(st), "only the types of the old and the new root are exchanged",
                                    f"`{norm_src(st)}` inside `{norm_src(n)[:50]}...` stores the type of every node along the root path: "
                                    f"interior nodes of the path change type", stmt="type-swap", definite=True)
    # the two root types are EXCHANGED: a tuple assignment to two `.type` targets takes its two values from `.type` of the same two handles, crosswise
    col.rule("R-TYPESWAP", "re-rooting exchanges the types of the old and the new root: in `a.type, b.type = v1, v2` the values are `b.type, a.type` (not a constant such as types.soma: the "
             "old root of a neurite cut out of a neuron is no soma)", floor=0)
    n_sw = 0
    for st in own_nodes(d):
        if isinstance(st, ast.Assign) and len(st.targets) == 1 and isinstance(st.targets[0], ast.Tuple) and len(st.targets[0].elts) == 2 and isinstance(st.value, ast.Tuple) and len(st.value.elts) == 2 \
                and all(isinstance(t_, ast.Attribute) and t_.attr == "type" for t_ in st.targets[0].elts):
            n_sw += 1
            (ta, tb), (va, vb) = st.targets[0].elts, st.value.elts

            def through(v_):
                """a temporary that holds a `.type` read stands for that read"""
                if isinstance(v_, ast.Name):
                    b_ = [a_.value for a_ in own_nodes(d) if isinstance(a_, ast.Assign) and len(a_.targets) == 1 and isinstance(a_.targets[0], ast.Name) and a_.targets[0].id == v_.id]
                    if len(b_) == 1 and isinstance(b_[0], ast.Attribute) and b_[0].attr == "type":
                        return b_[0]
                    tb_ = [(a_.targets[0].elts, a_.value.elts) for a_ in own_nodes(d) if isinstance(a_, ast.Assign) and len(a_.targets) == 1 and isinstance(a_.targets[0], ast.Tuple)
                           and isinstance(a_.value, ast.Tuple) and len(a_.targets[0].elts) == len(a_.value.elts)]
                    for ts_, vs_ in tb_:
                        for t_, x_ in zip(ts_, vs_):
                            if isinstance(t_, ast.Name) and t_.id == v_.id and isinstance(x_, ast.Attribute) and x_.attr == "type":
                                return x_
                return v_
            va, vb = through(va), through(vb)
            crosswise = norm_src(va) == norm_src(tb) and norm_src(vb) == norm_src(ta)
            # a value that is visibly not a node's type: a literal, or a member of the type table (`tree.types.soma`)
            consts = [v_ for v_ in (va, vb) if isinstance(v_, ast.Constant) or (isinstance(v_, ast.Attribute) and v_.attr != "type" and "types" in norm_src(v_))]
            if crosswise:
                col.ok("R-TYPESWAP", d.qualname, d.loc(st), "the two root types are exchanged", norm_src(st), stmt="typeswap")
            elif consts:
                col.bad("R-TYPESWAP", d.qualname, d.loc(st), "the two root types are exchanged",
                        f"`{norm_src(st)}` gives one of the two roots `{norm_src(consts[0])}` instead of the other root's type: re-rooting a tree whose root is not a soma (a dendrite from "
                        f"get_neurites(), a subtree) turns its new root into a soma, and re-rooting back does not restore the types", stmt="typeswap", definite=True)
            else:
                col.unresolved("R-TYPESWAP", d.qualname, d.loc(st), "the two root types are exchanged", f"`{norm_src(st)}`: not a crosswise exchange, values not recognised", stmt="typeswap")
    if not n_sw:
        col.unresolved("R-TYPESWAP", d.qualname, d.loc(), "the two root types are exchanged", "no two-target `.type` assignment in redirect_tree", stmt="typeswap")
    c = repo.get_def(f"{TU}.cat_tree")
    col.text_group("R-CAT", c.qualname, c, [
        ("both inputs are copied", ["tree, tree2 = tree1.copy(), tree2.copy()"], "copies"),
        ("the second tree is re-rooted at its junction unless the junction already is its root, without renumbering",
         ["if not tree2.node(node2).is_root(): tree2 = redirect_tree(tree2, node2, sort=False)"], "reroot"),
        ("the junction of the first tree", ["c = tree.node(node1)"], "junction"),
        ("x translation", ["tree2.ndata[names.x] -= tree2.node(node2).x - c.x"], "tx"),
        ("y translation", ["tree2.ndata[names.y] -= tree2.node(node2).y - c.y"], "ty"),
        ("z translation", ["tree2.ndata[names.z] -= tree2.node(node2).z - c.z"], "tz"),
        ("the shift is the first tree's node count", ["ns = tree.number_of_nodes()"], "shift"),
        ("merge: the second root is deleted ...", ["remove = [node2 + ns]"], "merge-remove"),
        ("... and its children are linked to the junction", ["link_to_root = [n.id + ns for n in tree2.node(node2).children()]"], "merge-link"),
        ("no merge: the second root itself is linked", ["link_to_root = [node2 + ns]"], "link"),
        ("ids of the second tree are shifted", ["tree2.ndata[names.id] += ns"], "shift-id"),
        ("parent ids of the second tree are shifted by the same amount", ["tree2.ndata[names.pid] += ns"], "shift-pid"),
        ("columns are appended first-tree-first", ["tree.ndata[k] = np.concatenate([v, tree2.ndata[k]])"], "concat"),
        ("every link target gets the junction node as parent", ["for n in link_to_root: tree.node(n).pid = node1"], "relink"),
        ("the merged root is deleted from every column", ["tree.ndata[k] = np.delete(v, remove)"], "delete"),
        ("the result is renumbered", ["_sort_tree(tree)"], "sort"),
    ], fixed=("tree1", "node1", "node2", "names", "translate", "redirect_tree", "_sort_tree"))
    # the re-root guard must test root-ness of the junction, not its id: the second tree's root need not be node 0
    for n in own_nodes(c):
        if isinstance(n, ast.If) and any(isinstance(x, ast.Call) and dotted(x.func) == "redirect_tree" for s in n.body for x in ast.walk(s)):
            t = n.test
            by_id = isinstance(t, ast.Compare) and len(t.ops) == 1 and isinstance(t.ops[0], (ast.NotEq, ast.Eq, ast.Gt)) and \
                {norm_src(t.left), norm_src(t.comparators[0])} & {"0"} and "node2" in norm_src(t) and "is_root" not in norm_src(t) and "pid" not in norm_src(t)
            if by_id:
                col.bad("R-CAT", c.qualname, c.loc(n), "the second tree is re-rooted at its junction unless the junction already is its root",
                        f"`if {norm_src(t)}` decides by the junction's id: a second tree whose root is not node 0 (e.g. re-rooted without "
                        f"renumbering) is then joined at a non-root node without being re-rooted", stmt="reroot", definite=True)
