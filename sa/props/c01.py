"""C01 -- SWC write -> read round trip (structural clauses)."""

from __future__ import annotations

import ast
import re

from .. import relang
from ..fold import Folder, Record, ReMatch, Sym, Unfoldable, namedtuple_fields
from ..interp import run as run_block
from ..model import AnalysisError, dotted, norm_src, own_nodes
from ..util import (assigns_to, ends_with, in_loop, kwarg, names_in, single_assign, value_of,
                    walk_stmts)

IO = "swcgeom.core.swc_utils.io"
BASE = "swcgeom.core.swc_utils.base"

# Oracle from the property statement / SWC format: node id, type, parent id are
# integers; coordinates and radius are reals written with four decimals.
KINDS = {"id": "int", "type": "int", "x": "float", "y": "float", "z": "float",
         "r": "float", "pid": "int"}
PY_INT = r"[+-]?[0-9]+"
PY_FLOAT = r"[+-]?(?:[0-9]+(?:[.][0-9]*)?(?:[eE][+-]?[0-9]+)?|[.][0-9]+(?:[eE][+-]?[0-9]+)?)"
DECIMALS = 4


def dtype_kind(e: ast.AST) -> str:
    n = (dotted(e) or "").split(".")[-1]
    if n.startswith(("int", "uint")):
        return "int"
    if n.startswith("float"):
        return "float"
    return "?"


def split_base_tail(e: ast.AST):
    """`[a, b, ...] + tail`  ->  (list of base element exprs, tail expr | None)."""
    if isinstance(e, ast.BinOp) and isinstance(e.op, ast.Add):
        b, t = split_base_tail(e.left)
        if t is None:
            return b, e.right
        return None, None
    if isinstance(e, ast.List):
        return list(e.elts), None
    if isinstance(e, ast.Call) and isinstance(e.func, ast.Attribute) and e.func.attr == "cols":
        return "cols()", None
    return None, None


def names_fields(ctx):
    c = ctx.repo.get_class(f"{BASE}.SWCNames")
    return c, [n for n, _ in namedtuple_fields(c)]


def field_of_names_attr(e: ast.AST, fields):
    """names.<f> / self.names.<f> / swc_names_default.<f>  ->  f"""
    if isinstance(e, ast.Attribute) and e.attr in fields:
        return e.attr
    return None


def run(ctx, col, tier):
    repo = ctx.repo
    col.rule("R-TABLE", "column tables of writer, reader and Tree constructor agree position-wise "
             "in name, kind (int/float), regex and converter; lengths are the same symbolic sum",
             floor=30, exhaustive=True)
    col.rule("R-FMT", "the line language the writer can emit is included in the reader's row "
             "regex (DFA product), floats carry exactly four decimals, the trailing optional "
             "group stays empty", floor=4)
    col.rule("R-NL", "every string yielded by the line generator ends in a newline", floor=3,
             exhaustive=True)
    col.rule("R-HDR", "the writer's column header is dropped by the reader's comment filter; a "
             "user comment comes back with the same text; comment lines are never data rows",
             floor=3)
    col.rule("R-SENT", "id offset decision table: id always shifted, parent id shifted iff it is "
             "not the root marker -1, other columns never; one offset for both", floor=6,
             exhaustive=True)
    col.rule("R-SRC", "every member of the source-kind union is handled by the reader's "
             "constructor/enter ladder and the handle is returned on every path", floor=4,
             exhaustive=True)
    col.rule("R-ONCE", "the line generator handed to the file/str sink is consumed exactly once",
             floor=1)
    col.rule("R-PURE", "writing leaves the tree as it was: no store reaches the tree's columns or "
             "its comment list from the writer (ownership interpretation of SWCLike.to_swc and "
             "everything it calls): the header is added to the text, not to the tree", floor=1)
    col.rule("R-CAPTURE", "only white space of a data row is matched outside the capture groups of "
             "the reader's regex, and converter i receives group i + 1: no part of a number is "
             "accepted and then dropped", floor=3, exhaustive=True)
    col.rule("R-ROOTCMP", "every comparison of a parent id with an integer constant on the "
             "read/write path separates exactly the root marker -1 (ids may start at 0): "
             "tabulated over parent ids {-1, 0, 1, 2, 7}", floor=8, exhaustive=True)
    col.assumptions += [
        "finite coordinates/radii, ids and types >= 0, id_offset >= 0 (premise of the property)",
        "x,y,z,r are float arrays and id,type,pid integer arrays in a Tree (checked: Tree.__init__ table)",
        "stdlib re / str.format semantics",
    ]
    col.not_decided += ["numeric equality of coordinates up to rounding", "float32 vs text",
                        "file-system behaviour"]

    names_cls, fields = names_fields(ctx)
    col.guard(r_table, ctx, col, names_cls, fields)
    reader_pat = col.guard(r_fmt, ctx, col, fields, tier)
    col.guard(r_nl, ctx, col)
    from ..rules import smalllints2 as _s2
    _s2.run_pathio(ctx, col, ('swcgeom.core.swc_utils.io', 'swcgeom.core.tree', 'swcgeom.core.swc', 'swcgeom.core.population'))
    col.guard(r_hdr, ctx, col, names_cls, reader_pat)
    col.guard(r_sent, ctx, col, names_cls)
    col.guard(r_src, ctx, col)
    col.guard(r_once, ctx, col)
    col.guard(r_pure, ctx, col)
    col.guard(r_comment, ctx, col)
    col.guard(r_passthrough, ctx, col)
    from ..rules import narrowing
    narrowing.run(ctx, col, (f"{IO}.read_swc", f"{IO}.parse_swc", "swcgeom.core.tree.Tree.from_swc", "swcgeom.core.tree.Tree.from_data_frame",
                             "swcgeom.core.swc_utils.normalizer.reset_index_", "swcgeom.core.swc_utils.normalizer.sort_nodes_"))
    col.guard(r_capture, ctx, col)
    from ..rules import rootcmp
    rootcmp.check(ctx, col, "R-ROOTCMP", ("swcgeom.core.swc_utils.io", "swcgeom.core.swc_utils.normalizer",
                                           "swcgeom.core.swc_utils.base", "swcgeom.core.tree", "swcgeom.core.swc"))


def reader_patterns(ctx):
    repo = ctx.repo
    p = repo.get_def(f"{IO}.parse_swc")
    re_assign = single_assign(p, "re_swc")
    out = {}
    for tag, extras in (("no-extras", []), ("one-extra", ["extra"])):
        f = Folder(repo, p.module, p, {"extras": extras})
        call = re_assign.value
        helper = None
        if isinstance(call, ast.Call) and isinstance(call.func, ast.Name):
            r = repo.lookup_name(call.func.id, p.module, p)
            from ..model import Def as _Def
            if isinstance(r, _Def) and not r.is_lambda:
                helper = r
        if helper is not None:
            # the pattern is compiled in a helper of the package (compiled once, cached ...): fold the helper's body with the folded arguments
            hargs = {}
            for prm, a in zip(helper.params, call.args):
                hargs[prm] = f.eval(a)
            for k in call.keywords:
                if k.arg:
                    hargs[k.arg] = f.eval(k.value)
            hf = Folder(repo, helper.module, helper, hargs)
            pat = None
            for st in helper.node.body:
                if isinstance(st, ast.Assign) and len(st.targets) == 1 and isinstance(st.targets[0], ast.Name):
                    v = st.value
                    if isinstance(v, ast.Call) and (dotted(v.func) or "") == "re.compile" and v.args:
                        pat = hf.eval(v.args[0])
                    else:
                        try:
                            hf.env[st.targets[0].id] = hf.eval(v)
                        except Unfoldable:
                            pass
                elif isinstance(st, ast.Return) and isinstance(st.value, ast.Call) and (dotted(st.value.func) or "") == "re.compile" and st.value.args:
                    pat = hf.eval(st.value.args[0])
            if isinstance(pat, str):
                out[tag] = pat
            continue
        for nm in ("re_swc_cols", "re_swc_cols_str"):
            f.env[nm] = f.eval(value_of(p, nm))
        pat = f.eval(call.args[0]) if isinstance(call, ast.Call) and call.args else None
        if isinstance(pat, str):
            out[tag] = pat
    return p, re_assign, out


def r_capture(ctx, col, rule="R-CAPTURE"):
    """Everything but white space in a data row lies inside a capture group handed to a converter
    (or in the last, 'ignored fields' group): no part of a number is matched and then dropped."""
    import re._parser as sp  # the regex AST of the stdlib
    c = sp
    try:
        p, re_assign, pats = reader_patterns(ctx)
    except Unfoldable as e:
        col.unresolved(rule, f"{IO}.parse_swc", "", "reader regex", str(e), stmt="capture")
        return

    def only_space(items) -> bool:
        for op, av in items:
            name = str(op)
            if name == "AT":
                continue
            if name in ("MAX_REPEAT", "MIN_REPEAT", "POSSESSIVE_REPEAT"):
                if not only_space(av[2]):
                    return False
            elif name == "IN":
                for o2, a2 in av:
                    if str(o2) == "CATEGORY" and str(a2) == "CATEGORY_SPACE":
                        continue
                    if str(o2) == "LITERAL" and chr(a2) in " \t":
                        continue
                    return False
            elif name == "LITERAL":
                if chr(av) not in " \t\n\r":
                    return False
            elif name == "SUBPATTERN":
                if av[0] is None and not only_space(av[3]):
                    return False
            elif name == "BRANCH":
                if not all(only_space(x) for x in av[1]):
                    return False
            else:
                return False
        return True
    for tag, pat in pats.items():
        tree = sp.parse(pat)
        outside = []
        for op, av in tree:
            if str(op) == "SUBPATTERN" and av[0] is not None:
                continue  # a capturing group: handed to a converter / the ignored-fields group
            if not only_space([(op, av)]):
                outside.append(str(op))
        col.check(not outside, rule, p.qualname, p.loc(re_assign), f"reader regex ({tag}): only white space is matched outside the capture groups",
                  f"{len(tree)} top-level items", f"the row regex matches non-blank text outside its capture groups "
                  f"({outside}): that part of a field (e.g. an exponent) is accepted and then dropped before conversion",
                  stmt=f"capture:{tag}")
    # each converter receives its own group, in order: group(i + 1) for transforms[i]
    src = norm_src(p.node)
    col.text_group(rule, p.qualname, p, [
        ("converter i receives capture group i + 1 and fills column i",
         ["for i, trans in enumerate(transforms): vals[i].append(trans(match.group(i + 1)))"], "converter")], fixed=("transforms", "vals"))


def r_passthrough(ctx, col):
    """Tree.from_swc hands the table and the comment list it read to the constructor as they are."""
    repo = ctx.repo
    d = repo.get_def("swcgeom.core.tree.Tree.from_swc")
    col.text_group("R-HDR", d.qualname, d, [
        ("the table and the comment list come from the reader", ["df, comments = read_swc(swc_file, **kwargs)"], "pt:read"),
        ("and go to the constructor unchanged", ["return cls.from_data_frame(df, source=source, comments=comments)"], "pt:build")],
        fixed=("read_swc", "swc_file", "kwargs", "cls"))
    # def-use: nothing re-binds, slices or edits what was read before it is handed on
    got = [a for a in own_nodes(d) if isinstance(a, ast.Assign) and isinstance(a.targets[0], ast.Tuple) and isinstance(a.value, ast.Call)
           and (dotted(a.value.func) or "").endswith("read_swc")]
    if len(got) == 1:
        names_ = [e.id for e in got[0].targets[0].elts if isinstance(e, ast.Name)]
        for nm in names_:
            for n in own_nodes(d):
                hit = None
                if isinstance(n, (ast.Assign, ast.AugAssign)) and n is not got[0]:
                    tg = n.targets if isinstance(n, ast.Assign) else [n.target]
                    for t in tg:
                        b = t
                        while isinstance(b, (ast.Subscript, ast.Attribute)):
                            b = b.value
                        if isinstance(b, ast.Name) and b.id == nm:
                            hit = n
                if isinstance(n, ast.Delete) and any(isinstance(x, ast.Name) and x.id == nm for t in n.targets for x in ast.walk(t)):
                    hit = n
                if isinstance(n, ast.Call) and isinstance(n.func, ast.Attribute) and isinstance(n.func.value, ast.Name) and n.func.value.id == nm \
                        and n.func.attr in ("pop", "remove", "clear", "insert", "append", "extend", "drop", "sort", "reverse"):
                    hit = n
                if hit is not None:
                    col.bad("R-HDR", d.qualname, d.loc(hit), "what the reader returned reaches the tree unchanged",
                            f"`{norm_src(hit)[:80]}` changes `{nm}` between reading and building the tree: rows / comment lines of the file are dropped or altered "
                            f"after they were read", stmt=f"pt:edit:{nm}", definite=True)


def r_pure(ctx, col):
    from .. import own
    repo = ctx.repo
    cls = repo.get_class("swcgeom.core.tree.Tree")
    for q, args in (("swcgeom.core.swc.SWCLike.to_swc", 1), ("swcgeom.core.swc.SWCLike.to_eswc", 1)):
        d = repo.get_def(q)
        I = own.Interp(ctx)
        selfv = I.param_tree(cls, "P:self")
        I.call_def(d, [selfv] + [own.Opaque("fname", "str")] * args, {})
        eff = [e for e in I.effects if "P:self" in e.owners]
        col.check(not eff, "R-PURE", q, d.loc(), f"{d.name}: the tree (columns, comments) is not modified by writing it",
                  f"{I.stores_seen} stores met, {I.calls_evaluated} calls expanded",
                  (f"`{norm_src(eff[0].node)[:70]}` at {eff[0].where()} stores into the tree being written "
                   f"(every further write repeats the header / sees the edit)" if eff else ""), stmt="pure",
                  facts={"notes": I.notes[:5]})


# ---------------------------------------------------------------------- R-TABLE
def r_table(ctx, col, names_cls, fields):
    repo = ctx.repo
    loc = lambda d, n=None: d.loc(n)
    # (1) SWCNames fields vs oracle and cols()
    col.check(fields == list(KINDS), "R-TABLE", names_cls.qualname,
              f"{names_cls.module.relpath}:{names_cls.node.lineno}", "field order",
              f"fields {fields}", f"fields {fields} differ from the SWC column order {list(KINDS)}",
              stmt="fields")
    cols_def = repo.get_def(f"{BASE}.SWCNames.cols")
    rets = [n for n in own_nodes(cols_def) if isinstance(n, ast.Return)]
    got = None
    if len(rets) == 1 and isinstance(rets[0].value, ast.List):
        got = [field_of_names_attr(e, fields) for e in rets[0].value.elts]
    if got is None:
        col.unresolved("R-TABLE", cols_def.qualname, cols_def.loc(), "cols() order",
                       "return is not a list literal of fields")
    else:
        col.check(got == fields, "R-TABLE", cols_def.qualname, cols_def.loc(rets[0]),
                  "cols() order", f"{got}", f"cols() returns {got}, fields are {fields}",
                  stmt=rets[0])
    # default names are the identity on field names
    f = Folder(repo, names_cls.module)
    rec = f.default_record(names_cls)
    for fld in fields:
        col.check(rec.fields[fld] == fld, "R-TABLE", names_cls.qualname,
                  f"{names_cls.module.relpath}:{names_cls.node.lineno}", f"default name of {fld}",
                  rec.fields[fld], f"default column name of field {fld} is {rec.fields[fld]!r}",
                  stmt=f"default:{fld}")

    # (2) swc_cols in core/swc.py
    m = repo.get_module("swcgeom.core.swc")
    b = m.bindings.get("swc_cols")
    if b is None or not isinstance(b.target, ast.List):
        raise AnalysisError("anchor-vanished: swcgeom.core.swc.swc_cols list literal")
    for i, e in enumerate(b.target.elts):
        ok = (isinstance(e, ast.Tuple) and len(e.elts) == 2)
        fld = field_of_names_attr(e.elts[0], fields) if ok else None
        kind = dtype_kind(e.elts[1]) if ok else "?"
        want = fields[i] if i < len(fields) else None
        col.check(fld == want and kind == KINDS.get(want), "R-TABLE", "swcgeom.core.swc.swc_cols",
                  f"{m.relpath}:{e.lineno}", f"position {i}", f"{fld}:{kind}",
                  f"position {i} is ({fld}, {kind}), expected ({want}, {KINDS.get(want)})",
                  stmt=f"pos{i}")
    col.check(len(b.target.elts) == len(fields), "R-TABLE", "swcgeom.core.swc.swc_cols",
              f"{m.relpath}:{b.target.lineno}", "length", str(len(b.target.elts)),
              f"{len(b.target.elts)} entries for {len(fields)} fields", stmt="len")

    # (3) parse_swc tables
    p = repo.get_def(f"{IO}.parse_swc")
    ext = single_assign(p, "extras")
    ok_ext = isinstance(ext.value, ast.IfExp) and norm_src(ext.value.orelse) == "[]" and \
        isinstance(ext.value.body, ast.Call) and dotted(ext.value.body.func) == "list"
    col.check(ok_ext, "R-TABLE", p.qualname, p.loc(ext), "extras is a list (possibly empty)",
              norm_src(ext.value), "extras is not `list(extra_cols) if extra_cols else []`",
              stmt=ext)
    tables = {}
    for name in ("keys", "transforms", "re_swc_cols"):
        v = value_of(p, name)
        base, tail = split_base_tail(v)
        tables[name] = (v, base, tail)
        if base is None:
            col.unresolved("R-TABLE", p.qualname, p.loc(v), f"{name} shape",
                           "not `<7 columns> + <one entry per extra>`", stmt=name)
    # lengths: base 7 (keys base is names.cols()), tail one-per-extra
    def tail_ok(name, tail):
        if tail is None:
            return False
        if name == "keys":
            return isinstance(tail, ast.Name) and tail.id == "extras"
        return (isinstance(tail, ast.ListComp) and len(tail.generators) == 1
                and isinstance(tail.generators[0].iter, ast.Name)
                and tail.generators[0].iter.id == "extras" and not tail.generators[0].ifs)
    for name, (v, base, tail) in tables.items():
        if base is None:
            continue
        n = len(fields) if base == "cols()" else len(base)
        col.check(n == len(fields) and tail_ok(name, tail), "R-TABLE", p.qualname, p.loc(v),
                  f"len({name}) = 7 + len(extras)", f"base {n}, tail per extra",
                  f"base has {n} entries / tail is not one entry per extra column",
                  stmt=f"len:{name}")
    # vals: one list per key
    vv = value_of(p, "vals")
    ok = (isinstance(vv, ast.ListComp) and norm_src(vv.elt) == "[]"
          and isinstance(vv.generators[0].iter, ast.Name) and vv.generators[0].iter.id == "keys")
    col.check(ok, "R-TABLE", p.qualname, p.loc(vv), "one value list per key", norm_src(vv),
              "vals is not `[[] for _ in keys]`", stmt="vals")
    # per-position kinds
    tr_v, tr_base, tr_tail = tables["transforms"]
    re_v, re_base, re_tail = tables["re_swc_cols"]
    folder = Folder(repo, p.module, p)
    col_pats = []
    if tr_base and re_base and tr_base != "cols()" and re_base != "cols()":
        pairs = list(zip(fields, tr_base, re_base)) + [("<extra>", tr_tail.elt, re_tail.elt)] \
            if tail_ok("transforms", tr_tail) and tail_ok("re_swc_cols", re_tail) \
            else list(zip(fields, tr_base, re_base))
        for fld, t, rx in pairs:
            tname = dotted(t)
            try:
                pat = folder.eval(rx)
            except Unfoldable as ex:
                col.unresolved("R-TABLE", p.qualname, p.loc(rx), f"column {fld}", str(ex),
                               stmt=f"col:{fld}")
                continue
            col_pats.append(pat)
            want = KINDS.get(fld, "float")
            conv_ok = tname == want
            try:
                ngroups = re.compile(pat).groups
                lang = PY_INT if tname == "int" else PY_FLOAT
                inc, cex, _ = relang.included(pat, lang)
            except (relang.UnsupportedRegex, re.error) as ex:
                col.unresolved("R-TABLE", p.qualname, p.loc(rx), f"column {fld}", str(ex),
                               stmt=f"col:{fld}")
                continue
            detail = []
            if not conv_ok:
                detail.append(f"converter is {tname}, column kind is {want}")
            if ngroups != 1:
                detail.append(f"{ngroups} capture groups (row append indexes group i+1)")
            if not inc:
                detail.append(f"regex accepts {cex!r} which {tname}() rejects")
            col.check(not detail, "R-TABLE", p.qualname, p.loc(rx), f"column {fld}",
                      f"{tname} / {pat}", "; ".join(detail), stmt=f"col:{fld}",
                      facts={"converter": tname, "pattern": pat})
    # row append: vals[i].append(trans(match.group(i + 1))) under for i, trans in enumerate(transforms)
    appends = [n for n in own_nodes(p) if isinstance(n, ast.Call)
               and isinstance(n.func, ast.Attribute) and n.func.attr == "append"
               and isinstance(n.func.value, ast.Subscript)
               and isinstance(n.func.value.value, ast.Name) and n.func.value.value.id == "vals"]
    if len(appends) != 1:
        raise AnalysisError("anchor-vanished: the row append `vals[i].append(...)` in parse_swc")
    ap = appends[0]
    loop = None
    x = repo.parent(ap)
    while x is not None and x is not p.node:
        if isinstance(x, ast.For):
            loop = x
            break
        x = repo.parent(x)
    ok = False
    why = "row append is not inside `for i, conv in enumerate(transforms)`"
    if loop is not None and isinstance(loop.iter, ast.Call) and dotted(loop.iter.func) == "enumerate" \
            and loop.iter.args and isinstance(loop.iter.args[0], ast.Name) \
            and loop.iter.args[0].id == "transforms" and isinstance(loop.target, ast.Tuple):
        i_name, t_name = loop.target.elts[0].id, loop.target.elts[1].id
        arg = ap.args[0] if ap.args else None
        idx = ap.func.value.slice
        grp = None
        if isinstance(arg, ast.Call) and isinstance(arg.func, ast.Name) and arg.func.id == t_name \
                and arg.args and isinstance(arg.args[0], ast.Call) \
                and isinstance(arg.args[0].func, ast.Attribute) and arg.args[0].func.attr == "group":
            grp = arg.args[0].args[0] if arg.args[0].args else None
        ok = (isinstance(idx, ast.Name) and idx.id == i_name and grp is not None
              and norm_src(grp) in (f"{i_name} + 1", f"1 + {i_name}"))
        why = f"value list index `{norm_src(idx)}` / regex group `{norm_src(grp) if grp else None}` " \
              f"are not column i / group i+1 with its own converter"
    col.check(ok, "R-TABLE", p.qualname, p.loc(ap), "row append is column-aligned",
              norm_src(ap), why, stmt=ap)
    # last_group constant
    lg = value_of(p, "last_group")
    try:
        v0 = Folder(repo, p.module, p, {"extras": []}).eval(lg)
        v2 = Folder(repo, p.module, p, {"extras": ["a", "b"]}).eval(lg)
        col.check(v0 == len(fields) + 1 and v2 == len(fields) + 3, "R-TABLE", p.qualname,
                  p.loc(lg), "index of the trailing group", f"{v0} / {v2}",
                  f"last_group folds to {v0} (no extras) / {v2} (two extras), expected 8 / 10",
                  stmt="last_group")
    except Unfoldable as ex:
        col.unresolved("R-TABLE", p.qualname, p.loc(lg), "index of the trailing group", str(ex))
    # DataFrame columns come from zip(keys, vals)
    dfs = [n for n in own_nodes(p) if isinstance(n, ast.Call) and isinstance(n.func, ast.Name)
           and n.func.id == "zip" and len(n.args) == 2]
    ok = any(norm_src(c.args[0]) == "keys" and norm_src(c.args[1]) == "vals" for c in dfs)
    col.check(ok, "R-TABLE", p.qualname, p.loc(), "table built from zip(keys, vals)", "",
              "no zip(keys, vals) feeding the result table", stmt="zip")

    # (4) Tree.__init__ table
    init = repo.get_def("swcgeom.core.tree.Tree.__init__")
    nd = value_of(init, "ndata")
    if not isinstance(nd, ast.Dict):
        raise AnalysisError("anchor-vanished: Tree.__init__ ndata dict literal")
    later = [n for n in own_nodes(init) if isinstance(n, (ast.Assign, ast.AugAssign)) and any(
        isinstance(t, ast.Subscript) and norm_src(t.value) == "ndata" for t in (n.targets if isinstance(n, ast.Assign) else [n.target]))]
    if not nd.keys or later:
        # the table is filled some other way (a loop over a column spec, ...): its content cannot be read off a literal
        raise AnalysisError("anchor-vanished: Tree.__init__ no longer builds `ndata` as one dict literal of the seven columns")
    seen = []
    for k, v in zip(nd.keys, nd.values):
        fld = field_of_names_attr(k, fields)
        seen.append(fld)
        popped, kind = None, "?"
        if isinstance(v, ast.Call):
            for a in v.args:
                if isinstance(a, ast.Call) and isinstance(a.func, ast.Attribute) and a.func.attr in ("pop", "get") and a.args:
                    popped = field_of_names_attr(a.args[0], fields)
            dt = kwarg(v, "dtype")
            kind = dtype_kind(dt) if dt is not None else "?"
        col.check(fld is not None and popped == fld and kind == KINDS.get(fld), "R-TABLE",
                  init.qualname, init.loc(k), f"ndata[{fld}]", f"from kwargs[{popped}] as {kind}",
                  f"column {fld} is filled from kwargs[{popped}] with dtype kind {kind}, expected "
                  f"{fld}/{KINDS.get(fld)}", stmt=f"ndata:{fld}")
    col.check(sorted(x or "?" for x in seen) == sorted(fields), "R-TABLE", init.qualname,
              init.loc(nd), "all seven columns present", str(seen),
              f"columns {seen} != {fields}", stmt="ndata:keys")

    # (5) from_data_frame
    fdf = repo.get_def("swcgeom.core.tree.Tree.from_data_frame")
    comps = [n for n in own_nodes(fdf) if isinstance(n, ast.DictComp)]
    ok, txt = False, ""
    if len(comps) == 1:
        dc = comps[0]
        g = dc.generators[0]
        txt = norm_src(dc)
        ok = (isinstance(g.iter, ast.Call) and isinstance(g.iter.func, ast.Attribute)
              and g.iter.func.attr == "cols" and isinstance(g.target, ast.Name)
              and isinstance(dc.key, ast.Name) and dc.key.id == g.target.id
              and not g.ifs
              and any(isinstance(s, ast.Subscript) and isinstance(s.slice, ast.Name)
                      and s.slice.id == g.target.id for s in ast.walk(dc.value)))
    col.check(ok, "R-TABLE", fdf.qualname, fdf.loc(), "every column k of names.cols() read from df[k]",
              txt, "columns are not gathered as {k: df[k] for k in names.cols()}", stmt="fdf")
    ctx._c01_col_pats = col_pats


# ---------------------------------------------------------------------- R-FMT
def writer_facts(ctx, col):
    repo = ctx.repo
    w = repo.get_def(f"{IO}.to_swc")
    gv = w.nested.get("get_v")
    if gv is None:
        raise AnalysisError("anchor-vanished: to_swc.<locals>.get_v")
    # float arm
    fmt = None
    other = None
    for s in gv.node.body:
        if isinstance(s, ast.If) and any(isinstance(n, ast.Attribute) and n.attr == "issubdtype"
                                         for n in ast.walk(s.test)):
            isfloat = any(isinstance(n, ast.Attribute) and n.attr in ("floating", "inexact")
                          for n in ast.walk(s.test))
            for r in s.body:
                if isinstance(r, ast.Return) and isfloat:
                    fmt = r.value
    rets = [s for s in gv.node.body if isinstance(s, ast.Return)]
    if rets:
        other = rets[-1].value
    return w, gv, fmt, other


def parse_spec(fmt: ast.AST):
    """f"{v:.4f}"  ->  ('.4f', precision, type)."""
    if isinstance(fmt, ast.JoinedStr) and len(fmt.values) == 1 and \
            isinstance(fmt.values[0], ast.FormattedValue):
        fs = fmt.values[0].format_spec
        if fs is None:
            return ("", None, "")
        if isinstance(fs, ast.JoinedStr) and len(fs.values) == 1 and isinstance(fs.values[0], ast.Constant):
            spec = fs.values[0].value
            m = re.fullmatch(r"([<>=^]?[-+ ]?#?0?\d*,?)(?:\.(\d+))?([a-zA-Z%]?)", spec)
            if m:
                return (spec, int(m.group(2)) if m.group(2) else None, m.group(3), m.group(1))
    if isinstance(fmt, ast.Call) and dotted(fmt.func) == "format" and len(fmt.args) == 2 \
            and isinstance(fmt.args[1], ast.Constant):
        spec = fmt.args[1].value
        m = re.fullmatch(r"()(?:\.(\d+))?([a-zA-Z%]?)", spec)
        if m:
            return (spec, int(m.group(2)) if m.group(2) else None, m.group(3), "")
    return None


def r_fmt(ctx, col, fields, tier):
    repo = ctx.repo
    w, gv, fmt, other = writer_facts(ctx, col)
    spec = parse_spec(fmt) if fmt is not None else None
    float_lang = None
    # every format spec that can produce the text of a float (all branches of the floating arm)
    for st in gv.node.body:
        if isinstance(st, ast.If) and any(isinstance(n, ast.Attribute) and n.attr == "issubdtype" for n in ast.walk(st.test)) \
                and any(isinstance(n, ast.Attribute) and n.attr in ("floating", "inexact") for n in ast.walk(st.test)):
            for b in st.body:
                for n in ast.walk(b):
                    cand = None
                    if isinstance(n, ast.JoinedStr) and len(n.values) == 1 and isinstance(n.values[0], ast.FormattedValue):
                        cand = n
                    elif isinstance(n, ast.Call) and dotted(n.func) == "format" and len(n.args) == 2:
                        cand = n
                    if cand is None or cand is fmt:
                        continue
                    sp = parse_spec(cand)
                    if sp is not None and not (sp[2] == "f" and sp[1] == DECIMALS and sp[3] == ""):
                        col.bad("R-FMT", gv.qualname, gv.loc(cand), "floats carry exactly four decimals",
                                f"`{norm_src(cand)}` writes a float with spec {sp[0]!r} on some path of the floating arm: that text does not carry the value "
                                f"rounded to {DECIMALS} decimals (an exponent / general format keeps significant digits, not decimals)", stmt="float-spec-alt", definite=True)
    # a constant text returned for some floats: only "the value is zero at the written precision" can justify it
    col.rule("R-CELLCONST", "the text of a float cell depends on the value: a constant string is returned only for values that round to it at the written precision "
             "(`abs(v) < c` with c <= half a unit of the last decimal, text = zero with the same number of decimals)", floor=0)
    half = 0.5 * 10 ** (-DECIMALS)
    zero_text = f"{0:.{DECIMALS}f}"
    from .. import pathcond
    for st in gv.node.body:
        if isinstance(st, ast.If) and any(isinstance(n, ast.Attribute) and n.attr == "issubdtype" for n in ast.walk(st.test)) \
                and any(isinstance(n, ast.Attribute) and n.attr in ("floating", "inexact") for n in ast.walk(st.test)):
            # the value itself replaced by zero below a threshold (`if abs(v) < c: v = 0.0`) is the same thing one step earlier
            for n in ast.walk(st):
                if isinstance(n, ast.If) and isinstance(n.test, ast.Compare) and len(n.test.ops) == 1 and isinstance(n.test.ops[0], (ast.Lt, ast.LtE)) and isinstance(n.test.left, ast.Call) \
                        and (dotted(n.test.left.func) or "").rsplit(".", 1)[-1] in ("abs", "fabs", "absolute") and isinstance(n.test.comparators[0], ast.Constant) \
                        and isinstance(n.test.comparators[0].value, (int, float)):
                    c = float(n.test.comparators[0].value)
                    zeroed = [a for a in n.body if isinstance(a, ast.Assign) and isinstance(a.value, ast.Constant) and a.value.value == 0
                              and n.test.left.args and norm_src(a.targets[0]) == norm_src(n.test.left.args[0])]
                    if zeroed:
                        ok_ = c < half or (c == half and isinstance(n.test.ops[0], ast.Lt))
                        col.check(ok_, "R-CELLCONST", gv.qualname, gv.loc(n), "a value is flushed to zero only when it rounds to zero", f"|v| < {c:g}",
                                  f"`{norm_src(n.test)}: {norm_src(zeroed[0])}` flushes every float with |v| < {c:g} to zero before it is formatted: values from {half:g} up to that bound round to "
                                  f"+-{10 ** (-DECIMALS):g} at {DECIMALS} decimals, the file says 0 -- the round trip loses them", stmt="cell-flush", definite=True)
            for n in ast.walk(st):
                if isinstance(n, ast.Return) and isinstance(n.value, ast.Constant) and isinstance(n.value.value, str):
                    tests, complete = pathcond.conditions_at(gv.node, n)
                    bound = None
                    for t, pol in tests:
                        if pol and isinstance(t, ast.Compare) and len(t.ops) == 1 and isinstance(t.ops[0], (ast.Lt, ast.LtE)) and isinstance(t.left, ast.Call) \
                                and (dotted(t.left.func) or "").rsplit(".", 1)[-1] in ("abs", "fabs", "absolute") and isinstance(t.comparators[0], ast.Constant) \
                                and isinstance(t.comparators[0].value, (int, float)):
                            c = float(t.comparators[0].value)
                            bound = c if bound is None else min(bound, c)
                        if pol and isinstance(t, ast.Compare) and len(t.ops) == 1 and isinstance(t.ops[0], ast.Eq) and isinstance(t.comparators[0], ast.Constant) \
                                and t.comparators[0].value == 0:
                            bound = 0.0
                    ok_ = bound is not None and (bound < half or (bound == half and isinstance(t.ops[0], ast.Lt))) and n.value.value == zero_text
                    col.check(ok_, "R-CELLCONST", gv.qualname, gv.loc(n), "a constant cell text stands only for values that round to it",
                              f"`{norm_src(n)}` under |v| < {bound}",
                              f"`{norm_src(n)}` writes the constant {n.value.value!r} for every float with " + (f"|v| < {bound:g}" if bound is not None else "an unbounded range of values")
                              + f": values from {half:g} up to that bound round to +-{10 ** (-DECIMALS):g} at {DECIMALS} decimals, the file says 0 -- the round trip loses them",
                              stmt="cell-const", definite=True)
    if spec is None:
        col.unresolved("R-FMT", gv.qualname, gv.loc(), "float format",
                       "no `f\"{v:<spec>}\"` return under the floating-dtype test")
    else:
        s, prec, typ, flags = spec
        ok = typ == "f" and prec == DECIMALS and flags == ""
        col.check(ok, "R-FMT", gv.qualname, gv.loc(fmt), "floats carry exactly four decimals",
                  f"spec {s!r}", f"format spec {s!r} is not fixed-point with {DECIMALS} decimals",
                  stmt="float-spec", facts={"spec": s})
        if typ == "f" and prec is not None and flags == "":
            float_lang = rf"-?[0-9]+\.[0-9]{{{prec}}}" if prec > 0 else r"-?[0-9]+"
        elif typ in ("e", "E") and prec is not None and flags == "":
            float_lang = rf"-?[0-9]\.[0-9]{{{prec}}}{typ}[+-][0-9]{{2,3}}"
        elif typ in ("g", "G", "") and flags == "":
            float_lang = r"-?(?:[0-9]+(?:\.[0-9]+)?(?:e[+-][0-9]{2,3})?)"
    int_ok = isinstance(other, ast.Call) and dotted(other.func) == "str" and len(other.args) == 1
    col.check(int_ok, "R-FMT", gv.qualname, gv.loc(other) if other is not None else gv.loc(),
              "integers are written with str()", norm_src(other) if other is not None else "",
              "non-float columns are not written with str(v)", stmt="int-format")
    # separator and terminator of a data row
    rows = []
    for n in own_nodes(w):
        if isinstance(n, ast.Yield) and in_loop(repo, n, w) and n.value is not None:
            e = n.value
            if isinstance(e, ast.BinOp) and isinstance(e.op, ast.Add) and isinstance(e.left, ast.Call) \
                    and isinstance(e.left.func, ast.Attribute) and e.left.func.attr == "join" \
                    and isinstance(e.left.func.value, ast.Constant):
                it = e.left.args[0] if e.left.args else None
                # the joined generator must call get_v(k, idx) for k in cols
                uses_getv = it is not None and any(
                    isinstance(c, ast.Call) and isinstance(c.func, ast.Name) and c.func.id == "get_v"
                    for c in ast.walk(it))
                over_cols = it is not None and any(
                    isinstance(g, ast.comprehension) and isinstance(g.iter, ast.Name) and g.iter.id == "cols"
                    for g in ast.walk(it))
                if uses_getv and over_cols and isinstance(e.right, ast.Constant):
                    rows.append((n, e.left.func.value.value, e.right.value))
    if len(rows) != 1:
        raise AnalysisError("anchor-vanished: the data-row yield `sep.join(get_v(k, idx) for k in cols) + end` in to_swc")
    row_node, sep, end = rows[0]
    # row loop iterates the id column
    loop = next(a for a in _ancestors(repo, row_node, w) if isinstance(a, ast.For))
    ok_loop = isinstance(loop.iter, ast.Call) and norm_src(loop.iter) == "get_ndata(names.id)"
    col.check(ok_loop, "R-FMT", w.qualname, w.loc(loop), "one row per node, in id order",
              norm_src(loop.iter), "row loop does not iterate get_ndata(names.id)", stmt="rowloop")

    # reader regex
    p = repo.get_def(f"{IO}.parse_swc")
    re_assign = single_assign(p, "re_swc")
    reader = {}
    for tag, extras in (("no-extras", []), ("one-extra", ["extra"])):
        env = {"extras": extras}
        f = Folder(repo, p.module, p, env)
        try:
            for nm in ("re_swc_cols", "re_swc_cols_str"):
                f.env[nm] = f.eval(value_of(p, nm))
            call = re_assign.value
            pat = f.eval(call.args[0]) if isinstance(call, ast.Call) and call.args else None
            if not isinstance(pat, str):
                raise Unfoldable(call, "pattern")
            reader[tag] = pat
        except Unfoldable as ex:
            col.unresolved("R-FMT", p.qualname, p.loc(re_assign), f"reader regex ({tag})", str(ex))
    # how is it applied?
    uses = [n for n in own_nodes(p) if isinstance(n, ast.Call) and isinstance(n.func, ast.Attribute)
            and isinstance(n.func.value, ast.Name) and n.func.value.id == "re_swc"]
    methods = {u.func.attr for u in uses}
    if methods - {"search", "match", "fullmatch"} or not methods:
        col.unresolved("R-FMT", p.qualname, p.loc(), "reader regex application", f"{methods}")
        return reader.get("no-extras")
    search = "search" in methods
    if float_lang is None:
        return reader.get("no-extras")
    for tag, pat in reader.items():
        cols_lang = []
        for fld in fields:
            if KINDS[fld] == "float":
                cols_lang.append(float_lang)
            elif fld == "pid":
                cols_lang.append(r"(?:-1|[0-9]+)")
            else:
                cols_lang.append(r"[0-9]+")
        if tag == "one-extra":
            cols_lang.append(float_lang)
        wl = re.escape(sep).replace("\\ ", " ").join(cols_lang) + re.escape(end).replace("\\\n", "\n")
        wl = wl.replace("\n", "\\n")
        try:
            inc, cex, nstates = relang.included(wl, pat, search_b=search)
        except relang.UnsupportedRegex as ex:
            col.unresolved("R-FMT", p.qualname, p.loc(re_assign), f"inclusion ({tag})", str(ex))
            continue
        col.check(inc, "R-FMT", p.qualname, p.loc(re_assign),
                  f"L(writer row) <= L(reader regex) ({tag})",
                  f"{nstates} product states", f"writer can emit {cex!r} which the reader regex rejects",
                  stmt=f"inclusion:{tag}", facts={"writer_language": wl, "reader_regex": pat,
                                                  "product_states": nstates})
        # trailing group stays empty: greedy \s* directly before a starred set, nothing but
        # whitespace after the last column of a writer row
        try:
            tree = list(relang.sre_parse.parse(pat))
            c = relang.sre_c
            tail_ok = (len(tree) >= 3 and tree[-1][0] == c.AT and tree[-2][0] == c.SUBPATTERN
                       and len(tree[-2][1][3]) == 1 and tree[-2][1][3][0][0] == c.MAX_REPEAT
                       and tree[-3][0] == c.MAX_REPEAT and tree[-3][1][0] == 0
                       and list(tree[-3][1][2])[0] == (c.IN, [(c.CATEGORY, c.CATEGORY_SPACE)]))
        except Exception:  # noqa: BLE001
            tail_ok = False
        col.check(tail_ok and end.strip() == "" and sep.strip() == "", "R-FMT", p.qualname,
                  p.loc(re_assign), f"optional trailing group is empty for writer rows ({tag})",
                  "greedy \\s* precedes the group; row ends in whitespace only",
                  "the trailing optional group can capture writer output (spurious warning)",
                  stmt=f"tail:{tag}")
    return reader.get("no-extras")


def _ancestors(repo, n, d):
    x = repo.parent(n)
    while x is not None and x is not d.node:
        yield x
        x = repo.parent(x)


# ---------------------------------------------------------------------- R-NL
def r_nl(ctx, col):
    w = ctx.repo.get_def(f"{IO}.to_swc")
    for n in own_nodes(w):
        if isinstance(n, ast.Yield):
            v = n.value
            r = ends_with(v, "\n") if v is not None else False
            if r is None and isinstance(v, ast.Call) and isinstance(v.func, ast.Attribute) and v.func.attr == "join" \
                    and v.args and isinstance(v.args[0], (ast.GeneratorExp, ast.ListComp)):
                # sep.join(f(..) for ..): ends like its last element; a local formatter whose returns are
                # formatted numbers (f"{v:<spec>}", str(v)) never ends in a newline
                elt = v.args[0].elt
                if isinstance(elt, ast.Call) and isinstance(elt.func, ast.Name) and elt.func.id in w.nested:
                    f = w.nested[elt.func.id]
                    rv = [x.value for x in own_nodes(f) if isinstance(x, ast.Return) and x.value is not None]
                    numeric = lambda e: (isinstance(e, ast.Call) and dotted(e.func) in ("str", "repr", "format")) or \
                        (isinstance(e, ast.JoinedStr) and len(e.values) == 1 and isinstance(e.values[0], ast.FormattedValue))
                    if rv and all(numeric(e) for e in rv):
                        r = False
            if r is None:
                col.unresolved("R-NL", w.qualname, w.loc(n), norm_src(n), "cannot fold the suffix",
                               stmt=n)
            else:
                col.check(r, "R-NL", w.qualname, w.loc(n), norm_src(n), "ends in \\n",
                          "yielded line has no newline: the next line is glued to it", stmt=n)
        elif isinstance(n, ast.YieldFrom):
            col.unresolved("R-NL", w.qualname, w.loc(n), norm_src(n), "yield from", stmt=n)


# ---------------------------------------------------------------------- R-HDR
def r_hdr(ctx, col, names_cls, reader_pat):
    repo = ctx.repo
    w = repo.get_def(f"{IO}.to_swc")
    p = repo.get_def(f"{IO}.parse_swc")
    rec = Folder(repo, names_cls.module).default_record(names_cls)
    # writer header: the yield outside any loop
    hdr_y = [n for n in own_nodes(w) if isinstance(n, ast.Yield) and not in_loop(repo, n, w)]
    if len(hdr_y) != 1:
        raise AnalysisError("anchor-vanished: single column-header yield outside loops in to_swc")
    def header_for(extra):
        f = Folder(repo, w.module, w, {"names": rec, "extra_cols": extra})
        f.env["cols"] = f.eval(value_of(w, "cols"))
        return f.eval(hdr_y[0].value)

    try:
        header = header_for(None)
    except Unfoldable as ex:
        col.unresolved("R-HDR", w.qualname, w.loc(hdr_y[0]), "writer header", str(ex))
        return
    # reader's comment arm
    arm = None
    for n in own_nodes(p):
        if isinstance(n, ast.If) and any(isinstance(x, ast.Attribute) and isinstance(x.value, ast.Name)
                                         and x.value.id == "RE_COMMENT" for x in ast.walk(n.test)):
            arm = n
    if arm is None:
        raise AnalysisError("anchor-vanished: the RE_COMMENT arm of parse_swc")

    def reader_on(line, extras=()):
        env = {"names": rec, "extras": list(extras), "line": line, "comments": []}
        f = Folder(repo, p.module, p, env)
        f.env["ignored_comment"] = f.eval(value_of(p, "ignored_comment"))
        t = f.eval(arm.test)
        if not t:
            return None, "comment regex does not match"
        out = run_block(arm.body, f, lambda c: norm_src(c.func) == "comments.append")
        return out, ""

    try:
        out, why = reader_on(header)
        if out is None:
            col.bad("R-HDR", p.qualname, p.loc(arm), "writer header is recognised as comment", why,
                    stmt="hdr-match")
        else:
            col.check(not out.effects, "R-HDR", p.qualname, p.loc(arm),
                      "writer's column header is filtered out",
                      f"header {header!r} dropped",
                      f"the writer's own header {header!r} comes back as comment "
                      f"{out.effects[0][1][0]!r} on every round trip" if out.effects else "",
                      stmt="hdr-filter", facts={"header": header, "trace": out.trace})
        # the extended header (a tree written with extra columns), read back with and without asking for those columns
        for w_extra, r_extra, tag in ((["level"], ["level"], "hdr-filter-extra"), (["level"], [], "hdr-filter-extra-plain")):
            try:
                hx = header_for(w_extra)
                outx, whyx = reader_on(hx, r_extra)
            except Unfoldable as ex:
                col.unresolved("R-HDR", p.qualname, p.loc(arm), "extended header", str(ex), stmt=tag)
                continue
            if outx is None:
                col.bad("R-HDR", p.qualname, p.loc(arm), "the writer's extended header is recognised as comment", whyx, stmt=tag)
            else:
                col.check(not outx.effects, "R-HDR", p.qualname, p.loc(arm),
                          "the header of a tree written with extra columns is filtered out as well",
                          f"header {hx!r} dropped (read with extra_cols={r_extra})",
                          f"written with extra_cols={w_extra} the header is {hx!r}; read back (extra_cols={r_extra}) it is kept as the comment "
                          f"{outx.effects[0][1][0]!r}: comments grow by one line on every such round trip" if outx.effects else "",
                          stmt=tag, facts={"header": hx})
        # a user comment
        token = "\x00USER COMMENT\x00"
        cy = [n for n in own_nodes(w) if isinstance(n, ast.Yield) and in_loop(repo, n, w)
              and any(isinstance(a, ast.For) and norm_src(a.iter) == "comments"
                      for a in _ancestors(repo, n, w))]
        lines = []
        for y in cy:
            try:
                lines.append(Folder(repo, w.module, w, {"c": token}).eval(y.value))
            except Unfoldable:
                pass
        lines = [l for l in lines if token in l]
        if len(lines) != 1:
            col.unresolved("R-HDR", w.qualname, w.loc(), "user comment line", "cannot fold the comment yield")
        else:
            out, why = reader_on(lines[0])
            got = out.effects[0][1][0] if out is not None and out.effects else None
            col.check(isinstance(got, str) and got.lstrip() == token, "R-HDR", p.qualname, p.loc(arm),
                      "a user comment comes back with the same text (leading blanks aside)",
                      "", f"comment written as {lines[0]!r} is read back as {got!r}",
                      stmt="user-comment")
    except Unfoldable as ex:
        col.unresolved("R-HDR", p.qualname, p.loc(arm), "reader comment arm", str(ex))
    # comment lines never match the data regex
    if reader_pat:
        try:
            N, s0, fin = relang.compile_nfa(reader_pat, search=True)
            S = relang._closure(N, {s0})
            for ch in " \t#":
                pass
            S2 = relang._step(N, S, "#")
            S3 = relang._step(N, relang._step(N, S, " "), "#")
            col.check(not S2 and not S3, "R-HDR", p.qualname, p.loc(),
                      "a line starting with '#' can never match the data-row regex", "",
                      "the data-row regex can match a comment line", stmt="hash-not-data")
        except relang.UnsupportedRegex as ex:
            col.unresolved("R-HDR", p.qualname, p.loc(), "comment vs data regex", str(ex))


# ---------------------------------------------------------------------- R-SENT
def r_sent(ctx, col, names_cls):
    repo = ctx.repo
    w, gv, fmt, other = writer_facts(ctx, col)
    rec = Folder(repo, names_cls.module).default_record(names_cls)
    augs = [n for n in own_nodes(gv) if isinstance(n, ast.AugAssign)]
    shifts = [a for a in augs if isinstance(a.op, ast.Add) and isinstance(a.target, ast.Name)]
    if len(shifts) != 1:
        raise AnalysisError("anchor-vanished: the single `v += id_offset` in get_v")
    sh = shifts[0]
    from .. import pathcond
    tests, complete = pathcond.conditions_at(gv.node, sh)
    col.check(isinstance(sh.value, ast.Name) and sh.value.id == "id_offset" and
              "id_offset" in w.params, "R-SENT", gv.qualname, gv.loc(sh),
              "id and parent id are shifted by the same amount, the id_offset argument",
              norm_src(sh), f"shift amount is `{norm_src(sh.value)}`", stmt="shift-amount")
    # the floating-point arm returns before the shift: its test says nothing about (column, value)
    tests = [(t, pol) for t, pol in tests if "issubdtype" not in norm_src(t) and "floating" not in norm_src(t)]
    if not tests:
        # no test at all on the way to the shift, in straight-line code: every column of every row is shifted
        col.judge(complete, False, "R-SENT", gv.qualname, gv.loc(sh), "shift is guarded", "", "unguarded shift",
                  "no test found on the way to the shift, but the path is not straight-line code", stmt="guard", definite=True)
        return

    class _G:  # the conjunction of the tests under which the shift runs
        test = pathcond.as_expr(tests)
        lineno = tests[0][0].lineno
    guard = _G
    vname = sh.target.id
    oracle = {("id", -1): True, ("id", 7): True, ("pid", -1): False, ("pid", 7): True,
              ("type", -1): False, ("type", 7): False, ("x", 7): False}
    for (k, v), want in oracle.items():
        try:
            got = bool(Folder(repo, gv.module, gv, {"names": rec, "k": rec.fields[k], vname: v}).eval(guard.test))
        except Unfoldable as ex:
            col.unresolved("R-SENT", gv.qualname, gv.loc(guard), f"row k={k} v={v}", str(ex))
            continue
        col.check(got == want, "R-SENT", gv.qualname, gv.loc(guard),
                  f"column {k}, value {'-1 (root marker)' if v == -1 else 'other'}",
                  f"shifted={got}",
                  f"shifted={got}, expected {want}" + (" -- the root marker would be lost"
                                                      if (k, v) == ("pid", -1) else ""),
                  stmt=f"row:{k}:{v}")


# ---------------------------------------------------------------------- R-SRC
def r_src(ctx, col):
    repo = ctx.repo
    m = repo.get_module("swcgeom.utils.file")
    b = m.bindings.get("PathOrIO")
    if b is None:
        raise AnalysisError("anchor-vanished: PathOrIO")
    members = []

    def flat(e):
        if isinstance(e, ast.BinOp) and isinstance(e.op, ast.BitOr):
            flat(e.left)
            flat(e.right)
        else:
            members.append(dotted(e))
    flat(b.target)
    fr = repo.get_class("swcgeom.utils.file.FileReader")
    init, enter = fr.lookup_method("__init__"), fr.lookup_method("__enter__")
    if init is None or enter is None:
        raise AnalysisError("anchor-vanished: FileReader.__init__/__enter__")
    # isinstance ladder in __init__
    ladder = {}
    has_else = False
    for s in init.node.body:
        if isinstance(s, ast.If):
            cur = s
            while True:
                t = cur.test
                if isinstance(t, ast.Call) and dotted(t.func) == "isinstance" and len(t.args) == 2:
                    tgt = [norm_src(x.targets[0]) for x in cur.body if isinstance(x, ast.Assign)]
                    ladder[dotted(t.args[1])] = tgt
                if len(cur.orelse) == 1 and isinstance(cur.orelse[0], ast.If):
                    cur = cur.orelse[0]
                    continue
                if cur.orelse:
                    has_else = True
                    ladder["<else>"] = [norm_src(x.targets[0]) for x in cur.orelse if isinstance(x, ast.Assign)]
                break
            if ladder:
                break
    for mem in members:
        arm = mem if mem in ladder else ("<else>" if has_else else None)
        col.check(arm is not None, "R-SRC", init.qualname, init.loc(), f"source kind {mem}",
                  f"arm {arm} -> {ladder.get(arm)}", f"no arm handles source kind {mem}",
                  stmt=f"kind:{mem}")
    # __enter__: bytes stream gets decoded with the encoding, otherwise opened; returns handle
    src = norm_src(enter.node)
    wraps = any(isinstance(n, ast.Call) and dotted(n.func) == "TextIOWrapper" and kwarg(n, "encoding") is not None
                for n in own_nodes(enter))
    opens = any(isinstance(n, ast.Call) and dotted(n.func) == "open" and kwarg(n, "encoding") is not None
                for n in own_nodes(enter))
    cfg = ctx.cfg(enter)
    rets = [n for n in cfg.nodes if n.kind == "stmt" and isinstance(n.ast, ast.Return)]
    all_ret = all(isinstance(r.ast.value, ast.Attribute) and norm_src(r.ast.value) == "self.f" for r in rets) \
        and not any(l == "fall" for _, l in cfg.pred[cfg.exit])
    # neither call found in __enter__ itself: they may live in a helper -- nothing can be said (a call that is there WITHOUT the
    # encoding, or a path that does not return the handle, is a finding)
    any_wrap = any(isinstance(n, ast.Call) and dotted(n.func) in ("TextIOWrapper", "io.TextIOWrapper") for n in own_nodes(enter))
    any_open = any(isinstance(n, ast.Call) and dotted(n.func) == "open" for n in own_nodes(enter))
    col.judge((any_wrap or any_open) and bool(rets), bool(wraps and opens and all_ret and rets), "R-SRC", enter.qualname, enter.loc(),
              "byte streams are decoded, paths opened with the encoding, handle returned on every path",
              "", f"wraps={wraps} opens={opens} returns-handle={all_ret}", stmt="enter")


# ---------------------------------------------------------------------- R-ONCE
def r_once(ctx, col):
    repo = ctx.repo
    d = repo.get_def("swcgeom.core.swc.SWCLike.to_swc")
    a = single_assign(d, "it")
    ok_src = isinstance(a.value, ast.Call) and dotted(a.value.func) == "to_swc" and \
        any(k.arg == "id_offset" and norm_src(k.value) == "id_offset" for k in a.value.keywords) and \
        any(k.arg == "extra_cols" and norm_src(k.value) == "extra_cols" for k in a.value.keywords)
    cfg = ctx.cfg(d)
    uses = [n for n in cfg.nodes if n.ast is not None and n.kind == "stmt"
            and not isinstance(n.ast, (ast.FunctionDef,))
            and any(isinstance(x, ast.Name) and x.id == "it" and isinstance(x.ctx, ast.Load)
                    for x in ast.walk(n.ast))]
    # with-statement bodies are separate nodes; count max uses along any path
    worst = 0
    for path in cfg.paths(cfg.entry, [cfg.exit], edge_ok=lambda a, b, l: l != "exc"):
        k = sum(1 for n, _ in path if n in uses)
        worst = max(worst, k)
        if k == 0:
            worst = max(worst, -1)
    n_zero = sum(1 for path in cfg.paths(cfg.entry, [cfg.exit], edge_ok=lambda a, b, l: l != "exc")
                 if not any(n in uses for n, _ in path))
    col.check(ok_src and worst == 1 and n_zero == 0, "R-ONCE", d.qualname, d.loc(a),
              "generator consumed exactly once on every path; id_offset/extra_cols forwarded",
              f"{len(uses)} use sites", f"forwarding={ok_src}, max uses on a path={worst}, "
              f"paths without use={n_zero}", stmt="it")



def r_comment(ctx, col):
    """Comment lines are an ordered sequence of texts, returned as written: nothing on the write or read path treats them as a set, or cuts a line
    at a second separator."""
    col.rule("R-COMMENT", "comment lines come back in order with the same text: on the write / read path no comment list goes through a de-duplicating or re-ordering "
             "container (dict.fromkeys, set, sorted, np.unique), and no text is taken as `line.split(sep)[k]` without a split limit (the text after a second "
             "separator would be lost); zero expected", floor=1)
    repo = ctx.repo
    hits = 0
    defs = [repo.get_def(q) for q in (f"{IO}.parse_swc", f"{IO}.to_swc", "swcgeom.core.swc.SWCLike.to_swc", "swcgeom.core.swc.SWCLike.to_eswc", "swcgeom.core.tree.Tree.from_swc")]
    for d in defs:
        for c in own_nodes(d):
            if isinstance(c, ast.Subscript) and isinstance(c.value, ast.Call) and isinstance(c.value.func, ast.Attribute) and c.value.func.attr in ("split", "rsplit") \
                    and len(c.value.args) == 1 and not c.value.keywords and isinstance(c.slice, ast.Constant) and isinstance(c.slice.value, int) and c.slice.value not in (0, -1) \
                    and isinstance(c.value.args[0], ast.Constant) and c.value.args[0].value == "#":
                hits += 1
                col.bad("R-COMMENT", d.qualname, d.loc(c), "a comment's text is everything after the comment mark",
                        f"`{norm_src(c)}` splits at EVERY `#` and keeps one piece: a comment that contains the mark itself (`cell #3 of slice #12`, `## notes`) comes back cut off",
                        stmt="split-no-limit", definite=True)
            if isinstance(c, ast.Call):
                fn = dotted(c.func) or ""
                if fn in ("dict.fromkeys", "set", "frozenset", "np.unique", "numpy.unique", "sorted", "OrderedDict.fromkeys") and c.args \
                        and any(isinstance(n, ast.Name) and n.id in ("data", "comments", "comment_lines", "lines") or (isinstance(n, ast.Attribute) and n.attr == "comments")
                                for n in ast.walk(c.args[0])):
                    hits += 1
                    col.bad("R-COMMENT", d.qualname, d.loc(c), "comment lines are a sequence: order and repeats are kept",
                            f"`{norm_src(c)[:70]}` passes the comment lines through a container that drops repeats or re-orders them: a blank separator line, a ruler line or any line "
                            f"that occurs twice is written once only", stmt="dedupe", definite=True)
    # every comment of the tree is written: no filter on the way into the header block
    for d in defs:
        for c in own_nodes(d):
            gens = c.generators if isinstance(c, (ast.GeneratorExp, ast.ListComp)) else []
            for g_ in gens:
                if g_.ifs and (norm_src(g_.iter) in ("self.comments", "comments") or (isinstance(g_.iter, ast.Attribute) and g_.iter.attr == "comments")) \
                        and d.qualname.endswith("SWCLike.to_swc"):
                    hits += 1
                    col.bad("R-COMMENT", d.qualname, d.loc(c), "every comment line of the tree is written",
                            f"`{norm_src(c)[:80]}` writes only the comments that pass `{norm_src(g_.ifs[0])[:50]}`: comment lines that happen to equal what the filter looks for "
                            f"(a blank line, a line equal to a header line) are dropped from the file", stmt="comment-filter", definite=True)
    if not hits:
        col.ok("R-COMMENT", "comment-scan", "", "no de-duplicating container and no unlimited split on the comment path", f"{len(defs)} functions scanned", stmt="comment-scan")
