"""C16 -- resampling and smoothing keep the neuron's shape (structural clauses)."""

from __future__ import annotations

import ast

from .. import own
from ..fold import Folder, Unfoldable
from ..model import AnalysisError, dotted, norm_src, own_nodes
from ..rules import xyz
from ..shape import UNKNOWN, Shapes
from ..util import const_int, kwarg
from .c03 import analyse, ndata_store_keys

BR = "swcgeom.transforms.branch"
ASM = "swcgeom.transforms.branch_tree.BranchTreeAssembler"


def _measures(ctx, col):
    """Two construct rules over the resampling code (zero expected):
    R-CHORD    the spacing bounds steps of ARC length: it is never compared with a chord (straight_line_distance / the norm of last - first point) to decide how many points a
               branch gets -- a hairpin has a short chord and a long path;
    R-BUFDTYPE interpolated positions / radii are stored into a floating buffer: a buffer allocated with the input's dtype (`dtype=xyzr.dtype`, `*_like(xyzr)`) truncates them
               for an integer-typed branch."""
    RES = ("swcgeom.transforms.branch", "swcgeom.transforms.tree", "swcgeom.transforms.branch_tree")
    col.rule("R-CHORD", "the resampling spacing is compared with arc lengths only: no comparison of the spacing (`self.distance` / `distance`) with a chord (straight_line_distance(), "
             "norm of end - start) decides the number of points of a branch; zero expected", floor=1)
    col.rule("R-BUFDTYPE", "interpolated values are stored into a floating buffer: no array that receives np.interp / linspace results is allocated with the dtype of the input "
             "(`dtype=<input>.dtype`, `*_like(<input>)`); zero expected", floor=1)
    n_ch = n_bd = n_defs = 0
    for d in ctx.repo.all_defs():
        if d.module.name not in RES or d.is_lambda:
            continue
        n_defs += 1
        for c in own_nodes(d):
            if isinstance(c, ast.Compare):
                txt = norm_src(c)
                sides = [c.left] + list(c.comparators)
                chord = [s for s in sides if "straight_line_distance" in norm_src(s)]
                spacing = [s for s in sides if norm_src(s) in ("self.distance", "distance", "self.spacing", "spacing")]
                if chord and spacing:
                    n_ch += 1
                    col.bad("R-CHORD", d.qualname, d.loc(c), "the spacing is measured along the branch",
                            f"`{txt[:80]}` compares the spacing with the straight-line distance of the branch's ends: a curved branch (a hairpin returning next to its furcation) has a chord "
                            f"below the spacing and a path many times longer -- it loses its interior nodes and its single step exceeds the spacing", stmt="chord", definite=True)
        params = set(d.params) - {"self", "cls"}
        allocs = {}
        for a in own_nodes(d):
            if isinstance(a, ast.Assign) and len(a.targets) == 1 and isinstance(a.targets[0], ast.Name) and isinstance(a.value, ast.Call):
                fn = (dotted(a.value.func) or "").rsplit(".", 1)[-1]
                inherits = None
                if fn in ("empty_like", "zeros_like", "ones_like", "full_like") and a.value.args and isinstance(a.value.args[0], ast.Name) and a.value.args[0].id in params \
                        and not any(k.arg == "dtype" for k in a.value.keywords):
                    inherits = a.value.args[0].id
                for k in a.value.keywords:
                    if k.arg == "dtype" and isinstance(k.value, ast.Attribute) and k.value.attr == "dtype" and isinstance(k.value.value, ast.Name) and k.value.value.id in params:
                        inherits = k.value.value.id
                if inherits and fn in ("empty", "zeros", "ones", "full", "empty_like", "zeros_like", "ones_like", "full_like"):
                    allocs[a.targets[0].id] = (a, inherits)
        for st in own_nodes(d):
            if isinstance(st, ast.Assign) and any(isinstance(t, ast.Subscript) and isinstance(t.value, ast.Name) and t.value.id in allocs for t in st.targets) \
                    and any(isinstance(x, ast.Call) and (dotted(x.func) or "").rsplit(".", 1)[-1] in ("interp", "linspace") for x in ast.walk(st.value)):
                buf = next(t.value.id for t in st.targets if isinstance(t, ast.Subscript) and isinstance(t.value, ast.Name) and t.value.id in allocs)
                a, inh = allocs.pop(buf)
                n_bd += 1
                col.bad("R-BUFDTYPE", d.qualname, d.loc(a), "interpolated values keep their fractional part",
                        f"`{norm_src(a)[:80]}` takes its dtype from the input `{inh}` and `{norm_src(st)[:60]}` stores interpolated values into it: for a branch given as an integer array the "
                        f"positions and radii are truncated on assignment -- interior nodes leave the polyline, steps become unequal", stmt="buf-dtype", definite=True)
    # the last sample position is the last abscissa of the table it is interpolated in -- the same float, not a separately rounded sum
    col.rule("R-TOTALSRC", "the end of the new arc-length positions is the last entry of the cumulative table handed to np.interp (`cum[-1]`), not a separately computed sum of the step lengths "
             "(pairwise float32 summation rounds differently from cumsum: the last node lands a few ulps before the end point and is no longer recognised as its duplicate)", floor=1)
    n_ts = 0
    for d in ctx.repo.all_defs():
        if d.module.name not in RES or d.is_lambda:
            continue
        xps = {norm_src(c.args[1]) for c in own_nodes(d) if isinstance(c, ast.Call) and (dotted(c.func) or "").rsplit(".", 1)[-1] == "interp" and len(c.args) >= 3 and isinstance(c.args[1], ast.Name)}
        if not xps:
            continue
        ends = set()
        for c in own_nodes(d):
            if isinstance(c, ast.Call) and (dotted(c.func) or "").rsplit(".", 1)[-1] in ("linspace", "arange") and len(c.args) >= 2 and isinstance(c.args[1], ast.Name):
                ends.add(c.args[1].id)
        for e_ in sorted(ends):
            binds = [a for a in own_nodes(d) if isinstance(a, ast.Assign) and len(a.targets) == 1 and isinstance(a.targets[0], ast.Name) and a.targets[0].id == e_]
            if len(binds) != 1:
                continue
            v = binds[0].value
            txt = norm_src(v)
            n_ts += 1
            if any(txt in (f"{x}[-1]", f"{x}[-1].item()", f"float({x}[-1])") for x in xps):
                col.ok("R-TOTALSRC", d.qualname, d.loc(binds[0]), "the last position is the table's last abscissa", txt, stmt="totalsrc")
            elif any(isinstance(c, ast.Call) and (dotted(c.func) or "").rsplit(".", 1)[-1] in ("sum", "fsum", "nansum") or (isinstance(c, ast.Call) and isinstance(c.func, ast.Attribute) and c.func.attr == "sum")
                     for c in ast.walk(v)):
                col.bad("R-TOTALSRC", d.qualname, d.loc(binds[0]), "the last position is the table's last abscissa",
                        f"`{norm_src(binds[0])}` sums the step lengths again instead of taking `{sorted(xps)[0]}[-1]`: numpy's pairwise sum and the sequential cumsum round float32 differently, so for long, "
                        f"finely sampled branches the last new position is a few ulps short of the table's end -- the resampled branch does not end on the original end point and the assembler keeps both nodes",
                        stmt="totalsrc", definite=True)
            else:
                col.unresolved("R-TOTALSRC", d.qualname, d.loc(binds[0]), "the last position is the table's last abscissa", f"`{txt}`: relation to the interpolation table not recognised", stmt="totalsrc")
    if not n_ts:
        col.unresolved("R-TOTALSRC", "swcgeom.transforms", "swcgeom/transforms/branch.py:1", "the last position is the table's last abscissa", "no linspace / arange end bound to a single name found next to np.interp", stmt="totalsrc")
    # (a) "this branch has no length" is a statement about the arc length, not about its two end points; (b) interpolators that divide by the abscissa step need strictly increasing
    #     abscissae, and the arc length of a branch with a zero-length segment repeats a value
    col.rule("R-DEGENERATE", "a branch is treated as degenerate (early return, single point) only on its arc length: no early return under a comparison of the first with the last point "
             "(a closed loop ends where it starts and has length); no scipy interpolator that requires strictly increasing abscissae (interp1d, CubicSpline, splrep, PchipInterpolator, "
             "Akima1DInterpolator) over the cumulative arc length -- a zero-length segment repeats an abscissa and yields NaN (zero expected)", floor=0)
    n_dg = 0
    for d in ctx.repo.all_defs():
        if d.module.name not in RES or d.is_lambda:
            continue
        for i_ in own_nodes(d):
            if isinstance(i_, ast.If) and i_.body and isinstance(i_.body[-1], ast.Return):
                t_ = norm_src(i_.test)
                ends = [x for x in ast.walk(i_.test) if isinstance(x, ast.Subscript) and norm_src(x.slice).split(",")[0].strip("() ") in ("0", "-1")]
                bases = {norm_src(x.value) for x in ends}
                firsts = any(norm_src(x.slice).split(",")[0].strip("() ") == "0" for x in ends)
                lasts = any(norm_src(x.slice).split(",")[0].strip("() ") == "-1" for x in ends)
                if firsts and lasts and len(bases) == 1 and any(k in t_ for k in ("array_equal", "allclose", "isclose", "==", "norm")) and not any(k in t_ for k in ("cumul", "length", "dist")):
                    n_dg += 1
                    col.bad("R-DEGENERATE", d.qualname, d.loc(i_), "only a branch without length is degenerate",
                            f"`if {t_[:70]}: return ...` decides from the two end points: a branch that ends where it starts (a tip curling back onto its furcation, two coincident furcations) "
                            f"has a positive length and is collapsed to a point", stmt="degenerate-ends", definite=True)
        for c in own_nodes(d):
            if isinstance(c, ast.Call) and (dotted(c.func) or "").rsplit(".", 1)[-1] in ("interp1d", "CubicSpline", "splrep", "PchipInterpolator", "Akima1DInterpolator", "make_interp_spline"):
                n_dg += 1
                col.bad("R-DEGENERATE", d.qualname, d.loc(c), "interpolation tolerates repeated abscissae",
                        f"`{norm_src(c)[:70]}` requires strictly increasing abscissae (it divides by their differences): the arc length of a branch that stores a point twice repeats a value, "
                        f"and the resampled branch comes out NaN (np.interp does not divide where the step is zero)", stmt="degenerate-interp", definite=True)
    if not n_dg:
        col.ok("R-DEGENERATE", "swcgeom.transforms", "swcgeom/transforms/branch.py:1", "degeneracy is decided on the arc length; interpolation tolerates repeated abscissae", f"{n_defs} functions scanned", stmt="degenerate")
    if not n_ch:
        col.ok("R-CHORD", "swcgeom.transforms", "swcgeom/transforms/branch.py:1", "the spacing is measured along the branch", f"{n_defs} functions scanned, no spacing/chord comparison", stmt="chord")
    if not n_bd:
        col.ok("R-BUFDTYPE", "swcgeom.transforms", "swcgeom/transforms/branch.py:1", "interpolated values keep their fractional part", f"{n_defs} functions scanned", stmt="buf-dtype")


def run(ctx, col, tier):
    repo = ctx.repo
    col.guard(_measures, ctx, col)
    from ..rules import normaxis as _normaxis
    _normaxis.run(ctx, col, ('swcgeom.analysis.volume', 'swcgeom.utils.volumetric_object', 'swcgeom.utils.solid_geometry', 'swcgeom.analysis.features', 'swcgeom.analysis.lmeasure', 'swcgeom.analysis.sholl', 'swcgeom.core.tree', 'swcgeom.core.path', 'swcgeom.core.branch', 'swcgeom.transforms.branch', 'swcgeom.transforms.branch_tree'))
    col.rule("R-SHAPE", "every operand of np.concatenate in the resamplers has rank >= 1 (abstract "
             "shapes; a scalar taken with [-1] from a 1-D array has rank 0)", floor=2)
    col.rule("R-ARGDISC", "generic tree->tree code on the resampling / smoothing paths calls soma() "
             "only with type_check=False: the property quantifies over any root type", floor=2)
    col.rule("R-TRIM", "re-assembly trims a duplicated branch end point symmetrically: under the "
             "coincidence test one element is dropped, otherwise none -- at the start and at the end",
             floor=2, exhaustive=True, shape=True)
    col.rule("R-WRITESET", "smoothers store only to x, y, z, and only to the interior slice 1:-1 "
             "(end points, radii, ids untouched)", floor=3, shape=True)
    col.rule("R-XYZ", "the interpolation calls share abscissae and differ only in the column "
             "(x, y, z and r are resampled alike)", floor=2, shape=True)
    col.rule("R-SPACING", "sample count / positions: n = ceil(length / spacing) + 1 equally spaced "
             "arc-length positions from 0 to the total length (end points kept); linear resampler "
             "uses linspace(0, length, n)", floor=4, shape=True)
    col.rule("R-ASSEMBLE", "re-assembly numbering: new ids are consecutive positions in the output "
             "list, each node's parent is its predecessor, the first node of a branch hangs on the "
             "already emitted start node, children continue from the branch's last node", floor=5, shape=True)
    col.rule("R-ARCLEN", "every result of a branch resampler depends on the arc length of the "
             "polyline (def-use closure from the cumulative segment lengths): no return path -- in "
             "particular no shortcut -- is decided by, or built from, anything but positions "
             "along the path", floor=2)
    col.rule("R-STATE", "applying a transform leaves the transform object unchanged: no method other than __init__ "
             "assigns to self or mutates a container held by self without undoing it (stale removal lists, "
             "a matrix conjugated twice, a cached array shared between results); zero expected, positive examples kept", floor=1)
    col.rule("R-PURE", "inputs untouched, results fresh", floor=3)
    col.not_decided += ["equal arc-length spacing / 'length never grows' / linearity of radii as numeric statements",
                        "scipy.signal.convolve behaviour"]

    from ..rules import ignoredparam
    ignoredparam.run(ctx, col, ('swcgeom.transforms.branch', 'swcgeom.transforms.branch_tree', 'swcgeom.transforms.tree'))
    from ..rules import zerolen
    zerolen.run(ctx, col, ('swcgeom.transforms.branch', 'swcgeom.transforms.branch_tree', 'swcgeom.transforms.tree'))
    col.guard(one_to_one, ctx, col)
    col.guard(positional_trim, ctx, col)
    from ..rules import orderdep as _orderdep
    col.rule("R-ORDER", "the decomposition the resamplers and smoothers work on does not depend on the node numbering: no recurrence along the row order (either direction) in "
             "the branch / path decomposition and the resampling code", floor=1)
    col.guard(_orderdep.check, ctx, col, "R-ORDER", ("swcgeom.core.tree", "swcgeom.core.branch_tree", "swcgeom.transforms.branch", "swcgeom.transforms.branch_tree",
                                                     "swcgeom.transforms.tree"), "decomposition and resampling code")
    col.guard(anchored, ctx, col)
    col.guard(shapes, ctx, col)
    col.guard(argdisc, ctx, col)
    col.guard(trim, ctx, col)
    col.guard(writeset, ctx, col)
    col.guard(interp_family, ctx, col)
    col.guard(spacing, ctx, col)
    from ..rules import stateless
    col.guard(stateless.check, ctx, col, "R-STATE", ("swcgeom.transforms.tree", "swcgeom.transforms.geometry", "swcgeom.transforms.branch", "swcgeom.transforms.branch_tree", "swcgeom.transforms.base", "swcgeom.transforms.path", "swcgeom.transforms.population"))
    col.guard(arclen, ctx, col)
    col.guard(assemble, ctx, col)
    for cq, q in (("swcgeom.transforms.tree.IsometricResampler", "swcgeom.transforms.tree.Resampler.__call__"),
                  ("swcgeom.transforms.tree.TreeSmoother", "swcgeom.transforms.tree.TreeSmoother.__call__"),
                  (f"{BR}.BranchConvSmoother", f"{BR}.BranchConvSmoother.__call__")):
        d = repo.get_def(q)
        I, r, _ = analyse(ctx, d, repo.get_class(cq))
        fresh = isinstance(r, own.Obj) and not own.storage_owners(r)
        col.check(not I.effects and fresh, "R-PURE", cq, d.loc(), "input untouched, result fresh", "",
                  (f"write through an input alias at {I.effects[0].where()}: `{norm_src(I.effects[0].node)[:50]}`"
                   if I.effects else "result shares storage with the input"), stmt="pure")


def shapes(ctx, col):
    repo = ctx.repo
    for q in (f"{BR}.BranchIsometricResampler.resample", f"{BR}.BranchLinearResampler.resample"):
        d = repo.get_def(q)
        S = Shapes(ctx, d, {"xyzr": (None, 4)}).run()
        cats = [n for n in own_nodes(d) if isinstance(n, ast.Call) and (dotted(n.func) or "").endswith(("concatenate", "insert", "stack"))]
        errs = [e for e in S.errors]
        if errs:
            for e in errs[:2]:
                col.bad("R-SHAPE", q, d.loc(e.node), f"`{norm_src(e.node)[:60]}`", e.msg + " -- raises ValueError whenever this line runs",
                        stmt=norm_src(e.node)[:80])
        else:
            col.ok("R-SHAPE", q, d.loc(), f"{len(cats)} array-joining call(s) shape-consistent",
                   "; ".join(f"{k}:{v}" for k, v in S.env.items() if v != UNKNOWN)[:200], stmt="shapes")


def argdisc(ctx, col):
    repo, cg = ctx.repo, ctx.cg
    entries = [repo.get_def("swcgeom.transforms.tree.Resampler.__call__"),
               repo.get_def("swcgeom.transforms.tree.TreeSmoother.__call__"),
               repo.get_def(f"{ASM}.__call__")]
    order, _ = cg.reachable_cs([(d, d.cls) for d in entries])
    seen = set()
    n = 0
    for d, _k in order:
        if d in seen or not d.module.name.startswith("swcgeom.transforms"):
            continue
        seen.add(d)
        for c in own_nodes(d):
            if isinstance(c, ast.Call) and isinstance(c.func, ast.Attribute) and c.func.attr == "soma":
                n += 1
                tc = kwarg(c, "type_check") or (c.args[0] if c.args else None)
                ok = tc is not None and isinstance(tc, ast.Constant) and tc.value is False
                col.check(ok, "R-ARGDISC", d.qualname, d.loc(c), f"`{norm_src(c)}`", "type_check=False",
                          f"`{norm_src(c)}` keeps the default type check: a tree whose root is not typed as soma "
                          f"is rejected with ValueError", stmt=norm_src(c))
    col.analysed["soma_calls_on_paths"] = n


def _drop_count(e):
    """Elements dropped by a slice bound: start s -> s ; stop e -> -e (None -> 0)."""
    if isinstance(e, ast.Constant) and e.value is None:
        return 0
    v = const_int(e)
    return None if v is None else abs(v)


def trim(ctx, col):
    repo = ctx.repo
    d = repo.get_def(f"{ASM}.__call__")
    src = {norm_src(n.targets[0]): n for n in own_nodes(d) if isinstance(n, ast.Assign)}
    sl = [n for n in own_nodes(d) if isinstance(n, ast.Subscript) and isinstance(n.slice, ast.Slice)
          and norm_src(n.value) == "br" and n.slice.lower is not None]
    if len(sl) != 1:
        raise AnalysisError("anchor-vanished: the `br[s:e]` trimming slice of the assembler")
    lo, hi = sl[0].slice.lower, sl[0].slice.upper
    for side, bound, end_expr in (("start", lo, "br[0]"), ("end", hi, "br[-1]")):
        if bound is None:
            col.check(True, "R-TRIM", d.qualname, d.loc(sl[0]), f"{side}: nothing trimmed", "", stmt=side)
            continue
        a = src.get(norm_src(bound)) if isinstance(bound, ast.Name) else None
        v = a.value if a is not None else bound
        if not isinstance(v, ast.IfExp):
            col.unresolved("R-TRIM", d.qualname, d.loc(sl[0]), f"{side} trim", f"`{norm_src(v)}` is not a conditional", stmt=side)
            continue
        yes, no = _drop_count(v.body), _drop_count(v.orelse)
        tnode = v.test
        if isinstance(tnode, ast.UnaryOp) and isinstance(tnode.op, ast.Not):
            tnode = tnode.operand
            yes, no = no, yes
        test = norm_src(tnode)
        tests_coincidence = "np.linalg.norm(" in test and end_expr in test and "< self.EPS" in test
        if yes is None or no is None:
            col.unresolved("R-TRIM", d.qualname, d.loc(a or sl[0]), f"{side} trim", f"cannot read the bounds of `{norm_src(v)}`", stmt=side)
            continue
        col.check(tests_coincidence and (yes, no) == (1, 0), "R-TRIM", d.qualname, d.loc(a or sl[0]),
                  f"{side}: drop 1 sample iff the branch's {side} point duplicates the tree node, else 0",
                  f"drops {yes}/{no}", f"`{norm_src(a) if a is not None else norm_src(v)}` drops {yes} sample(s) when the {side} point "
                  f"coincides and {no} otherwise (expected 1/0): " + ("a resampled point is lost on every branch"
                                                                      if (yes, no) == (2, 1) else "duplicate or missing points"),
                  stmt=side)
    # the end node c is appended after the trimmed samples
    bn = src.get("br_nodes")
    ok = bn is not None and norm_src(bn.value) == "[n.detach() for n in br[s:e]] + [c.detach()]"
    col.check(ok, "R-TRIM", d.qualname, d.loc(bn) if bn is not None else d.loc(), "trimmed samples are followed by the branch's end node",
              norm_src(bn.value) if bn is not None else "", "br_nodes is not trimmed samples + [end node]", stmt="append-end")


def writeset(ctx, col):
    repo = ctx.repo
    d = repo.get_def(f"{BR}.BranchConvSmoother.__call__")
    stores = [n for n in own_nodes(d) if isinstance(n, ast.Assign) and isinstance(n.targets[0], ast.Subscript)]
    keys = None
    for n in own_nodes(d):
        if isinstance(n, ast.For) and isinstance(n.iter, (ast.List, ast.Tuple)):
            keys = [e.value for e in n.iter.elts if isinstance(e, ast.Constant)]
    ok = keys == ["x", "y", "z"]
    col.check(ok, "R-WRITESET", d.qualname, d.loc(), "smoothed columns are x, y, z", str(keys), f"columns {keys}", stmt="cols")
    ok = len(stores) == 1 and norm_src(stores[0].targets[0]) == "x.attach.ndata[k][1:-1]" and norm_src(stores[0].value) == "(s / c)[1:-1]"
    col.check(ok, "R-WRITESET", d.qualname, d.loc(stores[0]) if stores else d.loc(), "only the interior 1:-1 is overwritten, by the same interior of the moving average",
              norm_src(stores[0]) if stores else "", f"store is `{norm_src(stores[0]) if stores else None}`: end points can move", stmt="interior")
    first = [s for s in d.node.body if not (isinstance(s, ast.Expr) and isinstance(s.value, ast.Constant))][0]
    col.check(norm_src(first) == "x = x.detach()", "R-WRITESET", d.qualname, d.loc(first), "works on a detached copy", "", "first statement is not x = x.detach()", stmt="detach")
    t = repo.get_def("swcgeom.transforms.tree.TreeSmoother.__call__")
    st = ndata_store_keys(ctx, t)
    keys = set()
    for s, k in st:
        keys |= (k or {"?"})
    fam = [s for s, k in st]
    okf, detail = xyz.family(fam)
    col.check(keys == {"x", "y", "z"} and bool(okf), "R-WRITESET", t.qualname, t.loc(), "tree smoother writes x, y, z of its copy at the branch's own node ids (one family)",
              detail, f"keys {sorted(keys)}; {detail}", stmt="tree-smoother")


def interp_family(ctx, col):
    repo = ctx.repo
    d = repo.get_def(f"{BR}.BranchLinearResampler.resample")
    calls = [n for n in own_nodes(d) if isinstance(n, ast.Call) and dotted(n.func) == "np.interp"]
    ok = len(calls) == 4 and len({(norm_src(c.args[0]), norm_src(c.args[1])) for c in calls}) == 1 and \
        [norm_src(c.args[2]) for c in calls] == [f"xyzr[:, {i}]" for i in range(4)]
    col.check(ok, "R-XYZ", d.qualname, d.loc(), "x, y, z, r interpolated at the same positions over the same abscissae, columns 0..3",
              "", f"interp calls: {[norm_src(c) for c in calls]}", stmt="linear")
    rets = [n for n in own_nodes(d) if isinstance(n, ast.Return)]
    ok = len(rets) == 1 and "np.stack([x, y, z, r], axis=1)" in norm_src(rets[0].value)
    col.check(ok, "R-XYZ", d.qualname, d.loc(), "columns re-stacked in x, y, z, r order", "", "result is not stack([x, y, z, r], axis=1)", stmt="stack")
    d = repo.get_def(f"{BR}.BranchIsometricResampler.resample")
    calls = [n for n in own_nodes(d) if isinstance(n, ast.Call) and dotted(n.func) == "np.interp"]
    ok = len(calls) == 2 and len({(norm_src(c.args[0]), norm_src(c.args[1])) for c in calls}) == 1 and \
        sorted(norm_src(c.args[2]) for c in calls) == ["xyzr[:, 3]", "xyzr[:, i]"]
    rng = [n for n in own_nodes(d) if isinstance(n, ast.comprehension) and norm_src(n.iter) == "range(3)"]
    tgt = [n for n in own_nodes(d) if isinstance(n, ast.Assign) and isinstance(n.targets[0], ast.Subscript)]
    ok = ok and len(rng) == 1 and sorted(norm_src(t.targets[0]) for t in tgt) == ["new_xyzr[:, 3]", "new_xyzr[:, :3]"]
    col.check(bool(ok), "R-XYZ", d.qualname, d.loc(), "coordinates (columns 0..2) and radius (column 3) interpolated alike and stored to the same columns",
              "", f"interp calls: {[norm_src(c) for c in calls]}", stmt="isometric")


def spacing(ctx, col):
    repo = ctx.repo
    d = repo.get_def(f"{BR}.BranchIsometricResampler.resample")
    src = {norm_src(n.targets[0]): [] for n in own_nodes(d) if isinstance(n, ast.Assign)}
    for n in own_nodes(d):
        if isinstance(n, ast.Assign):
            src[norm_src(n.targets[0])].append(norm_src(n.value))
    ok = src.get("n_nodes") == ["int(np.ceil(total_length / self.distance)) + 1"]
    col.check(ok, "R-SPACING", d.qualname, d.loc(), "n = ceil(length / spacing) + 1 (so the step is at most the spacing)",
              str(src.get("n_nodes")), f"n_nodes = {src.get('n_nodes')}", stmt="count")
    ok = src.get("total_length") == ["cumulative_distances[-1]"] and \
        src.get("cumulative_distances") == ["np.concatenate([[0], np.cumsum(distances)])"] and \
        src.get("distances") == ["np.sqrt((diffs ** 2).sum(axis=1))"] and src.get("diffs") == ["np.diff(xyzr[:, :3], axis=0)"]
    col.check(ok, "R-SPACING", d.qualname, d.loc(), "arc length = cumulative Euclidean length of the original polyline, starting at 0",
              "", "arc-length parametrisation differs", stmt="arclength")
    nd = src.get("new_distances", [])
    ok = len(nd) >= 2 and nd[0] == "np.linspace(0, total_length, n_nodes)" and nd[1] == "np.arange(0, total_length, self.distance)"
    col.check(ok, "R-SPACING", d.qualname, d.loc(), "positions: linspace(0, L, n) (adjusted) or arange(0, L, spacing) plus the end point",
              str(nd), f"positions {nd}", stmt="positions")
    l = repo.get_def(f"{BR}.BranchLinearResampler.resample")
    src = {norm_src(n.targets[0]): [] for n in own_nodes(l) if isinstance(n, ast.Assign)}
    for n in own_nodes(l):
        if isinstance(n, ast.Assign):
            src[norm_src(n.targets[0])].append(norm_src(n.value))
    ok = src.get("xvals") == ["np.linspace(0, xp[-1], self.n_nodes)"] and \
        src.get("xp") == ["np.cumsum(np.linalg.norm(xyzr[1:, :3] - xyzr[:-1, :3], axis=1))", "np.insert(xp, 0, 0)"]
    col.check(ok, "R-SPACING", l.qualname, l.loc(), "linear resampler: n positions from 0 to the total arc length (end points kept)",
              "", f"xvals {src.get('xvals')} / xp {src.get('xp')}", stmt="linear")
    r = repo.get_def("swcgeom.transforms.tree.Resampler.__call__")
    body = [norm_src(s) for s in r.node.body]
    ok = body == ["t = BranchTree.from_tree(x)",
                  "t.branches = {k: [self.resampler(br) for br in brs] for k, brs in t.branches.items()}",
                  "return self.assembler(t)"]
    col.check(ok, "R-SPACING", r.qualname, r.loc(), "every branch of the branch tree is resampled on its own and the tree re-assembled "
              "(root, furcations, tips are the branch tree's nodes and are kept)", "", f"body {body}", stmt="per-branch")


def assemble(ctx, col):
    repo = ctx.repo
    d = repo.get_def(f"{ASM}.__call__")
    src = norm_src(d.node)
    loops = [n for n in own_nodes(d) if isinstance(n, ast.For) and norm_src(n.iter) == "enumerate(br_nodes)"]
    ok = len(loops) == 1 and [norm_src(s) for s in loops[0].body] == ["n.id = len(nodes) + i", "n.pid = len(nodes) + i - 1"]
    col.check(ok, "R-ASSEMBLE", d.qualname, d.loc(loops[0]) if loops else d.loc(), "new id = position in the output list; parent = predecessor",
              "", "re-indexing loop differs from id = len(nodes) + i, pid = id - 1", stmt="reindex")
    after = None
    if loops:
        par = repo.parent(loops[0])
        body = par.body
        i = body.index(loops[0])
        after = [norm_src(s) for s in body[i + 1:]]
    ok = after == ["br_nodes[0].pid = pid_new", "nodes.extend(br_nodes)", "stack.append((c, br_nodes[-1].id))"]
    col.check(ok, "R-ASSEMBLE", d.qualname, d.loc(), "first node hangs on the start node's new id; nodes emitted in order; children continue from the end node's new id",
              str(after), f"statements after the re-indexing loop: {after}", stmt="link")
    ok = "nodes = [x.soma(type_check=False).detach()]" in src or "nodes = [x.soma().detach()]" in src
    ok = ok and ("stack = [(x.soma(type_check=False), 0)]" in src or "stack = [(x.soma(), 0)]" in src)
    col.check(ok, "R-ASSEMBLE", d.qualname, d.loc(), "output starts with a copy of the root, which gets new id 0", "", "initial nodes/stack differ", stmt="root")
    ok = "for br, c in self.pair(x.branches.get(n_orig.id, []), children):" in src and "children = n_orig.children()" in src
    col.check(ok, "R-ASSEMBLE", d.qualname, d.loc(), "each branch leaving a node is paired with one child of that node in the branch tree", "",
              "pairing loop differs", stmt="pairing")
    p = repo.get_def(f"{ASM}.pair")
    ps = norm_src(p.node)
    ok = "assert len(branches) == len(endpoints)" in ps and "xyz1 = [br[-1].xyz() for br in branches]" in ps and \
        "dis[min_branch_idx, :] = np.inf" in ps and "dis[:, min_endpoint_idx] = np.inf" in ps
    col.check(ok, "R-ASSEMBLE", p.qualname, p.loc(), "pairing is one-to-one by nearest branch end / child position, each used once", "",
              "pair() differs from the greedy one-to-one matching", stmt="pair")
    rets = [n for n in own_nodes(d) if isinstance(n, ast.Return)]
    ok = len(rets) == 1 and "k: np.array([n.__getattribute__(k) for n in nodes]) for k in x.names.cols()" in norm_src(rets[0].value) \
        and norm_src(rets[0].value).startswith("Tree(len(nodes)")
    col.check(ok, "R-ASSEMBLE", d.qualname, d.loc(rets[0]) if rets else d.loc(), "the tree is built from the emitted nodes in order, all seven columns",
              "", "result is not Tree(len(nodes), {k: [n.k for n in nodes]})", stmt="build")


def arclen(ctx, col):
    """R-ARCLEN: returns of the branch resamplers depend on the cumulative segment lengths."""
    repo = ctx.repo
    for q in ("swcgeom.transforms.branch.BranchLinearResampler.resample",
              "swcgeom.transforms.branch.BranchIsometricResampler.resample"):
        d = repo.get_def(q)
        deps: dict = {}
        for n in own_nodes(d):
            tgts, val = [], None
            if isinstance(n, ast.Assign):
                tgts, val = n.targets, n.value
            elif isinstance(n, ast.AugAssign):
                tgts, val = [n.target], n.value
            elif isinstance(n, ast.AnnAssign) and n.value is not None:
                tgts, val = [n.target], n.value
            for t in tgts:
                base = t
                while isinstance(base, (ast.Subscript, ast.Attribute)):
                    base = base.value
                if isinstance(base, ast.Name) and val is not None:
                    deps.setdefault(base.id, []).append(val)
        seeds = {k for k, vs in deps.items() if any(isinstance(c, ast.Call) and (dotted(c.func) or "").endswith("cumsum")
                                                     for v in vs for c in ast.walk(v))}
        if not seeds:
            col.unresolved("R-ARCLEN", q, d.loc(), "arc-length parametrisation", "no cumulative sum of segment lengths found", stmt="seed")
            continue
        arc = set(seeds)
        changed = True
        while changed:
            changed = False
            for k, vs in deps.items():
                if k not in arc and any(isinstance(x, ast.Name) and x.id in arc for v in vs for x in ast.walk(v)):
                    arc.add(k)
                    changed = True

        def depends(e):
            return any(isinstance(x, ast.Name) and x.id in arc for x in ast.walk(e))
        rets = [r for r in own_nodes(d) if isinstance(r, ast.Return) and r.value is not None]
        for r in rets:
            guards = []
            cur = repo.parent(r)
            child = r
            while cur is not None and cur is not d.node:
                if isinstance(cur, (ast.If, ast.While)):
                    guards.append(cur.test)
                child, cur = cur, repo.parent(cur)
            ok = depends(r.value) or any(depends(g) for g in guards)
            col.check(ok, "R-ARCLEN", q, d.loc(r), "result depends on the arc length of the branch",
                      f"arc-length variables: {sorted(arc)}",
                      f"`{norm_src(r)[:70]}`" + (f" under `{norm_src(guards[0])[:70]}`" if guards else "") +
                      " is neither computed from nor guarded by the cumulative path length: the shortcut ignores how long "
                      "the polyline between the two ends is", stmt="ret:" + norm_src(r.value)[:50])


def names_in_expr(e):
    return {x.id for x in ast.walk(e) if isinstance(x, ast.Name)}


def anchored(ctx, col):
    """Statements that carry the clauses, matched three-way under one renaming per function."""
    repo = ctx.repo
    a = repo.get_def("swcgeom.transforms.branch_tree.BranchTreeAssembler.__call__")
    col.text_group("R-ASSEMBLE", a.qualname, a, [
        ("output starts with a copy of the root (any root type) ...", ["nodes = [x.soma(type_check=False).detach()]"], "init-nodes"),
        ("... which gets new id 0", ["stack = [(x.soma(type_check=False), 0)]"], "init-stack"),
        ("frames are (node of the branch tree, its new id)", ["n_orig, pid_new = stack.pop()"], "pop"),
        ("each branch leaving a node is paired with one child of that node", ["for br, c in self.pair(x.branches.get(n_orig.id, []), children): pass"], "pairing") if False else
        ("the children of the node in the branch tree", ["children = n_orig.children()"], "children"),
        ("new id = position in the output list", ["n.id = len(nodes) + i"], "new-id"),
        ("parent = predecessor in the output list", ["n.pid = len(nodes) + i - 1"], "new-pid"),
        ("the first emitted node of a branch hangs on the start node's new id -- whichever node that is (a resampled point or, for a "
         "branch without interior samples, the end node itself)", ["br_nodes[0].pid = pid_new"], "first-parent"),
        ("nodes are emitted in order", ["nodes.extend(br_nodes)"], "emit"),
        ("the subtree continues from the end node's new id", ["stack.append((c, br_nodes[-1].id))"], "continue"),
    ], fixed=("x",))
    col.text_group("R-TRIM", a.qualname, a, [
        ("the first sample is dropped iff it coincides with the start node", ["s = 1 if np.linalg.norm(br[0].xyz() - n_orig.xyz()) < self.EPS else 0"], "start"),
        ("the last sample is dropped iff it coincides with the end node", ["e = -1 if np.linalg.norm(br[-1].xyz() - c.xyz()) < self.EPS else None"], "end"),
        ("trimmed samples are followed by the branch's end node", ["br_nodes = [n.detach() for n in br[s:e]] + [c.detach()]"], "body"),
    ])
    # the re-parenting of the first emitted node must be unconditional: guarded by "there are interior samples" it
    # leaves a short branch's end node hanging on whatever was emitted last
    for n in own_nodes(a):
        if isinstance(n, ast.If) and any(isinstance(st, ast.Assign) and isinstance(st.targets[0], ast.Attribute) and st.targets[0].attr == "pid"
                                         and norm_src(st.value) == "pid_new" for st in n.body) and "len(" in norm_src(n.test):
            col.bad("R-ASSEMBLE", a.qualname, a.loc(n), "the first emitted node of a branch hangs on the start node's new id",
                    f"`if {norm_src(n.test)}:` re-parents only when the branch has interior samples: the end node of a branch resampled to its two "
                    f"ends keeps `pid = id - 1` and attaches to whatever node was emitted before it", stmt="first-parent", definite=True)
    pr = repo.get_def("swcgeom.transforms.branch_tree.BranchTreeAssembler.pair")
    col.text_group("R-ASSEMBLE", pr.qualname, pr, [
        ("pairing is by distance between branch end and child position", ["v = np.reshape(xyz1, (-1, 1, 3)) - np.reshape(xyz2, (1, -1, 3))"], "dist"),
        ("the closest remaining pair is taken", ["min_idx = np.argmin(dis)"], "argmin"),
        ("each branch is used once", ["dis[min_branch_idx, :] = np.inf"], "used-branch"),
        ("each end node is used once", ["dis[:, min_endpoint_idx] = np.inf"], "used-end"),
    ])
    # one-to-one: both the row and the column of a chosen pair must be closed
    closes = [x for x in own_nodes(pr) if isinstance(x, ast.Assign) and isinstance(x.targets[0], ast.Subscript) and "inf" in norm_src(x.value)]
    per_branch = any(isinstance(x, ast.Call) and (dotted(x.func) or "").endswith("argmin") and any(k.arg == "axis" for k in x.keywords) for x in own_nodes(pr)) \
        or any(isinstance(lp, ast.For) and "dis" in names_in_expr(lp.iter) and any(isinstance(x, ast.Call) and (dotted(x.func) or "").endswith("argmin")
                                                                                    for x in ast.walk(lp)) for lp in own_nodes(pr))
    if per_branch and len(closes) < 2:
        col.bad("R-ASSEMBLE", pr.qualname, pr.loc(), "pairing is one-to-one: each branch and each end node is used once",
                "every branch independently takes its nearest end node (argmin along one axis, nothing closed): two branches whose ends coincide "
                "take the same end node and the other subtree is lost or emitted twice", stmt="one-to-one", definite=True)
    sm = repo.get_def("swcgeom.transforms.branch.BranchConvSmoother.__call__")
    col.text_group("R-WRITESET", sm.qualname, sm, [
        ("works on a detached copy", ["x = x.detach()"], "detach"),
        ("only x, y, z are smoothed", ["for k in ['x', 'y', 'z']: pass"], "cols") if False else
        ("only the interior 1:-1 is overwritten, by the same interior of the smoothed values", ["x.attach.ndata[k][1:-1] = (s / c)[1:-1]"], "interior"),
    ])
    for lp in [n for n in own_nodes(sm) if isinstance(n, ast.For)]:
        if isinstance(lp.iter, (ast.List, ast.Tuple)) and all(isinstance(e, ast.Constant) for e in lp.iter.elts):
            keys = [e.value for e in lp.iter.elts]
            col.check(set(keys) == {"x", "y", "z"}, "R-WRITESET", sm.qualname, sm.loc(lp), "smoothed columns are exactly x, y, z", str(keys),
                      f"the smoother runs over columns {keys}: radii / other attributes are changed (or a coordinate is not smoothed)",
                      stmt="cols", definite=True)
    ts = repo.get_def("swcgeom.transforms.tree.TreeSmoother.__call__")
    col.text_group("R-WRITESET", ts.qualname, ts, [
        ("works on a copy", ["x = x.copy()"], "copy"),
        ("x of the branch's own nodes", ["x.ndata['x'][br.origin_id()] = smoothed.x()"], "x"),
        ("y", ["x.ndata['y'][br.origin_id()] = smoothed.y()"], "y"),
        ("z", ["x.ndata['z'][br.origin_id()] = smoothed.z()"], "z"),
    ])
    iso = repo.get_def("swcgeom.transforms.branch.BranchIsometricResampler.resample")
    col.text_group("R-SPACING", iso.qualname, iso, [
        ("segment vectors of the original polyline", ["diffs = np.diff(xyzr[:, :3], axis=0)"], "diffs"),
        ("their Euclidean lengths", ["distances = np.sqrt((diffs ** 2).sum(axis=1))", "distances = np.linalg.norm(diffs, axis=1)"], "lens"),
        ("arc length = cumulative length starting at 0", ["cumulative_distances = np.concatenate([[0], np.cumsum(distances)])"], "cum"),
        ("total length", ["total_length = cumulative_distances[-1]"], "total"),
        ("n = ceil(length / spacing) + 1 (so the step is at most the spacing)", ["n_nodes = int(np.ceil(total_length / self.distance)) + 1"], "count"),
        ("positions: equal steps from 0 to the total length", ["new_distances = np.linspace(0, total_length, n_nodes)"], "linspace"),
        ("radius interpolated at the same positions over the same abscissae", ["new_xyzr[:, 3] = np.interp(new_distances, cumulative_distances, xyzr[:, 3])"], "radius"),
    ], fixed=("xyzr",))
    lin = repo.get_def("swcgeom.transforms.branch.BranchLinearResampler.resample")
    col.text_group("R-SPACING", lin.qualname, lin, [
        ("arc length of the original polyline", ["xp = np.cumsum(np.linalg.norm(xyzr[1:, :3] - xyzr[:-1, :3], axis=1))"], "cum"),
        ("starting at 0", ["xp = np.insert(xp, 0, 0)"], "zero"),
        ("n positions from 0 to the total arc length (end points kept)", ["xvals = np.linspace(0, xp[-1], self.n_nodes)"], "positions"),
        ("x", ["x = np.interp(xvals, xp, xyzr[:, 0])"], "x"), ("y", ["y = np.interp(xvals, xp, xyzr[:, 1])"], "y"),
        ("z", ["z = np.interp(xvals, xp, xyzr[:, 2])"], "z"), ("r", ["r = np.interp(xvals, xp, xyzr[:, 3])"], "r"),
    ], fixed=("xyzr",))
    # hand-rolled interpolation: a division by the local segment length without a guard is 0/0 on a zero-length segment
    for d in (iso, lin):
        uses_interp = any(isinstance(c, ast.Call) and (dotted(c.func) or "").endswith("interp") for c in own_nodes(d))
        divs = [b for b in own_nodes(d) if isinstance(b, ast.BinOp) and isinstance(b.op, ast.Div)
                and any(isinstance(x, ast.Subscript) for x in ast.walk(b.right)) and not isinstance(b.right, ast.Attribute)]
        if not uses_interp and divs:
            col.bad("R-SPACING", d.qualname, d.loc(divs[0]), "interpolation is defined on zero-length segments too (np.interp)",
                    f"`{norm_src(divs[0])[:80]}` divides by the length of the located segment: on a zero-length segment (a repeated node) this "
                    f"is 0/0 and the sample -- e.g. the end point -- becomes NaN", stmt="interp", definite=True)



def one_to_one(ctx, col):
    """Pairing resampled branches with the end nodes they lead to must be a one-to-one matching."""
    col.rule("R-ONE2ONE", "re-assembly pairs the branches leaving a node one-to-one with that node's children: no per-row / per-column arg-min (every "
             "branch choosing its nearest end node independently gives two branches the same end node as soon as two ends coincide or tie, and leaves "
             "another child unmatched -- its subtree is dropped and the other one duplicated)", floor=1)
    d = ctx.repo.get_def("swcgeom.transforms.branch_tree.BranchTreeAssembler.pair")
    hits = 0
    for c in own_nodes(d):
        if isinstance(c, ast.Call) and (dotted(c.func) or "").rsplit(".", 1)[-1] in ("argmin", "argmax", "argsort", "nanargmin"):
            has_recv = isinstance(c.func, ast.Attribute) and not (dotted(c.func) or "").startswith(("np.", "numpy."))
            axis = next((k.value for k in c.keywords if k.arg == "axis"), None)
            if axis is None and len(c.args) >= (1 if has_recv else 2):
                axis = c.args[0 if has_recv else 1]
            if axis is not None and not (isinstance(axis, ast.Constant) and axis.value is None):
                hits += 1
                col.bad("R-ONE2ONE", d.qualname, d.loc(c), "branches and end nodes are matched one-to-one",
                        f"`{norm_src(c)}` lets every branch (row) pick its nearest end node independently: nothing prevents two branches from picking the same "
                        f"end node (coincident or tied end points), so one child of the furcation is emitted twice and another one, with its whole subtree, is lost",
                        stmt="pair:axis-argmin", definite=True)
    if not hits:
        col.ok("R-ONE2ONE", d.qualname, d.loc(), "branches and end nodes are matched one-to-one", "no per-row arg-min in the pairing", stmt="pair:axis-argmin")



def positional_trim(ctx, col):
    """The resampled twins of a branch's two end nodes are its FIRST and LAST sample: they are dropped by position.  Dropping every sample that lies within the tolerance of an
    end node (a mask / a filtered comprehension over all samples) also removes an interior sample wherever the branch passes through the position of one of its own ends again
    (a loop back through the furcation, an overshoot and return to the tip): the step there becomes twice the spacing and the polyline is cut short."""
    col.rule("R-TRIMPOS", "the duplicated end points of a resampled branch are removed by position (first / last sample), never by a value filter over all its samples; zero expected", floor=1)
    d = ctx.repo.get_def("swcgeom.transforms.branch_tree.BranchTreeAssembler.__call__")
    hit = None
    for c in own_nodes(d):
        if isinstance(c, (ast.ListComp, ast.GeneratorExp)) and len(c.generators) == 1:
            g = c.generators[0]
            it = g.iter
            src = it
            if isinstance(it, ast.Name):
                bs = [a.value for a in own_nodes(d) if isinstance(a, ast.Assign) and len(a.targets) == 1 and isinstance(a.targets[0], ast.Name) and a.targets[0].id == it.id]
                src = bs[0] if len(bs) == 1 else it
            by_mask = isinstance(src, ast.Call) and (dotted(src.func) or "").rsplit(".", 1)[-1] in ("flatnonzero", "nonzero", "where", "argwhere")
            by_filter = bool(g.ifs) and any("EPS" in norm_src(t) or "norm" in norm_src(t) or "allclose" in norm_src(t) for t in g.ifs)
            if (by_mask or by_filter) and "detach" in norm_src(c.elt):
                hit = c
        if isinstance(c, ast.Subscript) and isinstance(c.value, ast.Name) and c.value.id == "br" and isinstance(c.slice, ast.Name):
            bs = [a.value for a in own_nodes(d) if isinstance(a, ast.Assign) and len(a.targets) == 1 and isinstance(a.targets[0], ast.Name) and a.targets[0].id == c.slice.id]
            if len(bs) == 1 and isinstance(bs[0], (ast.Compare, ast.BinOp)) and ("EPS" in norm_src(bs[0])):
                hit = c
    what = "duplicated end points are dropped by position, not by value"
    if hit is not None:
        col.bad("R-TRIMPOS", d.qualname, d.loc(hit), what,
                f"`{norm_src(hit)[:80]}` keeps the samples of a resampled branch by a test on their distance to the end nodes: an interior sample that lands on the position of one of the "
                f"branch's own end points (a branch that passes through its furcation or tip again) is dropped too, leaving a step of twice the spacing", stmt="trim-by-value", definite=True)
    else:
        col.ok("R-TRIMPOS", d.qualname, d.loc(), what, "no value filter over the samples of a branch", stmt="trim-by-value")
