"""C11 -- morphometrics do not depend on pose or node numbering (structural clauses)."""

from __future__ import annotations

import ast
import os

from ..geo import Frame, Geo, Obj, S, kind, show
from ..model import Repo, norm_src, own_nodes
from ..rules import orderdep
from ..model import AnalysisError
from . import geosinks

A = "swcgeom.analysis"
SCOPE = (f"{A}.features", f"{A}.lmeasure", f"{A}.sholl", f"{A}.volume", f"{A}.feature_extractor",
         "swcgeom.core.path", "swcgeom.core.tree", "swcgeom.core.node", "swcgeom.core.branch",
         "swcgeom.core.compartment", "swcgeom.core.branch_tree", "swcgeom.core.swc_utils.base",
         "swcgeom.core.swc_utils.subtree", "swcgeom.core.tree_utils_impl")


def run(ctx, col, tier):
    # a sample exactly on a sampling sphere must not be counted for both of its segments: rotating the neuron moves it off the sphere by a rounding error and the profile changes
    from .c10 import sholl_chain_rule as _sholl_chain
    col.guard(_sholl_chain, ctx, col)
    # a translated neuron must survive a write / read cycle with the same shape: the writer keeps a fixed number of DECIMALS (absolute precision), not of significant digits
    col.rule("R-ABSPREC", "coordinates are written with an absolute precision (fixed-point format, `f`): a general / exponent format keeps significant digits, so the same neuron translated "
             "far from the origin loses decimals on writing and its measures change with its position", floor=1)
    try:
        from .c01 import parse_spec as _parse_spec, writer_facts as _writer_facts
        _w, _gv, _fmt, _other = _writer_facts(ctx, col)
        _sp = _parse_spec(_fmt) if _fmt is not None else None
        if _sp is None:
            col.unresolved("R-ABSPREC", _gv.qualname, _gv.loc(), "the written precision does not depend on the position", "float format of the writer not recognised", stmt="absprec")
        else:
            col.check(_sp[2] == "f", "R-ABSPREC", _gv.qualname, _gv.loc(_fmt), "the written precision does not depend on the position", f"spec {_sp[0]!r}",
                      f"floats are written with spec {_sp[0]!r}: that keeps significant digits, not decimals -- a neuron translated by (20000.5, -15000.25, 30000.75) is written with one decimal or none, "
                      f"and its length after reading back differs from the length before", stmt="absprec", definite=True)
    except AnalysisError as _ex:
        col.unresolved("R-ABSPREC", "swcgeom.core.swc_utils.io.to_swc", "swcgeom/core/swc_utils/io.py:1", "the written precision does not depend on the position", str(_ex), stmt="absprec")
    from ..rules import smalllints2 as _s2v
    _s2v.run_allpairs(ctx, col, ('swcgeom.analysis.volume', 'swcgeom.utils.volumetric_object'))
    from ..rules import orderkind as _orderkind
    _orderkind.run(ctx, col, ('swcgeom.analysis.features', 'swcgeom.analysis.lmeasure', 'swcgeom.analysis.sholl', 'swcgeom.analysis.feature_extractor'))
    from ..rules import negidx as _negidx
    _negidx.run(ctx, col, ('swcgeom.analysis.features', 'swcgeom.analysis.lmeasure', 'swcgeom.analysis.sholl', 'swcgeom.analysis.feature_extractor', 'swcgeom.core.tree', 'swcgeom.core.node', 'swcgeom.core.path', 'swcgeom.core.branch', 'swcgeom.transforms.tree'))
    from ..rules import smalllints as _small
    _small.run_atol(ctx, col, ('swcgeom.utils.solid_geometry', 'swcgeom.utils.volumetric_object', 'swcgeom.analysis.volume'))
    col.rule("R-GEO", "geometric typing of every observable (abstract interpretation over kind x "
             "degree): the value is a pose-independent scalar or a count -- no absolute position, "
             "vector or single coordinate reaches it, no norm of an absolute position is taken, "
             "positions enter only through differences -- and it scales with s^k for the k of its "
             "definition (lengths 1, areas 2, volumes 3, ratios/angles/counts 0)", floor=50)
    col.rule("R-CENTRE", "Sholl radii and their extent are taken from the root-centred copy of the "
             "tree (typed as displacements from the root), never from the tree as given", floor=3)
    col.rule("R-ORDER", "no recurrence along the node numbering: no loop over rows in storage order "
             "reads, at the row's parent, an array it fills in that loop (such code is right only "
             "when parents are numbered before children); zero expected, positive examples kept",
             floor=1)
    col.rule("R-MEMO", "no observable is memoised on the tree / node / path object: outside construction and setters no method of a "
             "geometry-carrying class stores to self (copies are deep and coordinates are overwritten in place, so a kept value goes stale); "
             "zero expected, the lint's positive examples are those of the transform-state lint", floor=1)
    col.not_decided += ["floating-point rounding of rotated coordinates", "independence from the "
                        "order of siblings (bifurcation torque uses the stored child order)",
                        "width / height / depth (axis aligned by definition, not in the property)"]
    col.assumptions += ["numpy operations keep the geometric kind as tabulated in sa/geo.py"]
    from ..rules import memo
    memo.run(ctx, col, ('swcgeom.analysis.feature_extractor', 'swcgeom.analysis.features', 'swcgeom.analysis.lmeasure', 'swcgeom.analysis.sholl', 'swcgeom.analysis.volume', 'swcgeom.core.path', 'swcgeom.core.tree', 'swcgeom.core.node', 'swcgeom.core.branch'))
    geo, res = geosinks.check_sinks(ctx, col, "R-GEO")
    geosinks.report(col, "R-GEO", res, repo=ctx.repo)
    col.analysed["geo_summaries"] = len(geo.memo)
    from ..rules import sortedness as _sortedness
    _sortedness.run(ctx, col, ('swcgeom.core.swc_utils.normalizer', 'swcgeom.core.swc_utils.base', 'swcgeom.core.tree', 'swcgeom.core.tree_utils', 'swcgeom.analysis.features', 'swcgeom.analysis.sholl'))
    from ..rules import stateless
    stateless.check_memo(ctx, col, "R-MEMO", ("swcgeom.core.tree", "swcgeom.core.path", "swcgeom.core.node", "swcgeom.core.branch",
                                              "swcgeom.core.compartment", "swcgeom.core.branch_tree", "swcgeom.core.swc", "swcgeom.core.segment"))
    col.rule("R-LINE", "geometry helpers behind get_volume (line-sphere intersection, point projection, the unit vector on a plane) are orientation "
             "independent: the helper direction is never parallel to the normal whatever its signs, the quadratic and the projection are the textbook ones",
             floor=5, shape=True)
    from . import c13 as _c13
    col.guard(_c13.helpers, ctx, col)
    col.guard(centring, ctx, col, geo)
    col.guard(numbering, ctx, col)


def centring(ctx, col, geo: Geo):
    repo = ctx.repo
    R = "R-CENTRE"
    d = repo.get_def(f"{A}.sholl.Sholl.__init__")
    env = {"self": Obj("Sholl"), "tree": Obj("Tree"), "step": S(1)}
    fr = Frame(geo, d, env)
    n0 = len(geo.notes)
    fr.run()
    bads = [b for b in geo.notes[n0:]]
    for field in ("self.rs", "self.rmax"):
        t = fr.env.get(field)
        stmt = next((s for s in ast.walk(d.node) if isinstance(s, ast.Assign) and norm_src(s.targets[0]) == field), None)
        loc = d.loc(stmt) if stmt is not None else d.loc()
        mine = [b for b in bads if stmt is not None and getattr(b[1], "lineno", -1) == stmt.lineno]
        if t is None:
            col.unresolved(R, d.qualname, loc, f"{field}: distance from the root", "field is not assigned", stmt=field)
        elif mine or kind(t) == "Bad":
            why = mine[0][2][1] if mine else t[1]
            col.bad(R, d.qualname, loc, f"{field}: distance from the root",
                    f"`{norm_src(stmt) if stmt is not None else field}`: {why}", stmt=field)
        elif kind(t) == "S" and t[1] == 1:
            col.ok(R, d.qualname, loc, f"{field}: distance from the root", f"inferred {show(t)} from a root-centred tree", stmt=field)
        elif kind(t) == "Top":
            col.unresolved(R, d.qualname, loc, f"{field}: distance from the root", "type not inferred", stmt=field)
        else:
            col.bad(R, d.qualname, loc, f"{field}: distance from the root", f"inferred {show(t)}, expected a length", stmt=field)
    t = fr.env.get("self.tree")
    ok = t is not None and kind(t) == "Obj" and t[1] == "Tree" and t[2]
    col.check(bool(ok), R, d.qualname, d.loc(), "the analysed tree is the root-centred copy", show(t) if t else "",
              "self.tree is not the result of TranslateOrigin.transform(tree)", stmt="self.tree")
    # radii handed out are fractions of the extent
    for q in (f"{A}.sholl.Sholl.get_rs", f"{A}.sholl.Sholl._get_rs"):
        g = repo.get_def(q)
        env = {"rmax": S(1), "steps": ("N",), "self": Obj("Sholl"), "self.rmax": S(1), "self.step": S(1)}
        f2 = Frame(geo, g, env)
        n1 = len(geo.notes)
        t = f2.run()
        verdict, why = geosinks.accept(S(1), t)
        if geo.notes[n1:] and verdict != "bad":
            dd, node, tt = geo.notes[n1]
            verdict, why = "bad", f"{tt[1]} at {dd.loc(node)}"
        if verdict == "ok":
            col.ok(R, q, g.loc(), "sampling radii are lengths derived from the extent", show(t), stmt="radii")
        elif verdict == "bad":
            col.bad(R, q, g.loc(), "sampling radii are lengths derived from the extent", why, stmt="radii")
        else:
            col.unresolved(R, q, g.loc(), "sampling radii are lengths derived from the extent", why, stmt="radii")


def numbering(ctx, col):
    orderdep.check(ctx, col, "R-ORDER", SCOPE, "the morphometric layer")
