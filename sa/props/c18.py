"""C18 -- topology diagnosis and root repair tell the truth about any parent table."""

from __future__ import annotations

import ast

from ..fold import Folder, Unfoldable
from ..model import AnalysisError, dotted, norm_src, own_nodes
from ..rules import npapi, tables
from ..util import const_int, kwarg, names_in

NORM = "swcgeom.core.swc_utils.normalizer"
CHK = "swcgeom.core.swc_utils.checker"
BASE = "swcgeom.core.swc_utils.base"
IO = "swcgeom.core.swc_utils.io"
SCOPE = ["swcgeom.utils.dsu", CHK, BASE, NORM, IO]


def _ancestors(repo, node, stop):
    out = []
    cur = repo.parent(node)
    while cur is not None and cur is not stop:
        out.append(cur)
        cur = repo.parent(cur)
    return out


def run(ctx, col, tier):
    repo = ctx.repo
    from ..rules import smalllints as _small
    _small.run_rounds(ctx, col, ('swcgeom.core.swc_utils.base', 'swcgeom.core.swc_utils.normalizer', 'swcgeom.core.swc_utils.checker', 'swcgeom.utils.dsu'))
    col.rule("R-API", "every attribute chain rooted at a numpy alias in the modules of this "
             "property names something the installed numpy stubs define", floor=20)
    col.rule("R-SENT", "the 'no parent' marker -1 survives arithmetic on the parent-id column: the "
             "arithmetic is masked against -1, or every -1 row (not just the first root) is restored",
             floor=3)
    col.rule("R-ROOTCMP", "every comparison of a parent id with an integer constant separates "
             "exactly the root marker -1 (table over parent ids {-1, 0, 1, 2, 7})", floor=8, exhaustive=True)
    col.rule("R-RANK", "union by rank decision table over rank[a] ? rank[b]: the smaller-rank root "
             "is re-parented; on equality exactly one is re-parented and the new root's rank grows "
             "by one; find compresses paths; union only joins different roots", floor=6, exhaustive=True)
    col.rule("R-BIF", "bifurcation predicate table over (children 0..4) x (node is a root) x "
             "(exclude_root): reject iff children >= 3 and not (exclude_root and root)", floor=20,
             exhaustive=True)
    col.rule("R-DISPATCH", "root-repair dispatch: every member of the fix_roots literal has an arm "
             "calling its repair on the table, unknown values raise; the repair only runs for "
             "multi-root tables; index re-basing follows unless sorting does it", floor=5, exhaustive=True)
    col.rule("R-CHECK", "checker skeletons: single-root = one DSU component; cyclic = an edge joins "
             "two already joined nodes (roots skipped); sorted = no child id below its parent id; "
             "component labelling maps ids through a dict and jumps pointers to a fixpoint", floor=8, shape=True)
    col.rule("R-CG", "the only recursion on these paths is find_parent, whose depth is bounded by "
             "the rank (R-RANK)", floor=4)
    col.assumptions += ["the installed numpy stubs describe the installed numpy",
                        "DataFrames built by parse_swc carry a RangeIndex (labels equal positions)"]
    col.not_decided += ["correctness of has_cyclic / is_sorted / is_single_root as statements over all tables",
                        "DSU semantics over union/find histories"]

    col.guard(anchored, ctx, col)
    col.guard(api, ctx, col, tier)
    col.guard(sentinels, ctx, col)
    col.guard(rank, ctx, col)
    col.guard(bif, ctx, col)
    col.guard(bif_by_value, ctx, col)
    col.guard(dispatch, ctx, col)
    from ..rules import smalllints2 as _s2
    _s2.run_clip(ctx, col, ('swcgeom.core.swc_utils.normalizer', 'swcgeom.core.swc_utils.io'))
    col.guard(checkers, ctx, col)
    col.guard(cg_rule, ctx, col)
    from ..rules import rootcmp
    rootcmp.check(ctx, col, "R-ROOTCMP", ("swcgeom.core.swc_utils.io", "swcgeom.core.swc_utils.normalizer",
                                           "swcgeom.core.swc_utils.base", "swcgeom.core.swc_utils.checker"))


def api(ctx, col, tier):
    repo = ctx.repo
    root = npapi.numpy_root()
    if root is None:
        raise AnalysisError("anchor-vanished: installed numpy stubs (numpy/__init__.pyi)")
    mods = list(repo.modules.values()) if tier == "thorough" else [repo.get_module(m) for m in SCOPE]
    seen = set()
    n = 0
    for m in mods:
        in_scope = m.name in SCOPE
        for d, node, mod, chain in npapi.chains_in(repo, m):
            sub = mod.split(".")[1:]
            full = ".".join(["np"] + sub + chain)
            ok, pre, miss = npapi.check_chain(root, sub + chain)
            n += 1
            key = (m.name, d.qualname if d else m.name, full)
            if ok is True:
                if key in seen:
                    continue
                seen.add(key)
                if in_scope:
                    col.ok("R-API", d.qualname if d else m.name, f"{m.relpath}:{node.lineno}", full,
                           "defined in the installed stubs", stmt=full)
            elif ok is False:
                where = d.qualname if d else m.name
                if in_scope:
                    col.bad("R-API", where, f"{m.relpath}:{node.lineno}", full,
                            f"`{full}` is not defined by the installed numpy ({'.'.join(['numpy'] + pre)} has no "
                            f"`{miss}`): this line raises AttributeError whenever it runs", stmt=full)
                else:
                    col.info("R-API", where, f"{m.relpath}:{node.lineno}", full,
                             f"not defined by the installed numpy (outside this property's modules)")
            else:
                if in_scope:
                    col.unresolved("R-API", d.qualname if d else m.name, f"{m.relpath}:{node.lineno}", full,
                                   "stub file not found", stmt=full)
    col.analysed["numpy_chains_examined"] = n


def _pid_col(e):
    return isinstance(e, ast.Subscript) and norm_src(e.slice).endswith("names.pid") and norm_src(e.value) == "df"


def sentinels(ctx, col):
    repo = ctx.repo
    for fn in ("reset_index_", "mark_roots_as_somas_", "link_roots_to_nearest_"):
        d = repo.get_def(f"{NORM}.{fn}")
        # whole-column assignments to df[names.pid]
        assigns = [n for n in own_nodes(d) if isinstance(n, ast.Assign) and _pid_col(n.targets[0])]
        restores = [n for n in own_nodes(d) if isinstance(n, ast.Assign) and isinstance(n.targets[0], ast.Subscript)
                    and norm_src(n.targets[0].value) == "df.loc" and isinstance(n.targets[0].slice, ast.Tuple)
                    and norm_src(n.targets[0].slice.elts[1]).endswith("names.pid") and const_int(n.value) == -1]
        mask_restore = [r for r in restores if _is_mask(d, r.targets[0].slice.elts[0])]
        if not assigns:
            # row-wise stores only: each must target a non-first root (loop over roots after next())
            stores = [n for n in own_nodes(d) if isinstance(n, ast.Assign) and isinstance(n.targets[0], ast.Subscript)
                      and norm_src(n.targets[0].value) == "df.loc" and "names.pid" in norm_src(n.targets[0].slice)]
            ok = bool(stores) and any(isinstance(n, ast.Expr) and norm_src(n.value) == "next(roots)" for n in own_nodes(d))
            if not stores:
                col.unresolved("R-SENT", d.qualname, d.loc(), "only the other roots get a parent; the first root keeps -1",
                               "no store to the parent column recognised (the column name may be held in a local)", stmt="rowwise")
                continue
            col.check(ok, "R-SENT", d.qualname, d.loc(stores[0]) if stores else d.loc(),
                      "only the other roots get a parent; the first root keeps -1",
                      norm_src(stores[0]) if stores else "", "first root is not skipped before re-linking", stmt="rowwise")
            continue
        for a in assigns:
            v = a.value
            arith = [b for b in ast.walk(v) if isinstance(b, ast.BinOp) and isinstance(b.op, (ast.Sub, ast.Add))
                     and any(_pid_col(x) for x in ast.walk(b))]
            masked = isinstance(v, ast.Call) and (dotted(v.func) or "").endswith("where") and len(v.args) == 3
            if masked:
                cond, yes, no = v.args
                cs = norm_src(cond)
                # which branch holds the -1 rows?
                if "!= -1" in cs and any(_pid_col(x) for x in ast.walk(cond)):
                    root_branch, other = no, yes
                elif "== -1" in cs and any(_pid_col(x) for x in ast.walk(cond)) or _is_mask(d, cond):
                    root_branch, other = yes, no
                else:
                    col.unresolved("R-SENT", d.qualname, d.loc(a), "masked column update", f"mask `{cs}`", stmt=f"{fn}:mask")
                    continue
                keeps = const_int(root_branch) == -1 or _pid_col(root_branch)
                # mark_roots_as_somas_ replaces -1 by the first root id on purpose, then restores it
                replaced = not keeps
                if keeps:
                    col.ok("R-SENT", d.qualname, d.loc(a), "parent-id update is masked against -1",
                           norm_src(v)[:80], stmt=f"{fn}:masked")
                else:
                    ok = bool(restores)
                    col.check(ok, "R-SENT", d.qualname, d.loc(a), "roots are deliberately re-linked and the first root's marker is restored",
                              norm_src(v)[:80], "all -1 markers are overwritten and none is restored", stmt=f"{fn}:relink")
            elif arith:
                ok = bool(mask_restore)
                col.check(ok, "R-SENT", d.qualname, d.loc(a), "unmasked arithmetic on the parent-id column is followed by a restore of every -1 row",
                          norm_src(a)[:80],
                          f"`{norm_src(a)}` also shifts the -1 marker of every root; "
                          + ("only the first root is restored afterwards" if restores else "nothing restores it")
                          + ": further roots get a bogus parent id (-1 - root id; with 1-based ids the removal marker -2)",
                          stmt=f"{fn}:unmasked")
            else:
                col.ok("R-SENT", d.qualname, d.loc(a), "parent-id column assignment without arithmetic", norm_src(a)[:80],
                       stmt=f"{fn}:plain")


def _is_mask(d, e) -> bool:
    """Is e (a Name) bound to `df[names.pid] == -1`?"""
    if isinstance(e, ast.Name):
        for n in own_nodes(d):
            if isinstance(n, ast.Assign) and norm_src(n.targets[0]) == e.id:
                return norm_src(n.value).replace(" ", "") in ("df[names.pid]==-1",)
    return False


def bif_by_value(ctx, col):
    """R-BIFVAL: is_bifurcate folded over every rooted tree of up to seven nodes, the two-rooted forests made from the trees of up to five nodes, and both settings of exclude_root
    (sa/objfold.py interprets the function over plain lists / dicts): the answer is `no node other than an exempt root has more than two children`."""
    from ..objfold import Budget, ObjEval, Unsupported, small_trees
    repo = ctx.repo
    col.rule("R-BIFVAL", "is_bifurcate folded exactly over all 874 rooted trees of up to seven nodes, the two-rooted forests derived from the trees of up to five nodes, and exclude_root on / off: "
             "True iff no node other than an exempt root has more than two children -- whatever the loop looks like (an early return on the first crowded node is seen: a root with three "
             "children met before a crowded inner node)", floor=1, exhaustive=True)
    d = repo.get_def(f"{CHK}.is_bifurcate")
    tables = [list(p) for p in small_trees(7)]
    for p in small_trees(5):
        for i in range(1, len(p)):
            q = list(p)
            q[i] = -1
            tables.append(q)
    bad = und = None
    n_w = 0
    params = [a.arg for a in d.node.args.args + d.node.args.kwonlyargs]
    for pid in tables:
        ids = list(range(len(pid)))
        kids = {i: sum(1 for p in pid if p == i) for i in ids}
        for ex in (True, False):
            want = all(k <= 2 or (ex and pid[i] == -1) for i, k in kids.items())
            try:
                got = ObjEval(pid).run_free(d.node, {params[0]: [ids, list(pid)], "exclude_root": ex})
            except (Unsupported, Budget) as x:
                und = f"{type(x).__name__}: {x}"
                break
            except Exception as x:  # noqa: BLE001
                und = f"{type(x).__name__}: {x}"
                break
            n_w += 1
            if bool(got) != want or not isinstance(got, bool):
                if isinstance(got, bool):
                    bad = (pid, ex, got, want)
                else:
                    und = f"the function returns {got!r}, not a bool"
                break
        if bad or und:
            break
    what = "is_bifurcate: no node other than an exempt root has more than two children"
    if bad is not None:
        pid, ex, got, want = bad
        col.bad("R-BIFVAL", d.qualname, d.loc(), what, f"parents {pid}, exclude_root={ex}: the function answers {got}, the table {'has no' if want else 'has a'} node with more than two children "
                f"that is not an exempt root -- the answer is taken from the first crowded node met, later ones are never looked at", stmt="bifval", definite=True)
    elif und is not None:
        col.unresolved("R-BIFVAL", d.qualname, d.loc(), what, f"cannot fold the function: {und}", stmt="bifval")
    else:
        col.ok("R-BIFVAL", d.qualname, d.loc(), what, f"{n_w} (table, option) pairs folded", stmt="bifval")


def rank(ctx, col):
    repo = ctx.repo
    u = repo.get_def("swcgeom.utils.dsu.DisjointSetUnion.union_sets")
    # linking joins REPRESENTATIVES: both sides of every store into the parent table are values returned by find_parent (re-parenting an argument itself leaves the
    # rest of its old set behind)
    col.rule("R-REPR", "union links representatives only: in union_sets every store `element_parent[x] = y` has x and y bound from find_parent(...) -- never an argument of the call "
             "(re-parenting a non-representative member detaches it from the rest of its set)", floor=1)
    reps = {n.targets[0].id for n in own_nodes(u) if isinstance(n, ast.Assign) and len(n.targets) == 1 and isinstance(n.targets[0], ast.Name) and isinstance(n.value, ast.Call)
            and (dotted(n.value.func) or "").rsplit(".", 1)[-1] in ("find_parent", "find", "find_root", "_find")}
    n_link = 0
    for st_ in own_nodes(u):
        if isinstance(st_, ast.Assign) and len(st_.targets) == 1 and isinstance(st_.targets[0], ast.Subscript) and "parent" in norm_src(st_.targets[0].value):
            n_link += 1
            x_, y_ = st_.targets[0].slice, st_.value
            bad_ = [norm_src(e_) for e_ in (x_, y_) if isinstance(e_, ast.Name) and e_.id in u.params and e_.id not in reps]
            und_ = [norm_src(e_) for e_ in (x_, y_) if not (isinstance(e_, ast.Name))]
            if bad_:
                col.bad("R-REPR", u.qualname, u.loc(st_), "a link joins the two representatives",
                        f"`{norm_src(st_)}` re-parents / links to the argument `{bad_[0]}` itself, not its representative: when `{bad_[0]}` is a non-representative member of its set, the other "
                        f"members stay behind -- after union(0,1), union(2,3), union(0,2), union(4,5), union(0,5) elements 0 and 4 are reported as not joined", stmt="repr", definite=True)
            elif und_ or not all(isinstance(e_, ast.Name) and e_.id in reps for e_ in (x_, y_)):
                col.unresolved("R-REPR", u.qualname, u.loc(st_), "a link joins the two representatives", f"`{norm_src(st_)}`: operands are not plain names bound from find_parent", stmt="repr")
            else:
                col.ok("R-REPR", u.qualname, u.loc(st_), "a link joins the two representatives", norm_src(st_), stmt="repr")
    if not n_link:
        col.unresolved("R-REPR", u.qualname, u.loc(), "a link joins the two representatives", "no store into the parent table found in union_sets", stmt="repr")
    outer = [n for n in u.node.body if isinstance(n, ast.If)]
    if len(outer) != 1:
        raise AnalysisError("anchor-vanished: `if root_a != root_b` of union_sets")
    col.shape(norm_src(outer[0].test) in ("root_a != root_b", "root_b != root_a"), "R-RANK", u.qualname, u.loc(outer[0]),
              "only different roots are joined", norm_src(outer[0].test), f"guard is `{norm_src(outer[0].test)}`", stmt="guard")
    roots = {norm_src(n.targets[0]): norm_src(n.value) for n in u.node.body if isinstance(n, ast.Assign)}
    col.shape(roots.get("root_a") == "self.find_parent(node_a)" and roots.get("root_b") == "self.find_parent(node_b)",
              "R-RANK", u.qualname, u.loc(), "roots are found for both arguments", str(roots), f"{roots}", stmt="roots")
    chain = [s for s in outer[0].body if isinstance(s, ast.If)]
    if len(chain) != 1:
        col.unresolved("R-RANK", u.qualname, u.loc(outer[0]), "rank ladder", "no single if/elif/else ladder")
        return

    def effects(stmts):
        par, inc = [], []
        for s in stmts:
            if isinstance(s, ast.Assign) and norm_src(s.targets[0].value if isinstance(s.targets[0], ast.Subscript) else s.targets[0]) == "self.element_parent":
                par.append((norm_src(s.targets[0].slice), norm_src(s.value)))
            elif isinstance(s, ast.AugAssign) and isinstance(s.op, ast.Add) and norm_src(s.target.value) == "self.rank" \
                    and const_int(s.value) == 1:
                inc.append(norm_src(s.target.slice))
            elif isinstance(s, ast.Pass):
                pass
            else:
                par.append(("?", norm_src(s)))
        return par, inc

    def term(n):
        s = norm_src(n)
        return {"self.rank[root_a]": "ra", "self.rank[root_b]": "rb"}.get(s)

    for name, ranks in (("rank[a] < rank[b]", (0, 1)), ("rank[a] > rank[b]", (1, 0)), ("rank[a] = rank[b]", (0, 0))):
        node = chain[0]
        taken = None
        try:
            while True:
                e, hits = tables.substitute(node.test, term)
                val = bool(Folder(repo, u.module, None, {"ra": ranks[0], "rb": ranks[1]}).eval(e))
                branch = node.body if val else node.orelse
                if not val and len(branch) == 1 and isinstance(branch[0], ast.If):
                    node = branch[0]
                    continue
                taken = branch
                break
        except Unfoldable as ex:
            col.unresolved("R-RANK", u.qualname, u.loc(node), name, str(ex), stmt=name)
            continue
        par, inc = effects(taken)
        if name.endswith("< rank[b]"):
            ok = par == [("root_a", "root_b")] and not inc
            want = "parent[root_a] = root_b, ranks unchanged"
        elif name.endswith("> rank[b]"):
            ok = par == [("root_b", "root_a")] and not inc
            want = "parent[root_b] = root_a, ranks unchanged"
        else:
            ok = len(par) == 1 and len(inc) == 1 and par[0][1] == inc[0] and par[0][0] != inc[0] \
                and {par[0][0], par[0][1]} == {"root_a", "root_b"}
            want = "one root re-parented under the other, whose rank grows by one"
        col.check(ok, "R-RANK", u.qualname, u.loc(chain[0]), name, f"parent writes {par}, rank increments {inc}",
                  f"parent writes {par}, rank increments {inc}; expected {want} (otherwise tree depth is not bounded by the rank)",
                  stmt=name)
    f = repo.get_def("swcgeom.utils.dsu.DisjointSetUnion.find_parent")
    body = [norm_src(s) for s in f.node.body]
    p = f.params[1]
    ok = len(f.node.body) == 2 and isinstance(f.node.body[0], ast.If) \
        and norm_src(f.node.body[0].test) == f"{p} != self.element_parent[{p}]" \
        and norm_src(f.node.body[0].body[0]) == f"self.element_parent[{p}] = self.find_parent(self.element_parent[{p}])" \
        and body[1] == f"return self.element_parent[{p}]"
    col.shape(ok, "R-RANK", f.qualname, f.loc(), "find follows parents to the root and compresses the path",
              "", "find_parent is not `if x != parent[x]: parent[x] = find(parent[x]); return parent[x]`", stmt="find")
    s = repo.get_def("swcgeom.utils.dsu.DisjointSetUnion.is_same_set")
    rets = [n for n in own_nodes(s) if isinstance(n, ast.Return)]
    ok = len(rets) == 1 and norm_src(rets[0].value) == "self.find_parent(node_a) == self.find_parent(node_b)"
    col.shape(ok, "R-RANK", s.qualname, s.loc(), "joined <=> same root", "", "is_same_set does not compare the two roots",
              stmt="same")
    i = repo.get_def("swcgeom.utils.dsu.DisjointSetUnion.__init__")
    src = {norm_src(n.targets[0]): norm_src(n.value) for n in own_nodes(i) if isinstance(n, ast.Assign)}
    ok = src.get("self.element_parent") == "[i for i in range(node_number)]" and src.get("self.rank") == "[0 for _ in range(node_number)]"
    col.shape(ok, "R-RANK", i.qualname, i.loc(), "initially every element is its own root with rank 0", "",
              f"initial state {src}", stmt="init")


def bif(ctx, col):
    repo = ctx.repo
    d = repo.get_def(f"{CHK}.is_bifurcate")
    ifs = [n for n in own_nodes(d) if isinstance(n, ast.If) and any(isinstance(x, ast.Return) for x in n.body)]
    if len(ifs) != 1:
        raise AnalysisError("anchor-vanished: the rejecting test of is_bifurcate")
    test = ifs[0].test
    rejects = isinstance(ifs[0].body[0], ast.Return) and isinstance(ifs[0].body[0].value, ast.Constant) \
        and ifs[0].body[0].value.value is False
    loop = next((n for n in own_nodes(d) if isinstance(n, ast.For) and ifs[0] in n.body), None)
    kv = [e.id for e in loop.target.elts] if loop is not None and isinstance(loop.target, ast.Tuple) else None
    if not rejects or kv is None:
        col.unresolved("R-BIF", d.qualname, d.loc(ifs[0]), "predicate shape", "not `for k, v in children.items(): if ...: return False`")
        return
    k, v = kv
    root_name = None
    for n in own_nodes(d):
        if isinstance(n, ast.Assign) and norm_src(n.value) == "children[-1]":
            root_name = norm_src(n.targets[0])

    def sub(n):
        s = norm_src(n)
        if s == f"len({v})":
            return "__k"
        if s in (f"{k} in {root_name}", f"{k} in children[-1]"):
            return "__isroot"
        if s in (f"{k} not in {root_name}",):
            return "__notroot"
        return None
    e, hits = tables.substitute(test, sub)
    for cnt in range(5):
        for isroot in (True, False):
            for excl in (True, False):
                env = {"__k": cnt, "__isroot": isroot, "__notroot": not isroot, "exclude_root": excl}
                try:
                    got = bool(Folder(repo, d.module, None, env).eval(e))
                except Unfoldable as ex:
                    col.unresolved("R-BIF", d.qualname, d.loc(ifs[0]), f"children={cnt} root={isroot} exclude_root={excl}", str(ex),
                                   stmt=f"{cnt}:{isroot}:{excl}")
                    continue
                want = cnt >= 3 and not (excl and isroot)
                col.check(got == want, "R-BIF", d.qualname, d.loc(ifs[0]),
                          f"children={cnt} root={isroot} exclude_root={excl}", f"rejected={got}",
                          f"rejected={got}, expected {want}" + (" (a node with two children is a bifurcation, not a violation)" if cnt == 2 and got else ""),
                          stmt=f"{cnt}:{isroot}:{excl}")
    # children map and final verdict
    ok = any(isinstance(n, ast.For) and norm_src(n.iter) == "zip(*topology)" and
             [norm_src(s) for s in n.body] == [f"children[{n.target.elts[1].id}].append({n.target.elts[0].id})"]
             for n in own_nodes(d) if isinstance(n, ast.For) and isinstance(n.target, ast.Tuple))
    col.shape(ok, "R-BIF", d.qualname, d.loc(), "children are grouped by parent id over every row", "",
              "children map is not children[pid].append(id) over zip(*topology)", stmt="children")
    last = d.node.body[-1]
    col.shape(isinstance(last, ast.Return) and norm_src(last.value) == "True", "R-BIF", d.qualname, d.loc(last),
              "accepted when no node is rejected", "", "does not end with `return True`", stmt="accept")


def dispatch(ctx, col):
    repo = ctx.repo
    d = repo.get_def(f"{IO}.read_swc")
    ann = d.param_annotation("fix_roots")
    members = []
    if isinstance(ann, ast.Subscript) and (dotted(ann.value) or "").endswith("Literal"):
        elts = ann.slice.elts if isinstance(ann.slice, ast.Tuple) else [ann.slice]
        members = [e.value for e in elts if isinstance(e, ast.Constant)]
    m = [n for n in own_nodes(d) if isinstance(n, ast.Match) and norm_src(n.subject) == "fix_roots"]
    if len(m) != 1 or not members:
        raise AnalysisError("anchor-vanished: fix_roots literal / match in read_swc")
    arms = {}
    default_raises = False
    for c in m[0].cases:
        if isinstance(c.pattern, ast.MatchValue) and isinstance(c.pattern.value, ast.Constant):
            arms[c.pattern.value.value] = [norm_src(s) for s in c.body]
        elif isinstance(c.pattern, ast.MatchAs) and c.pattern.pattern is None:
            default_raises = all(isinstance(s, ast.Raise) for s in c.body)
    want = {"somas": ["mark_roots_as_somas_(df)"], "nearest": ["link_roots_to_nearest_(df)"]}
    for mem in members:
        if mem is False:
            continue
        if mem not in arms:
            col.bad("R-DISPATCH", d.qualname, d.loc(m[0]), f"fix_roots={mem!r}",
                    f"repair mode {mem!r} is offered by the signature but has no arm: it falls into the default", stmt=f"arm:{mem}")
        else:
            col.shape(arms.get(mem) == want.get(mem), "R-DISPATCH", d.qualname, d.loc(m[0]), f"fix_roots={mem!r}",
                      str(arms.get(mem)), f"arm for {mem!r} is {arms.get(mem)}, expected {want.get(mem)}", stmt=f"arm:{mem}")
    col.shape(default_raises and set(arms) <= set(x for x in members if x is not False), "R-DISPATCH", d.qualname, d.loc(m[0]),
              "unknown repair modes raise; no arm outside the literal", str(list(arms)), f"arms {list(arms)} / default raises={default_raises}",
              stmt="default")
    guard = repo.parent(m[0])
    ok = isinstance(guard, ast.If) and norm_src(guard.test) == "fix_roots is not False and np.count_nonzero(df[names.pid] == -1) > 1"
    col.shape(ok, "R-DISPATCH", d.qualname, d.loc(guard) if isinstance(guard, ast.If) else d.loc(), "repair runs only when requested and there are several roots",
              norm_src(guard.test) if isinstance(guard, ast.If) else "", "guard is not `fix_roots is not False and #roots > 1`", stmt="guard")
    ifs = [n for n in d.node.body if isinstance(n, ast.If) and norm_src(n.test) == "sort_nodes"]
    ok = len(ifs) == 1 and [norm_src(s) for s in ifs[0].body] == ["sort_nodes_(df)"] and len(ifs[0].orelse) == 1 \
        and isinstance(ifs[0].orelse[0], ast.If) and norm_src(ifs[0].orelse[0].test) == "reset_index" \
        and [norm_src(s) for s in ifs[0].orelse[0].body] == ["reset_index_(df)"] and ifs[0].lineno > guard.lineno
    col.shape(bool(ok), "R-DISPATCH", d.qualname, d.loc(ifs[0]) if ifs else d.loc(), "after repair: sort, else re-base ids", "",
              "normalisation ladder is not `if sort_nodes: sort_nodes_(df) elif reset_index: reset_index_(df)` after the repair", stmt="normalise")
    # reset_index_ re-bases ids and parents by the same amount
    r = repo.get_def(f"{NORM}.reset_index_")
    a_id = [n for n in own_nodes(r) if isinstance(n, ast.Assign) and norm_src(n.targets[0]) == "df[names.id]"]
    ok = len(a_id) == 1 and norm_src(a_id[0].value) == "df[names.id] - root_id"
    rid = [n for n in own_nodes(r) if isinstance(n, ast.Assign) and norm_src(n.targets[0]) == "root_id"]
    ok = ok and len(rid) == 1 and norm_src(rid[0].value) == "df.loc[root_loc, names.id]"
    pid_shift = [b for n in own_nodes(r) if isinstance(n, ast.Assign) and _pid_col(n.targets[0])
                 for b in ast.walk(n.value) if isinstance(b, ast.BinOp) and isinstance(b.op, ast.Sub) and _pid_col(b.left)]
    ok = ok and len(pid_shift) == 1 and norm_src(pid_shift[0].right) == "root_id"
    col.shape(ok, "R-DISPATCH", r.qualname, r.loc(), "ids and parent ids are re-based by the first root's id", "",
              "id / parent-id columns are not both shifted by root_id = id of the first root", stmt="rebase")


def checkers(ctx, col):
    repo = ctx.repo
    R = "R-CHECK"
    d = repo.get_def(f"{CHK}.is_single_root")
    rets = [n for n in own_nodes(d) if isinstance(n, ast.Return)]
    ok = len(rets) == 1 and norm_src(rets[0].value) == "len(np.unique(get_dsu(df, names=names))) == 1"
    col.check(ok, R, d.qualname, d.loc(), "connected <=> exactly one component label", norm_src(rets[0].value) if rets else "",
              "is_single_root is not `#unique(component labels) == 1`", stmt="single")
    d = repo.get_def(f"{CHK}.has_cyclic")
    src = norm_src(d.node)
    loop = [n for n in own_nodes(d) if isinstance(n, ast.For)]
    ok = len(loop) == 1
    if ok:
        body = [norm_src(s) for s in loop[0].body]
        ok = "if node_b == -1: continue".replace(": ", ":\n    ") in [b for b in body] or any(
            isinstance(s, ast.If) and norm_src(s.test) == "node_b == -1" and isinstance(s.body[0], ast.Continue) for s in loop[0].body)
        ok = ok and any(isinstance(s, ast.If) and norm_src(s.test) == "dsu.is_same_set(node_a, node_b)"
                        and norm_src(s.body[0]) == "return True" for s in loop[0].body)
        ok = ok and body[-1] == "dsu.union_sets(node_a, node_b)"
        ok = ok and norm_src(d.node.body[-1]) == "return False"
        a = [norm_src(s.value) for s in loop[0].body if isinstance(s, ast.Assign)]
        ok = ok and a == ["topology[0][i]", "topology[1][i]"]
    col.check(bool(ok), R, d.qualname, d.loc(), "cycle <=> some edge joins two nodes that are already connected; roots skipped; edges added afterwards",
              "", "has_cyclic does not follow `skip root; if same set: True; union`", stmt="cyclic")
    d = repo.get_def(f"{CHK}.is_sorted")
    # sorted <=> every row that has a parent has a parent id below its own id (whole-column comparison over the non-root rows)
    col.text_group(R, d.qualname, d, [
        ("the id and parent-id columns of the table", ["ids, pids = np.asarray(topology[0]), np.asarray(topology[1])"], "sorted-cols"),
        ("every row but the roots", ["has_parent = pids != -1"], "sorted-rows"),
        ("sorted <=> the parent id of each of them is below its own id", ["return bool(np.all(pids[has_parent] < ids[has_parent]))"], "sorted"),
    ], fixed=("topology",))
    g = repo.get_def(f"{BASE}.get_dsu")
    src = {norm_src(n.targets[0]): [] for n in own_nodes(g) if isinstance(n, ast.Assign)}
    for n in own_nodes(g):
        if isinstance(n, ast.Assign):
            src[norm_src(n.targets[0])].append(norm_src(n.value))
    ok = src.get("dsu", [None])[0] == "np.where(df[names.pid] == -1, df[names.id], df[names.pid])"
    col.check(ok, R, g.qualname, g.loc(), "initial label: own id for roots, parent id otherwise",
              str(src.get("dsu", [""])[0]), "initial labels are not where(pid == -1, id, pid)", stmt="dsu-init")
    ok = src.get("id2idx") == ["dict(zip(df[names.id], range(len(df))))"] and len(src.get("dsu", [])) >= 2 and \
        src["dsu"][1] == "np.array([id2idx[i] for i in dsu], dtype=np.int32)"
    col.check(ok, R, g.qualname, g.loc(), "ids are turned into row positions through a dict before they index anything",
              "", "labels are not mapped id -> position via id2idx", stmt="dsu-map")
    wh = [n for n in own_nodes(g) if isinstance(n, ast.While)]
    ok = len(wh) == 1 and any(isinstance(s, ast.If) and norm_src(s.test) == "dsu[i] != dsu[p]" and
                              norm_src(s.body[0]) == "dsu[i] = dsu[p]" for s in ast.walk(wh[0])) and \
        any(isinstance(s, ast.If) and norm_src(s.test) == "flag" and isinstance(s.body[0], ast.Break) for s in wh[0].body)
    col.check(ok, R, g.qualname, g.loc(wh[0]) if wh else g.loc(), "pointer jumping repeats until no label changes", "",
              "fixpoint loop is not `repeat: dsu[i] = dsu[dsu[i]] until unchanged`", stmt="dsu-fix")
    m = repo.get_def(f"{NORM}.mark_roots_as_somas_")
    src = {norm_src(n.targets[0]): norm_src(n.value) for n in own_nodes(m) if isinstance(n, ast.Assign)}
    ok = src.get("root_loc") == "roots.argmax()" and src.get("root_id") == "df.loc[root_loc, names.id]" and \
        src.get("roots") == "df[names.pid] == -1"
    col.check(ok, R, m.qualname, m.loc(), "the kept root is the first row whose parent is -1", "", f"{src}", stmt="first-root")
    l = repo.get_def(f"{NORM}.link_roots_to_nearest_")
    body = norm_src(l.node)
    ok = "subtree = dsu == dsu[i]" in body and "dis = np.where(subtree, " in body and \
        "df.loc[i, names.pid] = df[names.id].iloc[dis.argmin()]" in body and "dsu = np.where(subtree, dsu[dis.argmin()], dsu)" in body
    col.check(ok, R, l.qualname, l.loc(), "each further root is linked to the nearest node outside its own component, components merged", "",
              "nearest-link loop differs from `mask own component; argmin; set pid; merge labels`", stmt="nearest")


def cg_rule(ctx, col):
    from .c04 import recursion_free, VIEW_ACCESSORS
    allow = tuple(VIEW_ACCESSORS) + ("swcgeom.utils.dsu.DisjointSetUnion.find_parent",)
    for q in (f"{CHK}.has_cyclic", f"{CHK}.is_single_root", f"{CHK}.is_sorted", f"{CHK}.is_bifurcate"):
        recursion_free(ctx, col, "R-CG", [q], f"recursion-free from {q.split('.')[-1]} (find_parent excepted)", allow=allow)


def anchored(ctx, col):
    """Statements that carry the clauses, matched three-way under one renaming per function."""
    repo = ctx.repo
    NORM_ = "swcgeom.core.swc_utils.normalizer"
    CHK = "swcgeom.core.swc_utils.checker"
    m = repo.get_def(f"{NORM_}.mark_roots_as_somas_")
    col.text_group("R-CHECK", m.qualname, m, [
        ("roots = rows whose parent is -1", ["roots = df[names.pid] == -1"], "roots"),
        ("the kept root is the first such row (a row POSITION)", ["root_loc = roots.argmax()"], "first-root"),
        ("its id", ["root_id = df.loc[root_loc, names.id]"], "root-id"),
        ("every root is re-linked to the kept root's id", ["df[names.pid] = np.where(df[names.pid] != -1, df[names.pid], root_id)"], "relink"),
        ("the kept root (addressed by its row position) gets its marker back", ["df.loc[root_loc, names.pid] = -1"], "restore"),
    ], fixed=("df", "names"))
    r = repo.get_def(f"{NORM_}.reset_index_")
    col.text_group("R-CHECK", r.qualname, r, [
        ("roots = rows whose parent is -1", ["roots = df[names.pid] == -1"], "roots"),
        ("the first root's row position", ["root_loc = roots.argmax()"], "first-root"),
        ("its id", ["root_id = df.loc[root_loc, names.id]"], "root-id"),
        ("ids are re-based by the first root's id", ["df[names.id] = df[names.id] - root_id"], "shift-id"),
        ("parent ids are re-based by the same amount, every root keeping -1", ["df[names.pid] = np.where(roots, -1, df[names.pid] - root_id)"], "shift-pid"),
    ], fixed=("df", "names"))
    l = repo.get_def(f"{NORM_}.link_roots_to_nearest_")
    col.text_group("R-CHECK", l.qualname, l, [
        ("component labels of the forest", ["dsu = get_dsu(df)"], "labels"),
        ("roots in file order, the first one kept", ["roots = df[df[names.pid] == -1].iterrows()"], "roots"),
        ("distance of every node to this root", ["dis = np.linalg.norm(vs.to_numpy(), axis=1)"], "dist"),
        ("nodes of the root's own component are excluded", ["subtree = dsu == dsu[i]"], "own"),
        ("... by an infinite distance", ["dis = np.where(subtree, np.inf, dis)"], "exclude"),
        ("the linked component takes the LABEL of the component it joins", ["dsu = np.where(subtree, dsu[dis.argmin()], dsu)"], "merge"),
        ("the root's parent becomes the id of the nearest outside node", ["df.loc[i, names.pid] = df[names.id].iloc[dis.argmin()]"], "link"),
    ], fixed=("df", "names", "get_dsu"))
    for x in own_nodes(l):
        if isinstance(x, ast.Assign) and norm_src(x.targets[0]) == "dsu" and isinstance(x.value, ast.Call) and (dotted(x.value.func) or "").endswith("where") \
                and len(x.value.args) == 3 and norm_src(x.value.args[2]) == "dsu":
            lab = x.value.args[1]
            if not (isinstance(lab, ast.Subscript) and norm_src(lab.value) == "dsu"):
                col.bad("R-CHECK", l.qualname, l.loc(x), "the linked component takes the LABEL of the component it joins",
                        f"`{norm_src(x)}` relabels the linked component with `{norm_src(lab)}`, a row index, not the component label `dsu[...]`: "
                        f"the merged component is no longer recognised as part of the one it joined and a later root can link back into it",
                        stmt="merge", definite=True)
    # the component labels follow every link: inside the loop over the stray roots the label table is re-written for the WHOLE linked component
    col.rule("R-RELABEL", "nearest-root repair keeps its component labels current: inside the loop over the stray roots the label table is updated after every link, "
             "and for the whole component that was linked (a mask / np.where over the table, or a fresh get_dsu), not for the root's own row only -- otherwise "
             "a later root does not see the already linked nodes as its own component, links into them and closes a cycle", floor=1)
    loops = [x for x in own_nodes(l) if isinstance(x, ast.For)]
    lab_names = {norm_src(x.targets[0]) for x in own_nodes(l) if isinstance(x, ast.Assign) and len(x.targets) == 1 and isinstance(x.targets[0], ast.Name)
                 and isinstance(x.value, ast.Call) and (dotted(x.value.func) or "").endswith("get_dsu")}
    main = [lp for lp in loops if any(isinstance(y, ast.Call) and (dotted(y.func) or "").rsplit(".", 1)[-1] in ("argmin", "nanargmin") for y in ast.walk(lp))]
    if len(main) == 1 and len(lab_names) == 1:
        lab = next(iter(lab_names))
        lp = main[0]
        row_vars = {n.id for n in ast.walk(lp.target) if isinstance(n, ast.Name)}
        reads = any(isinstance(n, ast.Name) and n.id == lab and isinstance(n.ctx, ast.Load) for n in ast.walk(lp))
        whole, single = [], []
        for x in ast.walk(lp):
            if isinstance(x, ast.Assign) and len(x.targets) == 1:
                t = x.targets[0]
                if isinstance(t, ast.Name) and t.id == lab:
                    whole.append(x)
                elif isinstance(t, ast.Subscript) and norm_src(t.value) == lab:
                    if isinstance(t.slice, ast.Name) and t.slice.id in row_vars:
                        single.append(x)
                    else:
                        whole.append(x)
            if isinstance(x, ast.Call) and isinstance(x.func, ast.Attribute) and norm_src(x.func.value) == lab and x.func.attr in ("put", "fill", "__setitem__"):
                whole.append(x)
        what_r = "after every link the whole linked component carries the label of the component it joined"
        for x in whole:
            if isinstance(x, ast.Assign) and isinstance(x.targets[0], ast.Subscript) and norm_src(x.targets[0].value) == lab:
                v_ = x.value
                src_v = v_
                if isinstance(v_, ast.Name):
                    bs = [y.value for y in ast.walk(lp) if isinstance(y, ast.Assign) and len(y.targets) == 1 and isinstance(y.targets[0], ast.Name) and y.targets[0].id == v_.id]
                    src_v = bs[0] if len(bs) == 1 else v_
                is_label = isinstance(src_v, ast.Subscript) and norm_src(src_v.value) == lab
                is_position = isinstance(src_v, ast.Call) and (dotted(src_v.func) or "").rsplit(".", 1)[-1] in ("argmin", "nanargmin", "argmax")
                if is_position and not is_label:
                    col.bad("R-RELABEL", l.qualname, l.loc(x), what_r,
                            f"`{norm_src(x)}` writes the ROW POSITION of the nearest node (`{norm_src(src_v)[:40]}`) into the label table instead of that node's component label `{lab}[...]`: "
                            f"the merged component no longer carries the label of the component it joined, so a later root links back into it and closes a cycle", stmt="relabel-value", definite=True)
        if single and not whole:
            col.bad("R-RELABEL", l.qualname, l.loc(single[0]), what_r,
                    f"`{norm_src(single[0])}` changes the label of the linked root's own row only: the nodes below that root keep the old label, so a root that is "
                    f"linked later does not count them to its own (merged) component and may be attached to one of them -- a cycle that never reaches the first root",
                    stmt="relabel", definite=True)
        elif reads and not whole and not single:
            col.bad("R-RELABEL", l.qualname, l.loc(lp), what_r,
                    f"the loop reads the component labels `{lab}` but never updates them: after the first link they describe the forest as it was, and a later root "
                    f"can be linked into a tree that already hangs below it", stmt="relabel", definite=True)
        else:
            col.ok("R-RELABEL", l.qualname, l.loc(lp), what_r, f"{len(whole)} whole-table update(s) in the loop", stmt="relabel")
    else:
        col.unresolved("R-RELABEL", l.qualname, l.loc(), "after every link the whole linked component carries the label of the component it joined",
                       f"{len(main)} candidate loops, label tables {sorted(lab_names)}", stmt="relabel")
    # component labels of ANY parent table (cycles included): synchronous pointer doubling `t = t[t]` only rotates the labels round a cycle
    col.rule("R-DOUBLING", "component labels are computed by a relaxation that also terminates correctly on cycles: no unguarded synchronous pointer doubling `t = t[t]` "
             "(on a cycle it only rotates the labels); zero expected", floor=1)
    gd = repo.get_def(f"{BASE}.get_dsu")
    n_doubling = 0
    for dd in [gd] + [x for x in repo.all_defs() if x.module is gd.module and x.name.startswith("_") and x.parent is None and not x.is_lambda]:
        for st in own_nodes(dd):
            if isinstance(st, ast.Assign) and len(st.targets) == 1:
                t, v = st.targets[0], st.value
                base = t.value if isinstance(t, ast.Subscript) else t
                # `t = t[t]`, or through a temporary: `nxt = t[t]; t = nxt`
                if isinstance(base, ast.Name) and isinstance(v, ast.Subscript) and isinstance(v.value, ast.Name) and isinstance(v.slice, ast.Name) and v.slice.id == v.value.id \
                        and (v.value.id == base.id or any(isinstance(a2, ast.Assign) and len(a2.targets) == 1 and isinstance(a2.targets[0], ast.Name) and a2.targets[0].id == v.value.id
                                                        and isinstance(a2.value, ast.Name) and a2.value.id == base.id for a2 in own_nodes(dd))):
                    guarded = any(isinstance(c, ast.Compare) and "arange" in norm_src(c) for c in ast.walk(dd.node)) or any(
                        isinstance(c, ast.Compare) and "arange" in norm_src(c) for o in repo.all_defs() if o.module is gd.module and not o.is_lambda for c in ast.walk(o.node)
                        if o is not dd and any(isinstance(k, ast.Call) and (dotted(k.func) or "").rsplit(".", 1)[-1] == dd.name for k in ast.walk(o.node)))
                    # ... or under a predicate function of the module that makes that test (`if _is_row_ordered(dsu): return _resolve_row_ordered(dsu)`)
                    preds_ = {o.name for o in repo.all_defs() if o.module is gd.module and not o.is_lambda and any(isinstance(c, ast.Compare) and "arange" in norm_src(c) for c in ast.walk(o.node))}
                    callers_ = [dd] + [o for o in repo.all_defs() if o.module is gd.module and not o.is_lambda and o is not dd
                                       and any(isinstance(k, ast.Call) and (dotted(k.func) or "").rsplit(".", 1)[-1] == dd.name for k in ast.walk(o.node))]
                    guarded = guarded or any(isinstance(i_, (ast.If, ast.IfExp, ast.While)) and any(isinstance(k, ast.Call) and (dotted(k.func) or "").rsplit(".", 1)[-1] in preds_ for k in ast.walk(i_.test))
                                             for o in callers_ for i_ in ast.walk(o.node))
                    uses_dsu = dd is gd or any(isinstance(k, ast.Call) and (dotted(k.func) or "").rsplit(".", 1)[-1] == dd.name for k in ast.walk(gd.node))
                    if not uses_dsu:
                        continue
                    if guarded:
                        n_doubling += 1
                        col.unresolved("R-DOUBLING", dd.qualname, dd.loc(st), "component labels are right for tables with cycles too",
                                       f"`{norm_src(st)}` is synchronous pointer doubling, used under a test on the row order (not decided whether the test excludes every cycle)", stmt="doubling")
                    else:
                        n_doubling += 1
                        col.bad("R-DOUBLING", dd.qualname, dd.loc(st), "component labels are right for tables with cycles too",
                                f"`{norm_src(st)}` replaces every label by its label's label at once: along a cycle of two or more nodes the labels only rotate, however often this is "
                                f"repeated, so nodes of one connected component keep different labels (is_single_root answers False for a connected table)", stmt="doubling", definite=True)
    if not n_doubling:
        col.ok("R-DOUBLING", gd.qualname, gd.loc(), "component labels are right for tables with cycles too", "no synchronous pointer doubling", stmt="doubling")
    h = repo.get_def(f"{CHK}.has_cyclic")
    col.text_group("R-CHECK", h.qualname, h, [
        ("one element per row", ["dsu = DisjointSetUnion(node_number=node_num)"], "dsu"),
        ("the edge (node, parent) of every row", ["node_a = topology[0][i]"], "a"),
        ("...", ["node_b = topology[1][i]"], "b"),
        ("roots have no edge", ["if node_b == -1: continue"], "skip-root"),
        ("a cycle <=> an edge joins two nodes that are already connected", ["if dsu.is_same_set(node_a, node_b): return True"], "cycle"),
        ("edges are added after the test", ["dsu.union_sets(node_a, node_b)"], "union"),
        ("no cycle only after every edge was examined", ["return False"], "acyclic"),
    ], fixed=("topology", "DisjointSetUnion"))
    # every checker looks at every row: a walk that starts at one node sees only what hangs below it
    col.rule("R-ALLROWS", "each topology checker examines every row of the table it is given (forests, rows that do not hang below node 0, cycles): it loops over all rows / evaluates "
             "whole columns, and does not answer from a traversal started at a single node (which also never ends on a cycle through that node)", floor=3)
    for q in ("has_cyclic", "is_sorted", "is_bifurcate"):
        dd = repo.get_def(f"{CHK}.{q}")
        walks = [c for c in own_nodes(dd) if isinstance(c, ast.Call) and (dotted(c.func) or "").rsplit(".", 1)[-1] in ("traverse", "_traverse_dfs")]
        in_root_loop = [c for c in walks if any(isinstance(p_, ast.For) for p_ in _ancestors(repo, c, dd.node))]
        row_loop = any(isinstance(n, ast.For) and ("zip(*topology)" in norm_src(n.iter) or "range(" in norm_src(n.iter) or "enumerate(" in norm_src(n.iter)) for n in own_nodes(dd))
        whole = any(isinstance(c, ast.Call) and (dotted(c.func) or "").rsplit(".", 1)[-1] in ("all", "any", "count_nonzero", "unique", "bincount") for c in own_nodes(dd))
        what_a = f"{q}: every row of the table is examined"
        if walks and not in_root_loop and not row_loop and not whole:
            col.bad("R-ALLROWS", dd.qualname, dd.loc(walks[0]), what_a,
                    f"`{norm_src(walks[0])[:70]}` walks the table from one start node (node 0 by default): rows that do not hang below it -- the other trees of a forest, everything when the "
                    f"root is another node -- are never looked at and the answer is True whatever they contain; on a cycle through the start node the walk does not end",
                    stmt="all-rows", definite=True)
        elif row_loop or whole:
            col.ok("R-ALLROWS", dd.qualname, dd.loc(), what_a, "loops over all rows / evaluates whole columns", stmt="all-rows")
        else:
            col.unresolved("R-ALLROWS", dd.qualname, dd.loc(), what_a, "neither a loop over the rows, a whole-column expression nor a single walk recognised", stmt="all-rows")
    # a shortcut that answers from the numbering must be strict: `parent <= child` admits the self-parented node
    for q in ("has_cyclic", "is_sorted", "is_bifurcate"):
        dd = repo.get_def(f"{CHK}.{q}")
        for n in own_nodes(dd):
            if isinstance(n, ast.If) and any(isinstance(b, ast.Return) and isinstance(b.value, ast.Constant) for b in n.body):
                for c in ast.walk(n.test):
                    if isinstance(c, ast.Compare) and len(c.ops) == 1 and isinstance(c.ops[0], (ast.LtE, ast.GtE)):
                        sides = {norm_src(c.left), norm_src(c.comparators[0])}
                        if sides == {"topology[0]", "topology[1]"}:
                            col.bad("R-CHECK", dd.qualname, dd.loc(n), f"{q}: the answer is computed from the edges, for every table",
                                    f"`if {norm_src(n.test)}: {norm_src(n.body[0])}` answers from the numbering alone and admits equality: a node that is its "
                                    f"own parent (pid == id) passes the shortcut, i.e. a self-loop is not reported", stmt="shortcut", definite=True)
    s1 = repo.get_def(f"{CHK}.is_single_root")
    # connectivity is a statement about the edges: never decided from the number of "no parent" markers (a cyclic table has none and can still be connected)
    col.rule("R-CONNDEF", "is_single_root decides connectivity from the component labels on every path: no constant answer is returned under a test on the parent column / the -1 "
             "root marker (for tables with cycles the number of root markers says nothing: pid [1, 2, 0] has none and is connected)", floor=1)
    from .. import pathcond as _pc
    n_const = 0
    for r_ in own_nodes(s1):
        if isinstance(r_, ast.Return) and isinstance(r_.value, ast.Constant) and isinstance(r_.value.value, bool):
            tests_, _c = _pc.conditions_at(s1.node, r_)
            on_roots = [t_ for t_, _p in tests_ if "pid" in norm_src(t_) or "-1" in norm_src(t_) or "root" in norm_src(t_).lower()]
            verdict = None
            if on_roots and r_.value.value is False:
                # two or more root markers do imply two or more components; none does not (cycles).  Fold the tests with "number of root markers" = 0.
                import copy as _copy
                from ..rules.idxguard import _ev as _fold, _No as _NoFold

                class _Zero(ast.NodeTransformer):
                    def visit_Call(self, n):
                        if "-1" in norm_src(n) and any(k in norm_src(n.func) for k in ("count_nonzero", "sum", "len")):
                            return ast.copy_location(ast.Constant(value=0), n)
                        return self.generic_visit(n)

                    def visit_Name(self, n):
                        b_ = [a.value for a in own_nodes(s1) if isinstance(a, ast.Assign) and len(a.targets) == 1 and isinstance(a.targets[0], ast.Name) and a.targets[0].id == n.id]
                        if len(b_) == 1 and "-1" in norm_src(b_[0]) and isinstance(b_[0], ast.Call):
                            return self.visit(_copy.deepcopy(b_[0]))
                        return n
                try:
                    verdict = all(bool(_fold(_Zero().visit(_copy.deepcopy(t_)), {})) == p_ for t_, p_ in tests_)
                except _NoFold:
                    verdict = None
                if verdict is False:
                    n_const += 1
                    col.ok("R-CONNDEF", s1.qualname, s1.loc(r_), "connected or not is read off the component labels",
                           f"`return False` under `{norm_src(on_roots[0])[:60]}` cannot be taken with no root marker: two or more markers do mean two or more components", stmt="conn-by-rootcount")
                    continue
                if verdict is None:
                    n_const += 1
                    col.unresolved("R-CONNDEF", s1.qualname, s1.loc(r_), "connected or not is read off the component labels",
                                   f"`return False` under `{norm_src(on_roots[0])[:60]}`: cannot fold the test for a table without root markers", stmt="conn-by-rootcount")
                    continue
            if on_roots:
                n_const += 1
                col.bad("R-CONNDEF", s1.qualname, s1.loc(r_), "connected or not is read off the component labels",
                        f"`return {r_.value.value}` under `{norm_src(on_roots[0])[:70]}`: the answer is taken from the count of root markers; a table with a cycle has fewer markers than "
                        f"components (none at all for pid [1, 2, 0], or for a self-parented single node) and is answered wrongly", stmt="conn-by-rootcount", definite=True)
    if not n_const:
        col.ok("R-CONNDEF", s1.qualname, s1.loc(), "connected or not is read off the component labels", "no constant answer under a root-marker test", stmt="conn-by-rootcount")
    col.text_group("R-CHECK", s1.qualname, s1, [("connected <=> exactly one component label", ["return len(np.unique(get_dsu(df, names=names))) == 1"], "single")],
                   fixed=("df", "names", "get_dsu"))
    g = repo.get_def("swcgeom.core.swc_utils.base.get_dsu")
    col.text_group("R-CHECK", g.qualname, g, [
        ("initial label: own id for roots, parent id otherwise", ["dsu = np.where(df[names.pid] == -1, df[names.id], df[names.pid])"], "init"),
        ("ids are turned into row positions through a dict", ["id2idx = dict(zip(df[names.id], range(len(df))))"], "id2idx"),
        ("...", ["dsu = np.array([id2idx[i] for i in dsu], dtype=_any)"], "map"),
        ("pointer jumping until no label changes", ["if dsu[i] != dsu[p]:\n    dsu[i] = dsu[p]\n    flag = False"], "jump"),
    ], fixed=("df", "names"))
    u = repo.get_def("swcgeom.utils.dsu.DisjointSetUnion.find_parent")
    col.text_group("R-RANK", u.qualname, u, [
        ("find follows parents to the root and compresses the path", ["if node_id != self.element_parent[node_id]: self.element_parent[node_id] = self.find_parent(self.element_parent[node_id])"], "find"),
        ("...", ["return self.element_parent[node_id]"], "ret")])
    uu = repo.get_def("swcgeom.utils.dsu.DisjointSetUnion.union_sets")
    col.text_group("R-RANK", uu.qualname, uu, [
        ("the representatives of both arguments", ["root_a = self.find_parent(node_a)"], "ra"), ("...", ["root_b = self.find_parent(node_b)"], "rb"),
        ("smaller rank: the REPRESENTATIVE is re-parented", ["self.element_parent[root_a] = root_b"], "re-a"),
        ("larger or equal rank", ["self.element_parent[root_b] = root_a"], "re-b"),
        ("equal ranks: the new root's rank grows", ["self.rank[root_a] += 1"], "rank"),
    ], fixed=("node_a", "node_b"))
    ss = repo.get_def("swcgeom.utils.dsu.DisjointSetUnion.is_same_set")
    col.text_group("R-RANK", ss.qualname, ss, [("joined <=> same representative", ["return self.find_parent(node_a) == self.find_parent(node_b)"], "same")],
                   fixed=("node_a", "node_b"))
