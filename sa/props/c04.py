"""C04 -- tree traversal is structural recursion, at any depth."""

from __future__ import annotations

import ast

from ..model import AnalysisError, dotted, norm_src, own_nodes
from ..util import kwarg, names_in

BASE = "swcgeom.core.swc_utils.base"
ENTRIES = [f"{BASE}.traverse", "swcgeom.core.tree.Tree.traverse",
           "swcgeom.core.tree.Tree.Node.traverse"]


# Justified cycles: a view's accessor delegates to its owner's accessor, which is another
# view only when views are stacked by hand; the depth is the nesting of view objects, a
# constant of the object, independent of the number of nodes.
VIEW_ACCESSORS = tuple(f"swcgeom.core.{m}.{c}.{f}" for m, c in
                       (("path", "Path"), ("branch", "Branch"), ("compartment", "Compartment"))
                       for f in ("get_ndata", "keys"))


def recursion_free(ctx, col, rule, entries, what, allow=VIEW_ACCESSORS, exclude_kinds=("callback",)):
    """No strong cycle reachable from entries (callback edges = user code excluded).
    Weak edges met inside the slice make the instance UNRESOLVED."""
    cg = ctx.cg
    repo = ctx.repo
    defs = [repo.get_def(q) for q in entries]
    order, cycles = cg.cycles_cs([(d, d.cls) for d in defs], exclude_kinds=exclude_kinds)
    reach = list(dict.fromkeys(d for d, _ in order))
    weak = [e for d in reach for e in cg.out.get(d, []) if e.strength == "weak"]
    allowed = set(allow)
    bad = [c for c in cycles if not all(d.qualname in allowed for d in c)]
    ent = defs[0]
    facts = {"reachable_defs": [d.qualname for d in reach], "weak_edges": len(weak)}
    if bad:
        c = bad[0]
        col.bad(rule, c[0].qualname, c[0].loc(), what,
                f"recursion reachable from {ent.name}: cycle {' -> '.join(d.qualname for d in c)} "
                f"(interpreter stack grows with the input)", stmt="cycle:" + c[0].qualname,
                facts=facts)
    elif weak:
        # follow weak edges by name: a cycle only through them is 'cannot decide'
        reach2 = cg.reachable(defs, strengths=("strong", "weak"), exclude_kinds=exclude_kinds)
        cyc2 = cg.cycles(reach2, strengths=("strong", "weak"), exclude_kinds=exclude_kinds)
        cyc2 = [c for c in cyc2 if not all(d.qualname in allowed for d in c)]
        if cyc2:
            col.unresolved(rule, ent.qualname, ent.loc(), what,
                           f"{len(weak)} call(s) with unknown receiver; by-name resolution finds a "
                           f"cycle through {cyc2[0][0].qualname}", stmt="weak", facts=facts)
        else:
            col.ok(rule, ent.qualname, ent.loc(), what,
                   f"{len(reach)} defs reachable, no cycle (also none when the {len(weak)} "
                   f"unknown-receiver calls are resolved by name)", stmt="nocycle", facts=facts)
    else:
        col.ok(rule, ent.qualname, ent.loc(), what, f"{len(reach)} defs reachable, no cycle",
               stmt="nocycle", facts=facts)
    return reach


def run(ctx, col, tier):
    repo = ctx.repo
    col.rule("R-CG", "no strong call-graph cycle is reachable from the traversal entry points "
             "(callbacks are user code): stack depth of the kernel is a constant", floor=3)
    col.rule("R-FRAME", "explicit-stack DFS discipline of the kernel: LIFO frames, leave frame "
             "pushed before the child frames, one enter and one leave call site per frame outside "
             "inner loops, child receives the parent's enter result, leave receives the popped "
             "child values from the same child list, start node's value returned", floor=12,
             exhaustive=True, shape=True)
    col.rule("R-FWD", "Tree.traverse wraps both callbacks with the same node-wrapper and forwards "
             "them; Node.traverse forwards its own index as root", floor=3, shape=True)
    col.assumptions += ["list.append/pop are LIFO; dict preserves insertion order",
                        "callbacks supplied by users are outside the analysed program"]
    col.not_decided += ["values produced by the callbacks at run time"]

    for q in ENTRIES:
        recursion_free(ctx, col, "R-CG", [q], f"recursion-free from {q.split('.', 2)[-1]}")

    k = repo.get_def(f"{BASE}._traverse_dfs")
    col.guard(frame_discipline, ctx, col, k)
    col.guard(forwarders, ctx, col)


def frame_discipline(ctx, col, k):
    repo = ctx.repo
    R = "R-FRAME"
    q = k.qualname
    whiles = [n for n in own_nodes(k) if isinstance(n, ast.While)]
    if len(whiles) != 1:
        raise AnalysisError("anchor-vanished: the single work-list loop of _traverse_dfs")
    loop = whiles[0]
    # stack variable: popped in the loop
    pops = [n for n in ast.walk(loop) if isinstance(n, ast.Call) and isinstance(n.func, ast.Attribute)
            and n.func.attr == "pop" and isinstance(n.func.value, ast.Name)
            and n.func.value.id in names_in(loop.test)]
    if len(pops) != 1:
        raise AnalysisError("anchor-vanished: single `stack.pop()` of the loop variable")
    pop = pops[0]
    stack = pop.func.value.id
    col.check(not pop.args and not pop.keywords, R, q, k.loc(pop), "frames are taken LIFO",
              norm_src(pop), f"`{norm_src(pop)}` does not pop the most recent frame", stmt="pop")
    pop_stmt = repo.parent(pop)
    if not (isinstance(pop_stmt, ast.Assign) and isinstance(pop_stmt.targets[0], ast.Tuple)
            and len(pop_stmt.targets[0].elts) == 2):
        raise AnalysisError("anchor-vanished: `node, flag = stack.pop()`")
    node_v, flag_v = [e.id for e in pop_stmt.targets[0].elts]
    # arms
    arms = [s for s in loop.body if isinstance(s, ast.If) and flag_v in names_in(s.test)]
    if len(arms) != 1:
        raise AnalysisError("anchor-vanished: the enter/leave branch on the frame flag")
    arm = arms[0]
    neg = isinstance(arm.test, ast.UnaryOp) and isinstance(arm.test.op, ast.Not)
    enter_body, leave_body = (arm.orelse, arm.body) if neg else (arm.body, arm.orelse)
    params = k.params
    if "enter" not in params or "leave" not in params or "root" not in params:
        raise AnalysisError("anchor-vanished: enter/leave/root parameters of _traverse_dfs")

    def calls_of(name):
        return [n for n in own_nodes(k) if isinstance(n, ast.Call) and isinstance(n.func, ast.Name)
                and n.func.id == name]

    def within(node, body):
        return any(node is x for s in body for x in ast.walk(s))

    def in_inner_loop(node, body):
        for s in body:
            for x in ast.walk(s):
                if isinstance(x, (ast.For, ast.While, ast.ListComp, ast.GeneratorExp, ast.DictComp,
                                  ast.SetComp)) and any(node is y for y in ast.walk(x)) and x is not node:
                    return True
        return False

    # initial frame
    init = [n for n in own_nodes(k) if isinstance(n, (ast.Assign, ast.AnnAssign))
            and stack in [getattr(t, "id", None) for t in
                          (n.targets if isinstance(n, ast.Assign) else [n.target])]]
    ok = len(init) == 1 and isinstance(init[0].value, ast.List) and len(init[0].value.elts) == 1 \
        and isinstance(init[0].value.elts[0], ast.Tuple) \
        and norm_src(init[0].value.elts[0].elts[0]) == "root" \
        and isinstance(init[0].value.elts[0].elts[1], ast.Constant) \
        and bool(init[0].value.elts[0].elts[1].value) is True
    col.check(ok, R, q, k.loc(init[0]) if init else k.loc(), "work list starts with the enter "
              "frame of the start node only", norm_src(init[0]) if init else "",
              "initial work list is not [(root, enter)]", stmt="init")

    # enter call
    ec = calls_of("enter")
    ok = len(ec) == 1 and within(ec[0], enter_body) and not in_inner_loop(ec[0], enter_body)
    col.check(ok, R, q, k.loc(ec[0]) if ec else k.loc(), "exactly one enter(...) call site, in "
              "the enter arm, outside the child loop", f"{len(ec)} site(s)",
              f"{len(ec)} enter call site(s) / not once per frame", stmt="enter-site")
    lc = calls_of("leave")
    ok = len(lc) == 1 and within(lc[0], leave_body) and not in_inner_loop(lc[0], leave_body)
    col.check(ok, R, q, k.loc(lc[0]) if lc else k.loc(), "exactly one leave(...) call site, in "
              "the leave arm, outside loops", f"{len(lc)} site(s)",
              f"{len(lc)} leave call site(s) / not once per frame", stmt="leave-site")
    if len(ec) != 1 or len(lc) != 1:
        return
    ecall, lcall = ec[0], lc[0]

    # enter args: (node, value popped from params[node])
    pre = None
    for s in enter_body:
        if isinstance(s, ast.Assign) and isinstance(s.value, ast.Call) \
                and isinstance(s.value.func, ast.Attribute) and s.value.func.attr == "pop" \
                and norm_src(s.value.args[0] if s.value.args else s.value) == node_v:
            pre = (s.targets[0].id, s.value.func.value.id)
    ok = pre is not None and len(ecall.args) == 2 and norm_src(ecall.args[0]) == node_v \
        and norm_src(ecall.args[1]) == pre[0]
    col.check(ok, R, q, k.loc(ecall), "enter receives (node, value handed down by the parent)",
              norm_src(ecall), f"`{norm_src(ecall)}` does not pass the node and its parent's value",
              stmt="enter-args")
    params_map = pre[1] if pre else None
    # result of enter -> cur
    est = repo.parent(ecall)
    while est is not None and not isinstance(est, ast.stmt):
        est = repo.parent(est)
    cur = est.targets[0].id if isinstance(est, ast.Assign) and isinstance(est.targets[0], ast.Name) else None
    # start node gets None
    pinit = [n for n in own_nodes(k) if isinstance(n, ast.Assign) and isinstance(n.targets[0], ast.Name)
             and n.targets[0].id == params_map]
    ok = len(pinit) == 1 and isinstance(pinit[0].value, ast.Dict) and len(pinit[0].value.keys) == 1 \
        and norm_src(pinit[0].value.keys[0]) == "root" \
        and isinstance(pinit[0].value.values[0], ast.Constant) and pinit[0].value.values[0].value is None
    col.check(ok, R, q, k.loc(pinit[0]) if pinit else k.loc(), "the start node receives None",
              norm_src(pinit[0]) if pinit else "", "start value is not {root: None}", stmt="start-none")

    # leave frame push dominates child pushes; children get cur
    pushes = [n for s in enter_body for n in ast.walk(s) if isinstance(n, ast.Call)
              and isinstance(n.func, ast.Attribute) and n.func.attr == "append"
              and isinstance(n.func.value, ast.Name) and n.func.value.id == stack]
    leave_push = [p for p in pushes if p.args and isinstance(p.args[0], ast.Tuple)
                  and norm_src(p.args[0].elts[0]) == node_v
                  and isinstance(p.args[0].elts[1], ast.Constant) and not p.args[0].elts[1].value]
    child_loops = [s for s in enter_body if isinstance(s, ast.For)]
    ok = len(leave_push) == 1 and len(child_loops) == 1
    child_iter = None
    if ok:
        cl = child_loops[0]
        child_iter = cl.iter
        cv = cl.target.id if isinstance(cl.target, ast.Name) else None
        cpush = [p for p in pushes if any(p is x for x in ast.walk(cl))]
        # position in the arm: leave push statement precedes the loop statement
        idx_push = next(i for i, s in enumerate(enter_body) if any(leave_push[0] is x for x in ast.walk(s)))
        idx_loop = enter_body.index(cl)
        idx_enter = next(i for i, s in enumerate(enter_body) if any(ecall is x for x in ast.walk(s)))
        ok_order = idx_push < idx_loop and not in_inner_loop(leave_push[0], enter_body)
        col.check(ok_order, R, q, k.loc(leave_push[0]), "the node's leave frame is pushed before "
                  "(below) all of its child frames", "", "child frames would be popped after the "
                  "node's leave frame: leave runs before the children", stmt="push-order")
        ok_child = len(cpush) == 1 and isinstance(cpush[0].args[0], ast.Tuple) \
            and norm_src(cpush[0].args[0].elts[0]) == cv \
            and isinstance(cpush[0].args[0].elts[1], ast.Constant) and cpush[0].args[0].elts[1].value is True
        col.check(ok_child, R, q, k.loc(cl), "one enter frame per child", norm_src(cl.iter),
                  "child loop does not push exactly one (child, enter) frame per child", stmt="child-push")
        hand = [s for s in cl.body if isinstance(s, ast.Assign) and isinstance(s.targets[0], ast.Subscript)
                and norm_src(s.targets[0].value) == params_map and norm_src(s.targets[0].slice) == cv]
        ok_hand = len(hand) == 1 and cur is not None and norm_src(hand[0].value) == cur and idx_enter < idx_loop
        col.check(ok_hand, R, q, k.loc(hand[0]) if hand else k.loc(cl), "each child is handed the "
                  "value this node's enter call returned", norm_src(hand[0]) if hand else "",
                  "children do not receive the result of their parent's enter call", stmt="hand-down")
    else:
        col.bad(R, q, k.loc(arm), "enter arm pushes one leave frame and loops once over children",
                f"{len(leave_push)} leave pushes, {len(child_loops)} child loops", stmt="push-shape")

    # leave arm: children values popped from vals for the same child list
    comp = None
    for s in leave_body:
        for n in ast.walk(s):
            if isinstance(n, ast.ListComp) and isinstance(n.elt, ast.Call) \
                    and isinstance(n.elt.func, ast.Attribute) and n.elt.func.attr == "pop":
                comp = n
    ok = comp is not None and child_iter is not None and \
        norm_src(comp.generators[0].iter) == norm_src(child_iter) and not comp.generators[0].ifs \
        and norm_src(comp.elt.args[0]) == norm_src(comp.generators[0].target)
    vals_map = comp.elt.func.value.id if comp is not None and isinstance(comp.elt.func.value, ast.Name) else None
    col.check(ok, R, q, k.loc(comp) if comp else k.loc(arm), "leave collects one popped value per "
              "child, from the same child list the enter arm pushed, in order",
              norm_src(comp) if comp else "", "the child values handed to leave are not exactly "
              "those of the node's children", stmt="collect")
    cst = repo.parent(comp) if comp is not None else None
    cname = cst.targets[0].id if isinstance(cst, ast.Assign) and isinstance(cst.targets[0], ast.Name) else None
    ok = len(lcall.args) == 2 and norm_src(lcall.args[0]) == node_v and norm_src(lcall.args[1]) == cname
    col.check(ok, R, q, k.loc(lcall), "leave receives (node, collected child values)",
              norm_src(lcall), f"`{norm_src(lcall)}`", stmt="leave-args")
    lst = repo.parent(lcall)
    while lst is not None and not isinstance(lst, ast.stmt):
        lst = repo.parent(lst)
    ok = isinstance(lst, ast.Assign) and isinstance(lst.targets[0], ast.Subscript) \
        and norm_src(lst.targets[0].value) == vals_map and norm_src(lst.targets[0].slice) == node_v
    col.check(ok, R, q, k.loc(lst) if lst is not None else k.loc(), "the node's value is stored "
              "under the node", norm_src(lst.targets[0]) if ok else "",
              "leave result is not stored as vals[node]", stmt="store")
    # None-callback handling keeps the frame discipline: `f(...) if f is not None else None`
    for nm, call in (("enter", ecall), ("leave", lcall)):
        par = repo.parent(call)
        ok = isinstance(par, ast.IfExp) and par.body is call and norm_src(par.test) == f"{nm} is not None" \
            and isinstance(par.orelse, ast.Constant) and par.orelse.value is None
        col.check(ok, R, q, k.loc(call), f"missing {nm} callback yields None, frames unchanged",
                  norm_src(par) if par is not None else "", "callback-absent case is not `None`",
                  stmt=f"none:{nm}")
    # return value
    rets = [n for n in own_nodes(k) if isinstance(n, ast.Return)]
    ok = len(rets) == 1 and norm_src(rets[0].value) == f"{vals_map}[root]" and rets[0] in k.node.body
    col.check(ok, R, q, k.loc(rets[0]) if rets else k.loc(), "returns the start node's value "
              "after the loop", norm_src(rets[0]) if rets else "", "does not return vals[root]",
              stmt="return")
    # loop condition: runs until the work list is empty; no break
    t = norm_src(loop.test)
    ok = t in (f"len({stack}) != 0", f"len({stack}) > 0", stack, f"len({stack})") and \
        not any(isinstance(x, (ast.Break, ast.Return)) for x in ast.walk(loop))
    col.check(ok, R, q, k.loc(loop), "loop runs until the work list is empty (no early exit)", t,
              f"loop condition `{t}` / early exit inside the loop", stmt="loop-cond")
    # children map: key = parent id (2nd component), value = child id (1st component)
    fors = [s for s in k.node.body if isinstance(s, ast.For)]
    ok = False
    detail = ""
    if len(fors) == 1 and isinstance(fors[0].target, ast.Tuple) and len(fors[0].target.elts) == 2 \
            and norm_src(fors[0].iter) == "zip(*topology)" and child_iter is not None:
        a, b = [e.id for e in fors[0].target.elts]
        cm = None
        for n in ast.walk(child_iter):
            if isinstance(n, ast.Name) and n.id not in (node_v,):
                cm = n.id
                break
        apps = [n for n in ast.walk(fors[0]) if isinstance(n, ast.Call) and isinstance(n.func, ast.Attribute)
                and n.func.attr == "append" and isinstance(n.func.value, ast.Subscript)]
        ok = len(apps) == 1 and norm_src(apps[0].func.value.value) == cm \
            and norm_src(apps[0].func.value.slice) == b and norm_src(apps[0].args[0]) == a \
            and not any(isinstance(x, (ast.If, ast.Continue, ast.Break)) for x in ast.walk(fors[0]))
        detail = norm_src(apps[0]) if apps else ""
    col.check(ok, R, q, k.loc(fors[0]) if fors else k.loc(), "children map: parent id (2nd "
              "topology component) -> child ids (1st component), every row, file order", detail,
              "children map is not built as map[pid].append(id) for every (id, pid)", stmt="children-map")
    ok = child_iter is not None and norm_src(child_iter).endswith(f".get({node_v}, [])")
    col.check(ok, R, q, k.loc(child_iter) if child_iter is not None else k.loc(),
              "children of a node are looked up under the node's own id", norm_src(child_iter) if child_iter is not None else "",
              "child lookup key is not the current node", stmt="child-key")


def forwarders(ctx, col):
    repo = ctx.repo
    R = "R-FWD"
    tt = repo.get_def("swcgeom.core.tree.Tree.traverse")
    wrap = tt.nested.get("wrap")
    if wrap is None:
        raise AnalysisError("anchor-vanished: Tree.traverse.<locals>.wrap")
    fw = wrap.nested.get("fn_wrapped")
    ok = False
    if fw is not None:
        rets = [n for n in own_nodes(fw) if isinstance(n, ast.Return)]
        first = fw.params[0] if fw.params else None
        ok = len(rets) == 1 and isinstance(rets[0].value, ast.Call) and norm_src(rets[0].value.func) == "fn" \
            and rets[0].value.args and norm_src(rets[0].value.args[0]) == f"self[{first}]" \
            and any(isinstance(a, ast.Starred) for a in rets[0].value.args)
    col.check(ok, R, wrap.qualname, wrap.loc(), "wrapper turns the node id into the node handle "
              "of the same tree and forwards the remaining arguments and the result",
              "", "wrapper does not call fn(self[idx], *args) and return its result", stmt="wrap")
    # both callbacks go through wrap and are forwarded to the kernel
    calls = [n for n in own_nodes(tt) if isinstance(n, ast.Call) and isinstance(n.func, ast.Name)
             and n.func.id == "traverse"]
    ok = False
    if len(calls) == 1:
        c = calls[0]
        e, l = kwarg(c, "enter"), kwarg(c, "leave")
        asg = [n for n in own_nodes(tt) if isinstance(n, ast.Assign) and isinstance(n.targets[0], ast.Tuple)
               and [norm_src(x) for x in n.targets[0].elts] == ["enter", "leave"]]
        ok = e is not None and l is not None and norm_src(e) == "enter" and norm_src(l) == "leave" \
            and len(asg) == 1 and norm_src(asg[0].value) == "(wrap(enter), wrap(leave))" \
            and any(k.arg is None for k in c.keywords) \
            and norm_src(c.args[0]) == "topology"
        topo = [n for n in own_nodes(tt) if isinstance(n, ast.Assign) and norm_src(n.targets[0]) == "topology"]
        ok = ok and len(topo) == 1 and norm_src(topo[0].value) == "(self.id(), self.pid())"
    col.check(ok, R, tt.qualname, tt.loc(), "enter->enter, leave->leave, both wrapped, topology = "
              "(ids, parent ids), remaining options forwarded", "", "callbacks/topology are not "
              "forwarded one-to-one to the kernel", stmt="forward")
    nt = repo.get_def("swcgeom.core.tree.Tree.Node.traverse")
    rets = [n for n in own_nodes(nt) if isinstance(n, ast.Return)]
    ok = len(rets) == 1 and isinstance(rets[0].value, ast.Call) \
        and norm_src(rets[0].value.func) == "self.attach.traverse" \
        and kwarg(rets[0].value, "root") is not None and norm_src(kwarg(rets[0].value, "root")) in ("self.idx", "self.id") \
        and any(k.arg is None for k in rets[0].value.keywords)
    col.check(ok, R, nt.qualname, nt.loc(), "starts the owner's traversal at this node",
              norm_src(rets[0].value) if rets else "", "does not forward root=self.idx", stmt="node-root")
    # mode dispatch of swc_utils.traverse
    tr = repo.get_def(f"{BASE}.traverse")
    calls = [n for n in own_nodes(tr) if isinstance(n, ast.Call) and dotted(n.func) == "_traverse_dfs"]
    ok = len(calls) == 1 and norm_src(calls[0].args[0]) == "topology" and \
        any(k.arg is None and norm_src(k.value) == "kwargs" for k in calls[0].keywords) and \
        isinstance(repo.parent(calls[0]), ast.Return)
    col.check(ok, R, tr.qualname, tr.loc(), "dispatches to the DFS kernel with all options and "
              "returns its result", "", "kernel call does not forward topology/**kwargs or is not returned",
              stmt="dispatch")
