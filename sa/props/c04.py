"""C04 -- tree traversal is structural recursion, at any depth."""

from __future__ import annotations

import ast

from ..model import AnalysisError, dotted, norm_src, own_nodes
from ..util import kwarg, names_in

BASE = "swcgeom.core.swc_utils.base"
ENTRIES = [f"{BASE}.traverse", "swcgeom.core.tree.Tree.traverse",
           "swcgeom.core.tree.Tree.Node.traverse"]


# Justified cycles: a view's accessor delegates to its owner's accessor, which is another
# view only when views are stacked by hand; the depth is the nesting of view objects, a
# constant of the object, independent of the number of nodes.
VIEW_ACCESSORS = tuple(f"swcgeom.core.{m}.{c}.{f}" for m, c in
                       (("path", "Path"), ("branch", "Branch"), ("compartment", "Compartment"))
                       for f in ("get_ndata", "keys"))


def recursion_free(ctx, col, rule, entries, what, allow=VIEW_ACCESSORS, exclude_kinds=("callback",)):
    """No strong cycle reachable from entries (callback edges = user code excluded).
    Weak edges met inside the slice make the instance UNRESOLVED."""
    cg = ctx.cg
    repo = ctx.repo
    defs = [repo.get_def(q) for q in entries]
    order, cycles = cg.cycles_cs([(d, d.cls) for d in defs], exclude_kinds=exclude_kinds)
    reach = list(dict.fromkeys(d for d, _ in order))
    weak = [e for d in reach for e in cg.out.get(d, []) if e.strength == "weak"]
    allowed = set(allow)
    bad = [c for c in cycles if not all(d.qualname in allowed for d in c)]
    ent = defs[0]
    facts = {"reachable_defs": [d.qualname for d in reach], "weak_edges": len(weak)}
    if bad:
        c = bad[0]
        col.bad(rule, c[0].qualname, c[0].loc(), what,
                f"recursion reachable from {ent.name}: cycle {' -> '.join(d.qualname for d in c)} "
                f"(interpreter stack grows with the input)", stmt="cycle:" + c[0].qualname,
                facts=facts)
    elif weak:
        # follow weak edges by name: a cycle only through them is 'cannot decide'
        reach2 = cg.reachable(defs, strengths=("strong", "weak"), exclude_kinds=exclude_kinds)
        cyc2 = cg.cycles(reach2, strengths=("strong", "weak"), exclude_kinds=exclude_kinds)
        cyc2 = [c for c in cyc2 if not all(d.qualname in allowed for d in c)]
        if cyc2:
            col.unresolved(rule, ent.qualname, ent.loc(), what,
                           f"{len(weak)} call(s) with unknown receiver; by-name resolution finds a "
                           f"cycle through {cyc2[0][0].qualname}", stmt="weak", facts=facts)
        else:
            col.ok(rule, ent.qualname, ent.loc(), what,
                   f"{len(reach)} defs reachable, no cycle (also none when the {len(weak)} "
                   f"unknown-receiver calls are resolved by name)", stmt="nocycle", facts=facts)
    else:
        col.ok(rule, ent.qualname, ent.loc(), what, f"{len(reach)} defs reachable, no cycle",
               stmt="nocycle", facts=facts)
    return reach


def _traverse_by_value(ctx, col):
    """R-TRAVVAL: `_traverse_dfs` folded (sa/objfold.py) over every rooted tree of up to six nodes, every start node and the three callback combinations, with recording callbacks
    supplied by the analysis: the property's clauses are read off the recorded call log."""
    from ..objfold import Budget, ObjEval, Unsupported, small_trees
    repo = ctx.repo
    col.rule("R-TRAVVAL", "the traversal folded exactly over all 154 rooted trees of up to six nodes, every start node and enter+leave / enter only / leave only (2619 traversals) with recording "
             "callbacks (enter returns idx % 3, so falsy values travel too): enter is called exactly once per node of the start node's subtree and for no other node, after its parent's call and "
             "with the value that call returned (None for the start node); leave exactly once per such node, after all its children, with exactly their values; the start node's value is "
             "returned -- whatever the work list looks like", floor=1, exhaustive=True)
    d = repo.get_def("swcgeom.core.swc_utils.base._traverse_dfs")
    helpers = {x.name: x.node for x in repo.all_defs() if x.module is d.module and x.parent is None and x.cls is None and not x.is_lambda}
    bad = und = None
    n_w = 0
    for pid in small_trees(6):
        ids = list(range(len(pid)))
        kids = {i: [j for j in ids if pid[j] == i] for i in ids}
        for start in ids:
            sub, st = set(), [start]
            while st:
                v = st.pop()
                sub.add(v)
                st.extend(kids[v])
            for mode in ("both", "enter", "leave"):
                log = []

                def enter(i, pre, log=log):
                    log.append(("E", i, pre))
                    return i % 3

                def leave(i, ch, log=log):
                    log.append(("L", i, sorted(ch, key=repr) if isinstance(ch, list) else ch))
                    return i % 2
                args = {"topology": [ids, list(pid)], "root": start, "enter": enter if mode != "leave" else None, "leave": leave if mode != "enter" else None}
                try:
                    ret = ObjEval(pid, helpers).run_free(d.node, args)
                except (Unsupported, Budget) as x:
                    und = f"{type(x).__name__}: {x}"
                    break
                except Exception as x:  # noqa: BLE001
                    und = f"{type(x).__name__}: {x}"
                    break
                n_w += 1
                E = [x for x in log if x[0] == "E"]
                L = [x for x in log if x[0] == "L"]
                why = None
                if mode != "leave":
                    pos = {x[1]: k for k, x in enumerate(log) if x[0] == "E"}
                    if sorted(x[1] for x in E) != sorted(sub):
                        why = f"enter is called for nodes {sorted(x[1] for x in E)}, the subtree of the start node is {sorted(sub)}"
                    else:
                        for _t, i, pre in E:
                            want = None if i == start else pid[i] % 3
                            if pre != want:
                                why = f"enter({i}) receives {pre!r}; its parent's call returned {want!r}" + (" (a falsy value is dropped on the way down)" if not want and want is not None else "")
                                break
                            if i != start and pos[pid[i]] > pos[i]:
                                why = f"enter({i}) is called before enter of its parent {pid[i]}"
                                break
                if why is None and mode != "enter":
                    posl = {x[1]: k for k, x in enumerate(log) if x[0] == "L"}
                    if sorted(x[1] for x in L) != sorted(sub):
                        why = f"leave is called for nodes {sorted(x[1] for x in L)}, the subtree of the start node is {sorted(sub)}"
                    else:
                        for _t, i, ch in L:
                            if ch != sorted([c % 2 for c in kids[i]], key=repr):
                                why = f"leave({i}) receives {ch!r}; its children's calls returned {sorted(c % 2 for c in kids[i])}"
                                break
                            if any(posl[c] > posl[i] for c in kids[i]):
                                why = f"leave({i}) is called before one of its children"
                                break
                        if why is None and ret != start % 2:
                            why = f"the traversal returns {ret!r}; leave of the start node returned {start % 2}"
                if why:
                    bad = (pid, start, mode, why)
                    break
            if bad or und:
                break
        if bad or und:
            break
    what = "traversal = structural recursion over the start node's subtree"
    if bad is not None:
        pid, start, mode, why = bad
        col.bad("R-TRAVVAL", d.qualname, d.loc(), what, f"tree with parents {pid}, start node {start}, callbacks: {mode}: {why}", stmt="travval", definite=True)
    elif und is not None:
        col.unresolved("R-TRAVVAL", d.qualname, d.loc(), what, f"cannot fold the traversal: {und}", stmt="travval")
    else:
        col.ok("R-TRAVVAL", d.qualname, d.loc(), what, f"{n_w} traversals folded", stmt="travval")


def run(ctx, col, tier):
    repo = ctx.repo
    from ..rules import stateless as _stateless_memo
    _stateless_memo.run_memo(ctx, col)
    from ..rules import smalllints2 as _s2
    _s2.run_freshnode(ctx, col, ('swcgeom.core.tree', 'swcgeom.core.swc_utils.base', 'swcgeom.core.node'))
    col.guard(_traverse_by_value, ctx, col)
    from ..rules import opaque as _opaque
    _opaque.run(ctx, col, ('swcgeom.core.swc_utils.base', 'swcgeom.core.tree', 'swcgeom.core.node'))
    from ..rules import idxguard as _idxguard
    _idxguard.run(ctx, col, ('swcgeom.core.swc_utils.base', 'swcgeom.core.tree', 'swcgeom.core.node'), floor=1)
    from ..rules import rowslice as _rowslice
    _rowslice.run(ctx, col, ('swcgeom.core.tree', 'swcgeom.core.tree_utils', 'swcgeom.core.tree_utils_impl', 'swcgeom.core.swc_utils.base', 'swcgeom.core.swc_utils.subtree', 'swcgeom.core.swc_utils.normalizer', 'swcgeom.transforms.tree'))
    # a traversal started from a handle relies on the handle's position being normalised (0..n-1): the integer arm of Tree.__getitem__
    from .c09 import idxnorm as _idxnorm
    col.rule("R-IDXNORM", "node handles obtained by index carry a normalised position: the integer arm of Tree.__getitem__ has the table key<-n -> IndexError, "
             "-n<=key<0 -> key+n, 0<=key<n -> key, key>=n -> IndexError (a handle with a negative position starts a traversal at a key that is not in the "
             "children index, or at the 'no parent' key -1)", floor=8, exhaustive=True)
    col.guard(_idxnorm, ctx, col, ("swcgeom.core.tree.Tree.__getitem__",))
    col.guard(start_guard, ctx, col)
    from ..rules import rootpos as _rootpos
    _rootpos.run(ctx, col, ('swcgeom.core.tree', 'swcgeom.core.swc_utils.base'))
    col.rule("R-CG", "no strong call-graph cycle is reachable from the traversal entry points "
             "(callbacks are user code): stack depth of the kernel is a constant", floor=3)
    col.rule("R-FRAME", "explicit-stack DFS discipline of the kernel: LIFO frames, leave frame "
             "pushed before the child frames, one enter and one leave call site per frame outside "
             "inner loops, child receives the parent's enter result, leave receives the popped "
             "child values from the same child list, start node's value returned", floor=12,
             exhaustive=True, shape=True)
    col.rule("R-FWD", "Tree.traverse wraps both callbacks with the same node-wrapper and forwards "
             "them; Node.traverse forwards its own index as root", floor=3, shape=True)
    col.rule("R-ORDER", "no traversal path depends on the node numbering: no loop over rows in storage "
             "order reads, at the row's parent, a container it fills in that loop (a 'parents are listed "
             "first' shortcut); zero expected, positive examples kept", floor=1)
    col.assumptions += ["list.append/pop are LIFO; dict preserves insertion order",
                        "callbacks supplied by users are outside the analysed program"]
    col.not_decided += ["values produced by the callbacks at run time"]

    for q in ENTRIES:
        recursion_free(ctx, col, "R-CG", [q], f"recursion-free from {q.split('.', 2)[-1]}")

    from ..rules import orderdep
    col.guard(orderdep.check, ctx, col, "R-ORDER", (BASE, "swcgeom.core.tree"), "traversal code")
    k = repo.get_def(f"{BASE}._traverse_dfs")
    col.guard(frame_discipline, ctx, col, k)
    col.guard(forwarders, ctx, col)


def frame_discipline(ctx, col, k):
    """The explicit-stack kernel, obligation by obligation.  Every obligation is a statement of a
    known form; all forms are matched under ONE consistent renaming of the kernel's locals
    (sa/match.find_group), so the check is indifferent to renamed locals and statement order
    within a block, reports a statement that is present but says something else (a different
    constant, operand role, argument) as a violation, and anything it cannot recognise as
    UNRESOLVED."""
    repo = ctx.repo
    R = "R-FRAME"
    q = k.qualname
    params = k.params
    if "enter" not in params or "leave" not in params or "root" not in params:
        raise AnalysisError("anchor-vanished: enter/leave/root parameters of _traverse_dfs")
    fixed = ("enter", "leave", "root", "topology")
    items = [
        ("work list starts with the enter frame of the start node only",
         ["stack = [(root, True)]", "stack: list[tuple[int, bool]] = [(root, True)]"], "init"),
        ("the start node receives None", ["params = {root: None}"], "start-none"),
        ("frames are taken LIFO", ["idx, is_enter = stack.pop()"], "pop"),
        ("enter receives the value handed down by the parent (taken out of the hand-down map)", ["pre = params.pop(idx)"], "pre"),
        ("exactly the call enter(node, handed-down value); a missing enter callback yields None",
         ["cur = enter(idx, pre) if enter is not None else None", "cur = None if enter is None else enter(idx, pre)"], "enter-call"),
        ("the node's leave frame is pushed", ["stack.append((idx, False))"], "leave-push"),
        ("one enter frame per child", ["stack.append((child, True))"], "child-push"),
        ("each child is handed the value this node's enter call returned", ["params[child] = cur"], "hand-down"),
        ("children are looked up under the node's own id", ["for child in children_map.get(idx, []): pass"], "child-key-loop") if False else
        ("leave collects one popped value per child of this node, in the child list's order",
         ["children = [vals.pop(i) for i in children_map.get(idx, [])]"], "collect"),
        ("leave receives (node, collected child values) and its result is stored under the node; a missing leave callback yields None",
         ["vals[idx] = leave(idx, children) if leave is not None else None", "vals[idx] = None if leave is None else leave(idx, children)"], "leave-call"),
        ("returns the start node's value", ["return vals[root]"], "return"),
    ]
    # the map-building loop has its own locals (the kernel reuses a name there): matched on its own
    map_items = [("children map: parent id (2nd topology component) -> child ids (1st component)",
                  ["children_map[pid].append(idx)", "children_map.setdefault(pid, []).append(idx)"], "children-map")]
    col.text_group(R, q, k, map_items, fixed=fixed)
    res = col.text_group(R, q, k, items, fixed=fixed)
    by = {it[2]: r for it, r in zip(items, res)}
    node_of = {key: (r.facts.get("node") if r.facts else None) for key, r in by.items()}
    # locate nodes again for order obligations
    from .. import match
    found = match.find_group(k.node.body, [it[1] for it in items], fixed)
    at = {it[2]: f for it, f in zip(items, found)}
    at["children-map"] = match.find_group(k.node.body, [map_items[0][1]], fixed)[0]

    def same(key):
        return at[key][0] == match.SAME
    # the children-map loop unpacks (id, parent id) in that order from zip(*topology)
    if same("children-map"):
        n = at["children-map"][1]
        loop = repo.parent(n)
        while loop is not None and not isinstance(loop, ast.For):
            loop = repo.parent(loop)
        app = n if isinstance(n, ast.Call) else next((x for x in ast.walk(n) if isinstance(x, ast.Call)), None)
        ok = None
        if isinstance(loop, ast.For) and isinstance(loop.target, ast.Tuple) and len(loop.target.elts) == 2 \
                and norm_src(loop.iter) == "zip(*topology)" and app is not None:
            a, b = [e.id for e in loop.target.elts]
            key = app.func.value
            keyname = norm_src(key.slice) if isinstance(key, ast.Subscript) else (norm_src(key.args[0]) if isinstance(key, ast.Call) and key.args else None)
            val = norm_src(app.args[0]) if app.args else None
            if keyname in (a, b) and val in (a, b):
                ok = (keyname == b and val == a)
        sliced = None
        if isinstance(loop, ast.For) and isinstance(loop.iter, ast.Call) and dotted(loop.iter.func) == "zip":
            # the index must be built from ALL rows: a slice of the id / parent columns (rows from the start node on, rows up to ...) leaves out
            # nodes whenever the numbering does not follow the tree (a descendant stored in front of the start node)
            for a_ in loop.iter.args:
                for x_ in ast.walk(a_):
                    if isinstance(x_, ast.Subscript) and isinstance(x_.slice, ast.Slice) and (x_.slice.lower is not None or x_.slice.upper is not None):
                        sliced = x_
        if sliced is not None:
            col.bad(R, q, k.loc(loop), "the children index is built from every row of the table",
                    f"`for {norm_src(loop.target)} in {norm_src(loop.iter)}` reads only the rows `{norm_src(sliced)}`: a node stored outside that range is never "
                    f"indexed, so a traversal silently skips it and everything below it unless every parent is stored before its children", stmt="map-rows", definite=True)
        elif ok is None:
            col.unresolved(R, q, k.loc(n), "children map is keyed by the parent id and lists the child ids", "loop shape not recognised", stmt="map-roles")
        else:
            col.check(ok, R, q, k.loc(n), "children map is keyed by the parent id and lists the child ids",
                      norm_src(loop.target), f"`for {norm_src(loop.target)} in zip(*topology)`: the map is keyed by the first component "
                      f"(the node's own id) instead of the second (its parent's)", stmt="map-roles", definite=True)
            # every row is entered: a conditional skip that depends on the start node drops rows of its subtree
            skips = [x for x in ast.walk(loop) if isinstance(x, (ast.If, ast.Continue, ast.Break))]
            dep_root = any(isinstance(y, ast.Name) and y.id == "root" for x in skips for y in ast.walk(x))
            if dep_root:
                col.bad(R, q, k.loc(skips[0]), "every row enters the children map",
                        f"`{norm_src(skips[0])[:80]}` drops rows depending on the start node: ids are not ordered along the tree, so nodes "
                        f"of the start node's subtree can be lost", stmt="map-all", definite=True)
            elif skips:
                col.unresolved(R, q, k.loc(skips[0]), "every row enters the children map", f"conditional `{norm_src(skips[0])[:60]}` in the map loop", stmt="map-all")
            else:
                col.ok(R, q, k.loc(loop), "every row enters the children map", stmt="map-all")
    # order: the leave frame is pushed below the child frames; enter is called before the children are pushed
    if same("leave-push") and same("child-push") and same("enter-call"):
        lp, cp, ec = at["leave-push"][1], at["child-push"][1], at["enter-call"][1]

        def stmt_of(n):
            while n is not None and not isinstance(n, ast.stmt):
                n = repo.parent(n)
            return n

        def block_and_index(n):
            st = stmt_of(n)
            par = repo.parent(st)
            for f in ("body", "orelse", "finalbody"):
                b = getattr(par, f, None)
                if isinstance(b, list) and st in b:
                    return b, b.index(st), st
            return None, None, st
        lb, li, lst = block_and_index(lp)
        cl = stmt_of(cp)
        while cl is not None and not isinstance(cl, (ast.For, ast.While)):
            cl = repo.parent(cl)
        cb, ci, _ = block_and_index(cl) if cl is not None else (None, None, None)
        eb, ei, _ = block_and_index(ec)
        if lb is not None and lb is cb and lb is eb:
            col.check(li < ci, R, q, k.loc(lp), "the node's leave frame is pushed before (below) all of its child frames", "",
                      "the leave frame is pushed after the child frames: with LIFO frames leave would run before the children",
                      stmt="push-order", definite=True)
            col.check(ei < ci, R, q, k.loc(ec), "enter is called before the children are scheduled", "",
                      "children are scheduled before this node's enter call: they cannot receive its result", stmt="enter-order", definite=True)
        else:
            col.unresolved(R, q, k.loc(lp), "the node's leave frame is pushed before (below) all of its child frames", "statements are not in one block", stmt="push-order")
        # the child loop iterates the children of this node (same expression as the leave arm collects)
        if cl is not None and isinstance(cl, ast.For) and same("collect"):
            comp = at["collect"][1]
            lc = next((x for x in ast.walk(comp) if isinstance(x, ast.ListComp)), None)
            if lc is not None:
                col.check(norm_src(cl.iter) == norm_src(lc.generators[0].iter), R, q, k.loc(cl),
                          "the enter arm schedules and the leave arm collects the same child list", norm_src(cl.iter),
                          f"enter arm iterates `{norm_src(cl.iter)}`, leave arm collects over `{norm_src(lc.generators[0].iter)}`",
                          stmt="same-children", definite=True)
    # one call site each
    for nm in ("enter", "leave"):
        calls = [n for n in own_nodes(k) if isinstance(n, ast.Call) and isinstance(n.func, ast.Name) and n.func.id == nm]
        col.check(len(calls) == 1, R, q, k.loc(calls[0]) if calls else k.loc(), f"exactly one {nm}(...) call site per frame",
                  f"{len(calls)} site(s)", f"{len(calls)} call sites of `{nm}`: a node is {nm}ed more or less than once",
                  stmt=f"{nm}-site", definite=len(calls) != 1 and len(calls) > 1)
    # the loop runs until the work list is empty
    whiles = [n for n in own_nodes(k) if isinstance(n, ast.While)]
    if len(whiles) == 1:
        w = whiles[0]
        early = [x for x in ast.walk(w) if isinstance(x, (ast.Break, ast.Return))]
        if early:
            col.bad(R, q, k.loc(early[0]), "the loop runs until the work list is empty (no early exit)",
                    f"`{norm_src(early[0])}` leaves the loop with frames still pending: their nodes are never visited / left",
                    stmt="loop-exit", definite=True)
        else:
            col.ok(R, q, k.loc(w), "the loop runs until the work list is empty (no early exit)", norm_src(w.test), stmt="loop-exit")
    else:
        col.unresolved(R, q, k.loc(), "the loop runs until the work list is empty", f"{len(whiles)} while loops", stmt="loop-exit")


def forwarders(ctx, col):
    repo = ctx.repo
    R = "R-FWD"
    tt = repo.get_def("swcgeom.core.tree.Tree.traverse")
    col.text_group(R, tt.qualname, tt, [
        ("wrapper turns the node id into the node handle of the same tree and forwards the remaining arguments and the result",
         ["return fn(self[idx], *args, **kwargs)", "return fn(self.node(idx), *args, **kwargs)"], "wrap"),
        ("an absent callback stays absent", ["if fn is None: return None"], "wrap-none"),
        ("topology = (ids, parent ids) of this tree", ["topology = (self.id(), self.pid())"], "topology"),
        ("enter->enter, leave->leave, both wrapped", ["enter, leave = wrap(enter), wrap(leave)"], "wrap-both"),
        ("both callbacks and the remaining options are forwarded to the kernel and its result returned",
         ["return traverse(topology, enter=enter, leave=leave, **kwargs)"], "forward"),
    ], fixed=("enter", "leave", "traverse", "kwargs", "args"))
    nt = repo.get_def("swcgeom.core.tree.Tree.Node.traverse")
    col.text_group(R, nt.qualname, nt, [
        ("starts the owner's traversal at this node",
         ["return self.attach.traverse(root=self.idx, **kwargs)", "return self.attach.traverse(root=self.id, **kwargs)"], "node-root")],
        fixed=("kwargs",))
    tr = repo.get_def(f"{BASE}.traverse")
    col.text_group(R, tr.qualname, tr, [
        ("dispatches to the DFS kernel with all options and returns its result", ["return _traverse_dfs(topology, **kwargs)"], "dispatch")],
        fixed=("topology", "kwargs", "_traverse_dfs"))



def start_guard(ctx, col):
    """A range check on the start node accepts every row 0..n-1: a test that raises for the last row (or for row 0) makes part of the tree un-traversable."""
    from ..fold import Folder, Unfoldable
    from ..rules import tables
    col.rule("R-STARTGUARD", "every node of the tree can be a start node: a range check on the start index in the traversal entry points (folded with n = 5 nodes, "
             "4 edges) raises for no index in 0..n-1 (zero guards expected today; any guard that is added is evaluated)", floor=1, exhaustive=True)
    n_guards = 0
    for q in ("swcgeom.core.tree.Tree.traverse", "swcgeom.core.tree.Tree.Node.traverse", "swcgeom.core.swc_utils.base.traverse", "swcgeom.core.swc_utils.base._traverse_dfs"):
        d = ctx.repo.get_def(q)
        for st in own_nodes(d):
            if not (isinstance(st, ast.If) and any(isinstance(x, ast.Raise) for x in st.body)):
                continue
            names_ = {x.id for x in ast.walk(st.test) if isinstance(x, ast.Name)}
            start = next((p_ for p_ in ("root", "idx", "start", "key") if p_ in names_), None)
            if start is None:
                continue
            n_guards += 1

            def term(nd):
                s_ = norm_src(nd)
                if s_ in ("self.number_of_nodes()", "len(self)", "len(self.id())", "self.id().shape[0]", "len(topology[0])", "len(ids)"):
                    return "__n"
                if s_ == "self.number_of_edges()":
                    return "__e"
                return None
            e, _hits = tables.substitute(st.test, term)
            bad = und = None
            for v in (0, 1, 4):
                try:
                    if bool(Folder(ctx.repo, d.module, None, {start: v, "__n": 5, "__e": 4}).eval(e)):
                        bad = v
                        break
                except Unfoldable as x:
                    und = str(x)
                    break
            what = f"{d.name}: the range check on `{start}` admits every row 0..n-1"
            if bad is not None:
                col.bad("R-STARTGUARD", d.qualname, d.loc(st), what,
                        f"`if {norm_src(st.test)}: raise ...` rejects start index {bad} of a 5-node tree: that node (for {bad} = n-1 the last row, often a tip; in a one-node tree the root itself) "
                        f"cannot be traversed from", stmt=f"startguard:{start}", definite=True)
            elif und is not None:
                col.unresolved("R-STARTGUARD", d.qualname, d.loc(st), what, f"cannot fold the test: {und}", stmt=f"startguard:{start}")
            else:
                col.ok("R-STARTGUARD", d.qualname, d.loc(st), what, norm_src(st.test)[:80], stmt=f"startguard:{start}")
    if not n_guards:
        col.ok("R-STARTGUARD", "startguard-scan", "", "no range check on the start node in the traversal entry points", "4 functions scanned", stmt="startguard-scan")
