"""C10 -- morphometric features equal their textbook definitions (structural clauses)."""

from __future__ import annotations

import ast
from fractions import Fraction

from ..fold import Folder, Unfoldable
from ..model import AnalysisError, dotted, norm_src, own_nodes
from ..poly import NotPolynomial, R, Translator
from ..rules import tables
from . import c08, geosinks

A = "swcgeom.analysis"
FX = f"{A}.feature_extractor"
LM = f"{A}.lmeasure.LMeasure"



def _count_by_value(which: str, expr):
    """fold an arithmetic expression over known counts on every small rooted tree; True = equal everywhere, (pid, got, want) = first difference, None = cannot fold"""
    from ..objfold import small_trees

    def counts(pid):
        n = len(pid)
        kids = [sum(1 for j in range(n) if pid[j] == i) for i in range(n)]
        tips = sum(1 for k in kids if k == 0)
        furc = sum(1 for k in kids if k > 1)
        starts = {0} | {i for i in range(n) if kids[i] > 1}
        branches = sum(kids[i] for i in starts)
        return {"n_tips": tips, "n_bifs": furc, "n_branch": branches, "n_stems": kids[0], "nodes": n}

    KNOWN = {"len(tree.get_tips())": "n_tips", "self.n_tips(tree)": "n_tips", "len(tree.get_furcations())": "n_bifs", "self.n_bifs(tree)": "n_bifs", "len(tree.get_bifurcations())": "n_bifs",
             "len(tree.get_branches())": "n_branch", "self.n_branch(tree)": "n_branch", "len(tree.soma().children())": "n_stems", "self.n_stems(tree)": "n_stems",
             "tree.number_of_nodes()": "nodes", "len(tree)": "nodes"}

    def ev(e, c):
        t = norm_src(e)
        if t in KNOWN:
            return c[KNOWN[t]]
        if t == "tree.number_of_edges()":
            return c["nodes"] - 1
        if isinstance(e, ast.Constant) and isinstance(e.value, int) and not isinstance(e.value, bool):
            return e.value
        if isinstance(e, ast.BinOp) and isinstance(e.op, (ast.Add, ast.Sub, ast.Mult)):
            a, b = ev(e.left, c), ev(e.right, c)
            return a + b if isinstance(e.op, ast.Add) else (a - b if isinstance(e.op, ast.Sub) else a * b)
        if isinstance(e, ast.Call) and isinstance(e.func, ast.Name) and e.func.id in ("int", "max") and e.args:
            vals = [ev(a, c) for a in e.args]
            return vals[0] if e.func.id == "int" else max(vals)
        raise ValueError(t)
    try:
        for pid in small_trees(6):
            c = counts(pid)
            got = ev(expr, c)
            if got != c[which]:
                return (pid, got, c[which])
    except ValueError:
        return None
    return True


def sholl_chain_rule(ctx, col):
    repo = ctx.repo
    # --- chains through the sampling sphere, folded exactly: whatever the convention for a sample that lies exactly on the sphere, a neurite that passes
    # THROUGH it there is counted once, one that only touches it there an even number of times (0 or 2), one that ends there at most once
    from itertools import product as _prod
    from fractions import Fraction as _Fr
    from ..vecfold import VecEval, Unsupported as _Uns, Randomised as _Rnd, ZeroNorm as _Zero
    col.rule("R-SHOLLCHAIN", "Sholl count along a chain of samples, folded exactly for every pattern of samples inside / on / outside the sphere (chains of two and three "
             "samples): strict crossings are counted once, a sample exactly on the sphere contributes 1 when the neurite passes through, 0 or 2 when it only touches, "
             "at most 1 at a chain end -- independent of the tie convention; Sholl.get and Sholl.intersect give the same number", floor=2, exhaustive=True)
    sh = repo.get_class(f"{A}.sholl.Sholl")
    helpers0 = {m_.name: m_.node for m_ in sh.methods.values() if not m_.is_lambda and m_.name not in ("_get_rs", "get_rs", "__init__", "plot")}
    # the radius handed to intersect(r) is the radius counted at: no method it calls replaces it by the object's own (deprecated, constructor-given) step
    col.rule("R-SHOLLARG", "Sholl.intersect(r) counts at the radius it is given: the methods it reaches through self.<m>() calls never read the deprecated `self.step` "
             "(`_get_rs` substitutes the object's own radii for its argument when the object was built with step=...)", floor=1)
    d_i = repo.get_def(f"{A}.sholl.Sholl.intersect")
    reach_, todo_ = set(), ["intersect"]
    while todo_:
        m0 = todo_.pop()
        if m0 in reach_ or m0 not in sh.methods:
            continue
        reach_.add(m0)
        for c_ in ast.walk(sh.methods[m0].node):
            if isinstance(c_, ast.Call) and isinstance(c_.func, ast.Attribute) and isinstance(c_.func.value, ast.Name) and c_.func.value.id == "self":
                todo_.append(c_.func.attr)
    readers_ = sorted(m0 for m0 in reach_ if any(isinstance(a_, ast.Attribute) and a_.attr == "step" and isinstance(a_.value, ast.Name) and a_.value.id == "self"
                                                  for a_ in ast.walk(sh.methods[m0].node)))
    col.check(not readers_, "R-SHOLLARG", d_i.qualname, d_i.loc(), "intersect(r) counts at r, whatever the object was built with", f"reaches {sorted(reach_)}",
              f"intersect reaches {readers_} which read(s) `self.step`: on an object built with the deprecated `Sholl(tree, step=s)` the radii come from s, the argument r is ignored "
              f"-- every intersect(r) returns the count at radius s", stmt="sholl-arg", definite=True)
    for meth in ("intersect", "get"):
        d = repo.get_def(f"{A}.sholl.Sholl.{meth}")
        helpers = {k_: v_ for k_, v_ in helpers0.items() if k_ != meth and not (meth == "get" and k_ == "intersect" and False)}
        bad = und = None
        n_w = 0
        for k in (2, 3):
            for ranks in _prod((1, 2, 3), repeat=k):
                r = 2
                segs = tuple((ranks[i], ranks[i + 1]) for i in range(k - 1))
                sg = [(x > r) - (x < r) for x in ranks]
                lo = hi = 0
                for i in range(k - 1):
                    if sg[i] * sg[i + 1] < 0:
                        lo += 1
                        hi += 1
                for i in range(k):
                    if sg[i] == 0:
                        nb = [sg[j] for j in (i - 1, i + 1) if 0 <= j < k]
                        if len(nb) == 2 and nb[0] * nb[1] < 0:
                            lo += 1
                            hi += 1            # passes through at a sample: exactly one
                        elif len(nb) == 2 and nb[0] * nb[1] > 0:
                            hi += 2            # touches: 0 or 2
                        elif len(nb) == 2:
                            hi += 2            # a run of samples on the sphere: not constrained beyond evenness / small
                        else:
                            hi += 1            # chain end on the sphere
                env = {"self.rs": segs, "r": r, "steps": (r,)}
                try:
                    ev = VecEval(env, identity_calls=("_get_rs", "get_rs"), methods=helpers)
                    got = ev.run(d.node.body)
                except (_Uns, _Rnd, _Zero) as x:
                    und = f"{type(x).__name__}: {x}"
                    break
                except Exception as x:  # noqa: BLE001
                    und = f"{type(x).__name__}: {x}"
                    break
                if isinstance(got, tuple) and len(got) == 1:
                    got = got[0]
                if not isinstance(got, _Fr):
                    und = f"the count is not a number: {got!r}"[:100]
                    break
                n_w += 1
                g_ = int(got)
                touch_only = all(not (sg[i] == 0 and 0 < i < k - 1 and sg[i - 1] * sg[i + 1] < 0) for i in range(k))
                ok_ = lo <= g_ <= hi
                # a pure touch (same side before and after) must contribute an even number
                if ok_ and k == 3 and sg[1] == 0 and sg[0] * sg[2] > 0 and g_ % 2 == 1:
                    ok_ = False
                if not ok_:
                    bad = (ranks, g_, lo, hi)
                    break
            if bad or und:
                break
        what_c = f"Sholl.{meth}: crossings along a chain of samples (tie convention free)"
        if bad is not None:
            names_ = {1: "inside", 2: "on the sphere", 3: "outside"}
            col.bad("R-SHOLLCHAIN", d.qualname, d.loc(), what_c,
                    f"a neurite whose consecutive samples lie {', '.join(names_[x] for x in bad[0])} is counted {bad[1]} time(s) at that radius; it crosses the sphere "
                    f"{bad[2] if bad[2] == bad[3] else f'{bad[2]}..{bad[3]}'} time(s) -- a sample that lies exactly on the sampling sphere is counted for both of its segments, or for neither",
                    stmt=f"chain:{meth}", definite=True)
        elif und is not None:
            col.unresolved("R-SHOLLCHAIN", d.qualname, d.loc(), what_c, f"cannot fold the count exactly: {und}", stmt=f"chain:{meth}")
        else:
            col.ok("R-SHOLLCHAIN", d.qualname, d.loc(), what_c, f"{n_w} chains folded", stmt=f"chain:{meth}")

def run(ctx, col, tier):
    from ..rules import normaxis as _normaxis
    _normaxis.run(ctx, col, ('swcgeom.analysis.volume', 'swcgeom.utils.volumetric_object', 'swcgeom.utils.solid_geometry', 'swcgeom.analysis.features', 'swcgeom.analysis.lmeasure', 'swcgeom.analysis.sholl', 'swcgeom.core.tree', 'swcgeom.core.path', 'swcgeom.core.branch', 'swcgeom.transforms.branch', 'swcgeom.transforms.branch_tree'))
    from ..rules import negidx as _negidx
    _negidx.run(ctx, col, ('swcgeom.analysis.features', 'swcgeom.analysis.lmeasure', 'swcgeom.analysis.sholl', 'swcgeom.analysis.feature_extractor', 'swcgeom.core.tree', 'swcgeom.core.node', 'swcgeom.core.path', 'swcgeom.core.branch', 'swcgeom.transforms.tree'))
    col.rule("R-DISPATCH", "every feature name of the front end resolves, by the front end's own "
             "lookup logic, to an existing evaluator (extractor-level get_<name>, Features.get_<name>, "
             "or <head>_features -> get_<rest>); deprecated names resolve to raising stubs", floor=17,
             exhaustive=True)
    col.rule("R-RET", "a measure annotated with a value type returns a value on every non-raising "
             "path, and every `raise` raises an exception (not a number)", floor=40)
    col.rule("R-SHOLL", "Sholl straddle predicate as a decision table over all orderings of (inner "
             "end, outer end, radius): a segment strictly straddling the circle is counted, one "
             "strictly on one side is not (ties free); all copies of the predicate agree", floor=2,
             exhaustive=True)
    col.rule("R-GEO", "geometric type of every observable: pose-independent scalar or count with "
             "the degree of its definition (lengths 1, areas 2, volumes 3, ratios/angles 0)", floor=45)
    col.rule("R-DEF", "definitional identities: closed-form measures as exact polynomial identities "
             "(partition asymmetry, cylinder/circle/sphere formulas, diameter), and the wiring of "
             "counts, lengths, ratios and bifurcation vectors to the quantities their definitions "
             "name", floor=18, shape=True)
    col.rule("R-THRESH", "child-count predicates behind the counts (furcation <=> >= 2 children, "
             "tip <=> none) in every copy", floor=6, exhaustive=True, shape=True)
    col.rule("R-PAD", "population front end: one row per tree in population order, rows padded with "
             "zeros to the longest row", floor=4, shape=True)
    col.not_decided += ["numerical agreement of the values with the definitions (floating point)",
                        "the tie convention of the Sholl count at radii that coincide with a node",
                        "the branch-order convention; the direction of the tortuosity ratio (as documented)"]
    col.guard(dispatch, ctx, col)
    col.guard(returns, ctx, col)
    col.guard(sholl, ctx, col)
    from ..rules import memo
    memo.run(ctx, col, ('swcgeom.analysis.feature_extractor', 'swcgeom.analysis.features', 'swcgeom.analysis.lmeasure', 'swcgeom.analysis.sholl', 'swcgeom.core.path'))
    from ..rules import ignoredparam
    ignoredparam.run(ctx, col, ('swcgeom.analysis.feature_extractor', 'swcgeom.analysis.features', 'swcgeom.analysis.lmeasure', 'swcgeom.analysis.sholl'))
    geo, res = geosinks.check_sinks(ctx, col, "R-GEO", only=lambda q: ".volume" not in q and "volumetric" not in q)
    geosinks.report(col, "R-GEO", res, repo=ctx.repo)
    col.analysed["geo_summaries"] = len(geo.memo)
    col.guard(definitions, ctx, col)
    col.guard(c08.thresholds, ctx, col)
    col.guard(padding, ctx, col)
    col.guard(front_end, ctx, col)


# --------------------------------------------------------------------------- dispatch


def dispatch(ctx, col):
    repo = ctx.repo
    col.rule("R-MEMO", "nothing computed from the tree is kept on the tree / node / path / branch object: outside construction and setters no "
             "method of these classes stores to self -- copies are deep and topology and coordinates are then edited in place (re-rooting, "
             "concatenation, node setters, transforms), so a kept decomposition or measure describes the tree before the edit; zero expected, "
             "positive examples are those of the transform-state lint", floor=1)
    from ..rules import stateless as _stateless
    from ..rules import rowslice as _rowslice
    _rowslice.run(ctx, col, ('swcgeom.core.tree', 'swcgeom.core.tree_utils', 'swcgeom.core.tree_utils_impl', 'swcgeom.core.swc_utils.base', 'swcgeom.core.swc_utils.subtree', 'swcgeom.core.swc_utils.normalizer', 'swcgeom.transforms.tree'))
    _stateless.check_memo(ctx, col, "R-MEMO", ("swcgeom.core.tree", "swcgeom.core.path", "swcgeom.core.node", "swcgeom.core.branch",
                                               "swcgeom.core.compartment", "swcgeom.core.branch_tree", "swcgeom.core.swc", "swcgeom.core.segment"))
    R_ = "R-DISPATCH"
    m = repo.get_module(FX)
    names = None
    for st in m.tree.body:
        if isinstance(st, ast.Assign) and norm_src(st.targets[0]) == "Feature" and isinstance(st.value, ast.Subscript) \
                and (dotted(st.value.value) or "").endswith("Literal"):
            sl = st.value.slice
            elts = sl.elts if isinstance(sl, ast.Tuple) else [sl]
            names = [e.value for e in elts if isinstance(e, ast.Constant) and isinstance(e.value, str)]
    if not names:
        raise AnalysisError("anchor-vanished: `Feature = Literal[...]` of the feature front end")
    feats = repo.get_class(f"{FX}.Features")
    base = repo.get_class(f"{FX}.FeatureExtractor")
    extractors = [base] + [c for c in repo.classes.values() if c is not base and base in c.mro()]
    # the lookup logic itself: f"get_{feature}" first, then components[0]_features / get_<rest>
    ge = repo.get_def(f"{FX}.Features.get_evaluator")
    src = norm_src(ge.node)
    logic_ok = "getattr(self, f'get_{feature}', None)" in src and "feature.split('_')" in src \
        and "getattr(self, f'{components[0]}_features', None)" in src \
        and "getattr(module, f'get_{'_'.join(components[1:])}', None)" in src
    col.shape(logic_ok, R_, ge.qualname, ge.loc(), "lookup logic: get_<name>, else <head>_features.get_<rest>, else ValueError", "",
              "the lookup logic of get_evaluator is not the modelled one", stmt="logic")
    g = repo.get_def(f"{FX}.FeatureExtractor._get")
    gs = norm_src(g.node)
    ok = "getattr(self, f'get_{feat}', None)" in gs and "return self._get_impl(feat, **kwargs)" in gs
    col.shape(ok, R_, g.qualname, g.loc(), "extractor lookup: own get_<name> first, else the per-tree evaluator", "",
              "FeatureExtractor._get is not the modelled lookup", stmt="logic2")
    for name in names:
        how = None
        stub = None
        for c in extractors:
            d = c.methods.get(f"get_{name}")
            if d is not None:
                raises = any(isinstance(s, ast.Raise) for s in d.node.body)
                if c is base and raises:
                    stub = d
                how = how or f"{c.name}.get_{name}"
        if stub is not None:
            dep = name.startswith("bifurcation")
            col.check(dep, R_, stub.qualname, stub.loc(), f"`{name}`: deprecated name -> raising stub", "",
                      f"`{name}` resolves to a stub that raises although it is not a deprecated name", stmt=f"name:{name}")
            continue
        d = feats.lookup_method(f"get_{name}")
        if d is not None:
            col.ok(R_, d.qualname, d.loc(), f"`{name}` -> Features.get_{name}", stmt=f"name:{name}")
            continue
        head, _, rest = name.partition("_")
        prop = feats.lookup_method(f"{head}_features")
        target = None
        if prop is not None and prop.node.returns is not None:
            r = repo.resolve_expr(prop.node.returns, prop.module, prop)
            if hasattr(r, "lookup_method"):
                target = r.lookup_method(f"get_{rest}")
        if target is not None:
            col.ok(R_, target.qualname, target.loc(), f"`{name}` -> {head}_features.get_{rest}", stmt=f"name:{name}")
        elif how is not None and all(c.methods.get(f"get_{name}") is not None for c in extractors if c is not base):
            col.ok(R_, base.qualname, f"{m.relpath}:{base.node.lineno}", f"`{name}` -> extractor-level evaluator in every extractor", stmt=f"name:{name}")
        else:
            col.bad(R_, feats.qualname, f"{m.relpath}:{feats.node.lineno}", f"`{name}` resolves to an evaluator",
                    f"feature name `{name}` is offered by the front end but resolves to no evaluator "
                    f"(no get_{name}, no {head}_features.get_{rest})", stmt=f"name:{name}")
    # the three custom evaluators delegate to the definitions
    for meth, want in (("get_length", "np.array([self.tree.length(**kwargs)], dtype=np.float32)"),
                       ("get_volume", "np.array([get_volume(self.tree, **kwargs)], dtype=np.float32)"),
                       ("get_sholl", "self.sholl.get(**kwargs).astype(np.float32)")):
        d = feats.lookup_method(meth)
        rets = [norm_src(r.value) for r in own_nodes(d) if isinstance(r, ast.Return)] if d else []
        col.judge(d is not None and len(rets) == 1, rets == [want], "R-DEF", d.qualname if d else feats.qualname, d.loc() if d else "",
                  f"Features.{meth} returns the tree's own {meth[4:]}", "", f"returns `{rets}`", stmt=f"wire:{meth}")


# --------------------------------------------------------------------------- returns


def _always_ends(body) -> bool:
    if not body:
        return False
    last = body[-1]
    if isinstance(last, (ast.Return, ast.Raise)):
        return True
    if isinstance(last, ast.If):
        return bool(last.orelse) and _always_ends(last.body) and _always_ends(last.orelse)
    if isinstance(last, ast.While):
        return isinstance(last.test, ast.Constant) and bool(last.test.value) and not any(isinstance(n, ast.Break) for n in ast.walk(last))
    if isinstance(last, ast.Match):
        wild = any(isinstance(c.pattern, ast.MatchAs) and c.pattern.pattern is None and c.guard is None for c in last.cases)
        return wild and all(_always_ends(c.body) for c in last.cases)
    if isinstance(last, ast.With):
        return _always_ends(last.body)
    if isinstance(last, ast.Try):
        return (_always_ends(last.body) or _always_ends(last.orelse)) and all(_always_ends(h.body) for h in last.handlers) \
            or _always_ends(last.finalbody)
    return False


def _is_exception_operand(ctx, d, e) -> bool | None:
    if e is None:
        return True
    f = e.func if isinstance(e, ast.Call) else e
    name = dotted(f)
    if name is None:
        return None
    last = name.rsplit(".", 1)[-1]
    if last.endswith(("Error", "Exception", "Warning", "Exit", "Interrupt")) or last in ("StopIteration",):
        return True
    # a local name: bound by `except ... as e` or assigned from an exception constructor?
    if isinstance(e, ast.Name):
        for n in own_nodes(d):
            if isinstance(n, ast.ExceptHandler) and n.name == e.id:
                return True
            if isinstance(n, ast.Assign) and any(isinstance(t, ast.Name) and t.id == e.id for t in n.targets):
                v = n.value
                vn = dotted(v.func) if isinstance(v, ast.Call) else None
                if vn and vn.rsplit(".", 1)[-1].endswith(("Error", "Exception", "Warning")):
                    return True
                return False  # bound to something that is not an exception
        return None
    r = ctx.repo.resolve_expr(f, d.module, d)
    if hasattr(r, "mro"):
        return any(b.endswith(("Exception", "Error")) for c in r.mro() for b in c.ext_bases) or None
    return None


def returns(ctx, col):
    repo = ctx.repo
    R_ = "R-RET"
    mods = (f"{A}.lmeasure", f"{A}.features", f"{A}.sholl", f"{A}.volume", "swcgeom.core.path")
    for d in repo.all_defs():
        if d.module.name not in mods or d.is_lambda or d.is_overload():
            continue
        node = d.node
        ann = norm_src(node.returns) if node.returns is not None else None
        body = [s for s in node.body if not (isinstance(s, ast.Expr) and isinstance(s.value, ast.Constant))]
        raises = [n for n in own_nodes(d) if isinstance(n, ast.Raise)]
        for r in raises:
            v = _is_exception_operand(ctx, d, r.exc)
            if v is False:
                col.bad(R_, d.qualname, d.loc(r), "raise operand is an exception",
                        f"`{norm_src(r)}` raises a value that is not an exception (TypeError at run time instead of the result)",
                        stmt=norm_src(r))
            elif v is None:
                col.unresolved(R_, d.qualname, d.loc(r), "raise operand is an exception", f"cannot classify `{norm_src(r)}`", stmt=norm_src(r))
        if ann in (None, "None") or any("abstractmethod" in x for x in d.decorators):
            continue
        if any(isinstance(n, (ast.Yield, ast.YieldFrom)) for n in own_nodes(d)):
            continue  # a generator: falling off the end ends the iteration
        stub = len(body) == 1 and isinstance(body[0], ast.Raise) and "NotImplementedError" in norm_src(body[0])
        if stub:
            continue
        col.check(_always_ends(body), R_, d.qualname, d.loc(), f"returns a {ann} on every non-raising path", "",
                  f"a path through `{d.name}` falls off the end and returns None although it is annotated `{ann}`", stmt="ends")


# --------------------------------------------------------------------------- Sholl


def sholl(ctx, col):
    repo = ctx.repo
    R_ = "R-SHOLL"
    tabs = {}
    for meth in ("get", "intersect"):
        d = repo.get_def(f"{A}.sholl.Sholl.{meth}")
        cands = [c for c in own_nodes(d) if isinstance(c, ast.Call) and (dotted(c.func) or "").endswith("logical_or")]
        outer = [c for c in cands if not any(c is not o and c in list(ast.walk(o)) for o in cands)]
        if len(outer) != 1:
            col.unresolved(R_, d.qualname, d.loc(), f"Sholl.{meth}: straddle predicate", "no single np.logical_or(...) predicate found", stmt=meth)
            continue
        e = tables.np_logic_to_bool(outer[0])

        def term(n):
            s = norm_src(n)
            if s == "self.rs[:, 0]":
                return "__a"
            if s == "self.rs[:, 1]":
                return "__b"
            if isinstance(n, ast.Name) and n.id == "r":
                return "__r"
            return None
        t = tables.order_table(repo, d.module, e, ["__a", "__b", "__r"], term)
        if t is None:
            col.unresolved(R_, d.qualname, d.loc(outer[0]), f"Sholl.{meth}: straddle predicate", "predicate is not a function of (end a, end b, r)", stmt=meth)
            continue
        tabs[meth] = t
        bad = []
        for (ra, rb, rr), v in t.items():
            if ra < rr < rb or rb < rr < ra:
                want = True
            elif (ra < rr and rb < rr) or (ra > rr and rb > rr):
                want = False
            else:
                continue  # a tie with the radius: convention
            if v != want:
                bad.append(((ra, rb, rr), v))
        col.check(not bad, R_, d.qualname, d.loc(outer[0]), f"Sholl.{meth}: strict straddle <=> counted ({len(t)} orderings)",
                  norm_src(outer[0])[:120], f"orderings (a, b, r ranks) decided wrongly: {bad[:4]}", stmt=meth, facts={"table": {str(k): v for k, v in t.items()}})
    if len(tabs) == 2:
        d = repo.get_def(f"{A}.sholl.Sholl.intersect")
        col.check(tabs["get"] == tabs["intersect"], R_, d.qualname, d.loc(), "get and intersect use the same predicate (ties included)", "",
                  "Sholl.get and Sholl.intersect disagree on some ordering", stmt="agree")
    sholl_chain_rule(ctx, col)
    # the radii are the two end points of every segment about the root: decided by R-GEO on __init__ (C11) and here as wiring
    d = repo.get_def(f"{A}.sholl.Sholl.__init__")
    src = [norm_src(s) for s in ast.walk(d.node) if isinstance(s, ast.Assign)]
    col.check("self.rs = np.linalg.norm(self.tree.get_segments().xyz(), axis=2)" in src, "R-DEF", d.qualname, d.loc(),
              "Sholl radii = distance of both end points of every segment from the (centred) root", "",
              "self.rs is not the norm of the segments' end points of the centred tree", stmt="sholl-rs")
    g = repo.get_def(f"{A}.sholl.Sholl.get")
    col.check("for r in self._get_rs(steps=steps)" in norm_src(g.node) and "np.count_nonzero(intersections, axis=1)" in norm_src(g.node),
              "R-DEF", g.qualname, g.loc(), "one count per requested radius", "", "Sholl.get does not count per radius", stmt="sholl-count")


# --------------------------------------------------------------------------- definitions


def _ret(d):
    rets = [r for r in own_nodes(d) if isinstance(r, ast.Return)]
    return rets


def definitions(ctx, col):
    repo = ctx.repo
    R_ = "R-DEF"
    S = R.sym
    C = lambda a, b=1: R.const(Fraction(a, b))  # noqa: E731
    PI = S("pi")
    lm = repo.get_module(f"{A}.lmeasure")

    def form(qual, params, oracle, what):
        d = repo.get_def(qual)
        rets = _ret(d)
        if len(rets) != 1:
            col.unresolved(R_, qual, d.loc(), what, "not a single-return formula", stmt="form")
            return
        env = {p: S(p) for p in params}
        env["math.pi"] = PI
        try:
            got = Translator(env).tr(rets[0].value)
        except NotPolynomial as e:
            col.unresolved(R_, qual, d.loc(), what, str(e), stmt="form")
            return
        col.check(got.same(oracle), R_, qual, d.loc(rets[0]), what, norm_src(rets[0].value),
                  f"`{norm_src(rets[0].value)}` = {got}, the definition is {oracle}", stmt="form", definite=True)
    form(f"{A}.lmeasure.circle_area", ["r"], PI * S("r") ** 2, "circle area = pi r^2")
    form(f"{A}.lmeasure.sphere_surface_area", ["r"], C(4) * PI * S("r") ** 2, "sphere surface = 4 pi r^2")
    form(f"{A}.lmeasure.cylinder_volume", ["r", "h"], PI * S("r") ** 2 * S("h"), "cylinder volume = pi r^2 h")
    form(f"{A}.lmeasure.cylinder_side_surface_area", ["r", "h"], C(2) * PI * S("r") * S("h"), "cylinder side surface = 2 pi r h")
    # partition asymmetry
    d = repo.get_def(f"{LM}.partition_asymmetry")
    rets = _ret(d)
    # the formula is the returned quotient, wherever it stands (the constant returned for equal subtrees may come first or last)
    quot = [r for r in rets if isinstance(r.value, ast.BinOp) and isinstance(r.value.op, ast.Div)]
    last = quot[0] if len(quot) == 1 else None
    ok = None if last is None else False
    if last is not None:
        try:
            w = {"n1": Fraction(5), "n2": Fraction(2)}
            got = Translator({"n1": S("n1"), "n2": S("n2")}, witness=w).tr(last.value)
            ok = got.same((S("n1") - S("n2")) / (S("n1") + S("n2") - C(2)))
            w2 = {"n1": Fraction(2), "n2": Fraction(5)}
            got2 = Translator({"n1": S("n1"), "n2": S("n2")}, witness=w2).tr(last.value)
            ok = ok and got2.same((S("n2") - S("n1")) / (S("n1") + S("n2") - C(2)))
        except NotPolynomial:
            ok = None
    col.judge(ok is not None, bool(ok), R_, d.qualname, d.loc(last) if last is not None else d.loc(),
              "partition asymmetry = |n1 - n2| / (n1 + n2 - 2)", norm_src(last.value) if last is not None else "",
              f"`{norm_src(last.value) if last is not None else ''}` is not |n1 - n2| / (n1 + n2 - 2)", stmt="pasym", definite=True)
    asg = {norm_src(s.targets[0]): norm_src(s.value) for s in d.node.body if isinstance(s, ast.Assign)}
    ok = asg.get("n1") == "len(children[0].subtree().get_tips())" and asg.get("n2") == "len(children[1].subtree().get_tips())" \
        and asg.get("children") == "n.children()"
    col.check(ok, R_, d.qualname, d.loc(), "n1, n2 = number of tips below the first / second child", "", f"bindings: {asg}", stmt="pasym-n")
    eq = [s for s in d.node.body if isinstance(s, ast.If) and norm_src(s.test) == "n1 == n2"]
    col.check(len(eq) == 1 and norm_src(eq[0].body[0]) == "return 0", R_, d.qualname, d.loc(), "equal subtrees (incl. 1 and 1): asymmetry 0, no 0/0", "",
              "the n1 == n2 case is not returned as 0", stmt="pasym-eq")
    # wiring table: (def, accepted return expressions, what)
    wiring = [
        (f"{LM}.n_stems", ["len(tree.soma().children())"], "stems = children of the soma"),
        (f"{LM}.n_bifs", ["len(tree.get_furcations())"], "bifurcations = furcation nodes"),
        (f"{LM}.n_branch", ["len(tree.get_branches())"], "branches = branches of the tree"),
        (f"{LM}.n_tips", ["len(tree.get_tips())"], "tips = childless nodes"),
        (f"{LM}.branch_pathlength", ["branch.length()"], "branch path length = length of the branch"),
        (f"{LM}.fragmentation", ["branch.number_of_edges()"], "fragmentation = number of compartments of the branch"),
        (f"{LM}.terminal_degree", ["len(node.subtree().get_tips())"], "terminal degree = tips of the node's subtree"),
        (f"{LM}.diameter", ["2 * node.r", "node.r * 2"], "diameter = 2 r"),
        (f"{LM}.length", ["compartment.length()"], "compartment length"),
        (f"{LM}.section_area", ["circle_area(node.r)"], "section area = circle of the node radius"),
        (f"{LM}.soma_surface", ["sphere_surface_area(tree.soma().r)"], "soma surface = sphere of the soma radius"),
        (f"{LM}.contraction", ["euclidean / branch.length()"], "contraction = end-to-end distance / path length"),
        ("swcgeom.core.tree.Tree.length", ["sum((s.length() for s in self.get_segments()))"], "tree length = sum of the segment lengths"),
        ("swcgeom.core.path.Path.length", ["np.sum(np.linalg.norm(xyz[1:] - xyz[:-1], axis=1)).item()"], "path length = sum of distances between consecutive nodes"),
        ("swcgeom.core.path.Path.straight_line_distance", ["np.linalg.norm(self.node(-1).xyz() - self.node(0).xyz()).item()",
                                                           "np.linalg.norm(self.node(0).xyz() - self.node(-1).xyz()).item()"], "straight-line distance = last node minus first node"),
        ("swcgeom.core.node.Node.distance", ["np.linalg.norm(self.xyz() - b.xyz()).item()", "np.linalg.norm(b.xyz() - self.xyz()).item()"], "node distance = norm of the position difference"),
        (f"{A}.features.PathFeatures.get_count", ["len(self._paths)"], "path count"),
        (f"{A}.features.BranchFeatures.get_count", ["len(self._branches)"], "branch count"),
        (f"{A}.features.PathFeatures._paths", ["self.tree.get_paths()"], "paths of the tree"),
        (f"{A}.features.BranchFeatures._branches", ["self.tree.get_branches()"], "branches of the tree"),
        (f"{A}.features.FurcationFeatures.nodes", ["np.array([n.is_furcation() for n in self._features.tree])"], "furcation mask = is_furcation of every node"),
        (f"{A}.features.TipFeatures.nodes", ["np.array([n.is_tip() for n in self._features.tree])"], "tip mask = is_tip of every node"),
        (f"{A}.features._SubsetNodesFeatures.get_count", ["np.array([np.count_nonzero(self.nodes)], dtype=np.float32)"], "subset count = number of selected nodes"),
        (f"{A}.features._SubsetNodesFeatures.get_radial_distance", ["self._features.get_radial_distance()[self.nodes]"], "subset radial distance = the nodes' radial distances, selected"),
        (f"{A}.features.NodeFeatures.get_count", ["np.array([self.tree.number_of_nodes()], dtype=np.float32)"], "node count"),
    ]
    col.rule("R-COUNTVAL", "the L-Measure counts written as arithmetic over other counts (n_branch = n_tips + n_bifs - 1, ...) are folded over all 154 rooted trees of up to six nodes "
             "and compared with the count by definition (branches = sum over the root and the furcations of their numbers of children; a root with one child starts a branch, too)", floor=0)
    for qual, accepted, what in wiring:
        d = repo.get_def(qual)
        rets = [norm_src(r.value) for r in _ret(d)]
        rn = _ret(d)
        if len(rn) == 1 and qual.rsplit(".", 1)[-1] in ("n_branch", "n_tips", "n_bifs", "n_stems") and norm_src(rn[0].value) not in accepted:
            verdict = _count_by_value(qual.rsplit(".", 1)[-1], rn[0].value)
            if verdict is not None and verdict is not True:
                pid_, got_, want_ = verdict
                col.bad("R-COUNTVAL", qual, d.loc(rn[0]), what, f"`{norm_src(rn[0].value)}` gives {got_} for the tree with parents {pid_}; by definition the count is {want_}" +
                        (" (a root with a single child starts a branch although it is neither a tip nor a furcation)" if qual.endswith("n_branch") else ""), stmt="countval", definite=True)
                continue
            if verdict is True:
                col.ok("R-COUNTVAL", qual, d.loc(rn[0]), what, f"`{norm_src(rn[0].value)}` equals the definition on all 154 witness trees", stmt="countval")
                continue
        if len(rn) == 1:
            col.text(R_, qual, d.loc(rn[0]), what, rn[0].value, accepted, stmt="wire")
        else:
            col.unresolved(R_, qual, d.loc(), what, f"{len(rn)} return statements", stmt="wire")
    def grp(qual, items, fixed=()):
        d = repo.get_def(qual)
        col.text_group(R_, qual, d, items, fixed=fixed)
        return d
    grp(f"{LM}.contraction", [
        ("contraction: Euclidean distance between the two ends of the branch ...", ["euclidean = branch[0].distance(branch[-1])", "euclidean = branch[-1].distance(branch[0])"], "contr-e"),
        ("... divided by the path length", ["return euclidean / branch.length()"], "contr")], fixed=("branch",))
    grp("swcgeom.core.path.Path.tortuosity", [
        ("a zero-LENGTH path has tortuosity 1 (the guard is on the path length, the divisor)", ["if (length := self.length()) == 0: return 1"], "tort-guard"),
        ("tortuosity = straight-line distance / path length", ["return self.straight_line_distance() / length"], "tort")])
    from ..rules import divguard
    divguard.check(col, R_, repo.get_def("swcgeom.core.path.Path.tortuosity"),
                   "tortuosity: the zero guard is on the path length, the divisor (a path of zero length has tortuosity 1)")
    grp(f"{A}.features.NodeFeatures.get_radial_distance", [
        ("radial distance: node position minus soma position ...", ["xyz = self.tree.xyz() - self.tree.soma().xyz()"], "radial-v"),
        ("... its norm, per node", ["radial_distance = np.linalg.norm(xyz, axis=1)", "return np.linalg.norm(xyz, axis=1)"], "radial")])
    grp(f"{A}.features.NodeFeatures.get_branch_order", [
        ("branch order = depth in the branch tree: root 0, +1 per level", ["cur_order = pre_depth + 1 if pre_depth is not None else 0", "cur_order = 0 if pre_depth is None else pre_depth + 1"], "border"),
        ("recorded under the node's id", ["order[n.id] = cur_order"], "border-rec"),
        ("handed to the children", ["return cur_order"], "border-ret"),
        ("over the branch tree", ["self._branch_tree.traverse(enter=assign_depth)"], "border-walk")])
    grp(f"{LM}.path_distance", [
        ("path distance: walk to the root ...", ["while (parent := n.parent()) is not None:\n    length += n.distance(parent)\n    n = parent"], "pdist"),
        ("... starting from zero at the node", ["length = 0"], "pdist0")])
    grp(f"{LM}.euc_distance", [
        ("Euclidean distance to the soma of the node's own tree", ["soma = node.attach.soma()"], "edist-soma"),
        ("...", ["return node.distance(soma)"], "edist")], fixed=("node",))
    grp(f"{LM}.branch_order", [
        ("L-Measure branch order: furcations on the way to the root", ["while n is not None:\n    if n.is_furcation():\n        order += 1\n    n = n.parent()"], "lborder")])
    grp(f"{LM}._bif_vector_local", [
        ("the two daughters of the bifurcation", ["children = bif.children()"], "kids"),
        ("vector to the first daughter (first compartment)", ["v1 = children[0].xyz() - bif.xyz()"], "v1"),
        ("vector to the second daughter (first compartment)", ["v2 = children[1].xyz() - bif.xyz()"], "v2")], fixed=("bif",))
    grp(f"{LM}._bif_vector_remote", [
        ("the two daughters of the bifurcation", ["children = bif.children()"], "kids"),
        ("vector to the end of the first daughter's branch", ["v1 = children[0].branch()[-1].xyz() - bif.xyz()"], "v1"),
        ("vector to the end of the second daughter's branch", ["v2 = children[1].branch()[-1].xyz() - bif.xyz()"], "v2")], fixed=("bif",))
    for meth, vec in (("bif_ampl_local", "_bif_vector_local"), ("bif_ampl_remote", "_bif_vector_remote")):
        grp(f"{LM}.{meth}", [
            (f"{meth}: the two daughter vectors", [f"v1, v2 = self.{vec}(bif)"], "vecs"),
            ("angle between them, in degrees", ["return np.degrees(angle(v1, v2))"], "angle")], fixed=("bif", "angle"))
    for meth, vec in (("bif_tilt_local", "_bif_vector_local"), ("bif_tilt_remote", "_bif_vector_remote")):
        grp(f"{LM}.{meth}", [
            (f"{meth}: the parent compartment's vector", ["v = parent.xyz() - bif.xyz()"], "pv"),
            ("the two daughter vectors", [f"v1, v2 = self.{vec}(bif)"], "vecs"),
            ("angle to the first daughter", ["angle1 = np.degrees(angle(v, v1))"], "a1"),
            ("angle to the second daughter", ["angle2 = np.degrees(angle(v, v2))"], "a2"),
            ("the smaller of the two", ["return min(angle1, angle2)"], "min")], fixed=("bif", "angle"))
    grp(f"{A}.lmeasure.angle", [
        ("angle = arccos of the normalised dot product", ["costheta = np.dot(a, b) / (np.linalg.norm(a) * np.linalg.norm(b))"], "cos"),
        ("...", ["theta = np.arccos(costheta)", "return np.arccos(costheta)"], "acos")])


# --------------------------------------------------------------------------- population rows


def front_end(ctx, col):
    """The extractor front end hands the feature name and its options to the evaluator, one request at a time."""
    repo = ctx.repo
    g = repo.get_def(f"{FX}.FeatureExtractor.get")
    col.text_group("R-PAD", g.qualname, g, [
        ("a dict of requests: every feature with its own options", ["if isinstance(feature, dict): return {k: self._get(k, **v) for k, v in feature.items()}"], "fe:dict"),
        ("a list of requests: one result per request, in order", ["if isinstance(feature, list): return [self._get(k) for k in feature]"], "fe:list"),
        ("a single request with its options", ["return self._get(feature, **kwargs)"], "fe:one")], fixed=("feature", "kwargs"))
    h = repo.get_def(f"{FX}.FeatureExtractor._get")
    col.text_group("R-PAD", h.qualname, h, [
        ("name and options of the request", ["feat, kwargs = _get_feat_and_kwargs(feature, **kwargs)"], "fe:split"),
        ("a dedicated getter, when there is one, receives the options",
         ["if callable((custom_get := getattr(self, f'get_{feat}', None))): return custom_get(**kwargs)"], "fe:custom"),
        ("otherwise the generic implementation, with the options", ["return self._get_impl(feat, **kwargs)"], "fe:impl")], fixed=("feature", "kwargs", "_get_feat_and_kwargs"))
    f = repo.get_def(f"{FX}.Features.get")
    col.text_group("R-PAD", f.qualname, f, [
        ("name and options of the request", ["feat, kwargs = _get_feat_and_kwargs(feature, **kwargs)"], "ft:split"),
        ("the evaluator of that name", ["evaluator = self.get_evaluator(feat)"], "ft:eval"),
        ("is called with the options on every request", ["return evaluator(**kwargs)"], "ft:call")], fixed=("feature", "kwargs", "_get_feat_and_kwargs"))
    pp = repo.get_def(f"{FX}.PopulationsFeatureExtractor._get_impl")
    col.text_group("R-PAD", pp.qualname, pp, [
        ("one row per tree of every population, in order", ["vals = [[f.get(feature, **kwargs) for f in fs] for fs in self._features]"], "pp:rows"),
        ("padded to the most trees", ["len_max1 = max(len(v) for v in vals)"], "pp:max1"),
        ("... and to the longest row", ["len_max2 = max(*chain.from_iterable(((len(vv) for vv in v) for v in vals)))"], "pp:max2"),
        ("zeros elsewhere", ["out = np.zeros((len(vals), len_max1, len_max2), dtype=np.float32)"], "pp:zeros"),
        ("row j of population i goes to out[i, j]", ["out[i, j, :len(vv)] = vv"], "pp:fill")], fixed=("feature", "kwargs", "chain"))


def padding(ctx, col):
    repo = ctx.repo
    R_ = "R-PAD"
    d = repo.get_def(f"{FX}.PopulationFeatureExtractor._get_impl")
    col.text_group(R_, d.qualname, d, [
        ("one value row per tree, in order", ["vals = [f.get(feature, **kwargs) for f in self._features]"], "rows"),
        ("rows are padded to the longest row", ["len_max = max(len(v) for v in vals)", "len_max = max(map(len, vals))"], "max"),
        ("every row is padded and the rows are stacked in order", ["v = np.stack([padding1d(len_max, v, dtype=np.float32) for v in vals])",
                                                                    "return np.stack([padding1d(len_max, v, dtype=np.float32) for v in vals])"], "stack")],
        fixed=("feature", "kwargs", "padding1d"))
    i = repo.get_def(f"{FX}.PopulationFeatureExtractor.__init__")
    col.check("self._features = [Features(t) for t in self._population]" in norm_src(i.node), R_, i.qualname, i.loc(), "one Features object per tree, in population order", "", "", stmt="feats")
    p = repo.get_def("swcgeom.utils.numpy_helper.padding1d")
    src = norm_src(p.node)
    sig = [a.arg for a in p.node.args.args]
    dv = [norm_src(x) for x in p.node.args.defaults]
    ok = sig[:3] == ["n", "v", "padding_value"] and dv and dv[0] == "0" and "padding = np.full(n - v.shape[0], padding_value, dtype=dtype)" in src \
        and "return np.concatenate([v, padding])" in src
    col.check(ok, R_, p.qualname, p.loc(), "padding appends zeros (default padding value 0) after the values", "", "padding1d does not append `n - len` copies of the padding value (default 0)", stmt="pad0")
    e = repo.get_def(f"{FX}.extract_feature")
    lad = [(norm_src(s.test), norm_src(s.body[0])) for s in e.node.body if isinstance(s, ast.If)]
    want = [("isinstance(obj, Tree)", "return TreeFeatureExtractor(obj)"), ("isinstance(obj, Population)", "return PopulationFeatureExtractor(obj)"),
            ("isinstance(obj, Populations)", "return PopulationsFeatureExtractor(obj)")]
    col.check(lad == want, R_, e.qualname, e.loc(), "front end picks the extractor by argument kind", "", f"{lad}", stmt="front")
