"""C02 -- SWC reading keeps every data row, in order, or fails loudly."""

from __future__ import annotations

import ast

from ..cfg import CFG
from ..model import AnalysisError, dotted, norm_src, own_nodes
from ..rules import exc
from ..util import expand_names, names_in

IO = "swcgeom.core.swc_utils.io"
ENTRIES = {
    f"{IO}.read_swc",
    "swcgeom.core.tree.Tree.from_swc",
    "swcgeom.core.population.LazyLoadingTrees.load",
    "swcgeom.core.population.LazyLoadingTrees.__getitem__",
}


def file_loop(ctx, p):
    """The loop of parse_swc that iterates the handle bound by the `with`."""
    withs = [n for n in own_nodes(p) if isinstance(n, ast.With)]
    for w in withs:
        for item in w.items:
            if isinstance(item.optional_vars, ast.Name):
                h = item.optional_vars.id
                for n in ast.walk(w):
                    if isinstance(n, ast.For) and h in names_in(n.iter):
                        return w, n, h
    raise AnalysisError("anchor-vanished: the `for ... in <file handle>` loop of parse_swc")


def run(ctx, col, tier):
    repo = ctx.repo
    from ..rules import endpoints as _endpoints
    _endpoints.run(ctx, col, ('swcgeom.core.tree', 'swcgeom.core.path', 'swcgeom.core.branch', 'swcgeom.core.node', 'swcgeom.core.tree_utils', 'swcgeom.core.tree_utils_impl', 'swcgeom.core.swc_utils.base', 'swcgeom.core.swc_utils.subtree', 'swcgeom.core.swc_utils.normalizer', 'swcgeom.core.swc_utils.io'))
    col.rule("R-EXC", "every error raised while reading propagates to the API boundary: no "
             "enclosing context manager can suppress it, every handler that catches it re-raises "
             "on all paths", floor=3)
    col.rule("R-CLASSIFY", "every path through the per-line loop body appends a full row, appends "
             "a comment, raises, or is a blank/filtered-header line", floor=4, exhaustive=True)
    col.rule("R-ROW", "a row is appended to every column list or not at all (converter loop "
             "covers all columns; table lengths agree)", floor=2)
    col.rule("R-CAPTURE", "every field is numerically what the row says as far as the regex goes: "
             "only white space is matched outside the capture groups, converter i receives group "
             "i + 1 (no exponent, sign or digit is accepted and then dropped)", floor=3, exhaustive=True)
    col.assumptions += ["CPython `with` protocol: a truthy __exit__ result suppresses the exception",
                        "builtin exception hierarchy as in the running interpreter"]
    col.not_decided += ["numeric equality of parsed fields (delegated to int()/float())",
                        "ids are never used as row positions in the sort path (R-SPACE not built)"]

    col.rule("R-SORT", "with sorting requested the rows are renumbered by a traversal from the root that looks nodes up by id "
             "(never by position), the frame is permuted by the traversal's order and the new ids / parent ids are stored in "
             "that same row order (row-order kinds F/S/P inferred); a tree gets one node per row of the table", floor=12, shape=True)
    col.guard(sort_clause, ctx, col)
    col.guard(reader_handle, ctx, col)
    from ..rules import narrowing, sortedness
    narrowing.run(ctx, col, (f"{IO}.read_swc", f"{IO}.parse_swc", "swcgeom.core.tree.Tree.from_swc", "swcgeom.core.tree.Tree.from_data_frame",
                             "swcgeom.core.swc_utils.normalizer.sort_nodes_", "swcgeom.core.swc_utils.normalizer.sort_nodes_impl"))
    sortedness.run(ctx, col, ("swcgeom.core.swc_utils.io", "swcgeom.core.swc_utils.normalizer", "swcgeom.core.swc_utils.base"))

    p = repo.get_def(f"{IO}.parse_swc")
    got = col.guard(file_loop, ctx, p)
    if got is None:
        return  # the line loop is not of the anchored form: reported as R-ANCHOR (a definite violation found above still wins)
    w, loop, handle = got
    from .c01 import r_capture
    from ..rules import smalllints2 as _s2
    _s2.run_pathio(ctx, col, ('swcgeom.core.swc_utils.io', 'swcgeom.core.tree', 'swcgeom.core.swc', 'swcgeom.core.population'))
    _s2.run_clip(ctx, col, ('swcgeom.core.swc_utils.normalizer', 'swcgeom.core.swc_utils.io'))
    _s2.run_splitlines(ctx, col, ('swcgeom.core.swc_utils.io', 'swcgeom.core.tree'))
    _s2.run_twice(ctx, col, ('swcgeom.core.swc_utils.io', 'swcgeom.core.tree', 'swcgeom.core.swc'))
    col.guard(r_capture, ctx, col, "R-CAPTURE")
    col.guard(r_rowlang, ctx, col)
    from .c05 import table_gather_keys
    col.guard(table_gather_keys, ctx, col, "R-SORT")

    # ---- R-EXC: explicit raise sites + the decode error of the iteration
    raises = [n for n in own_nodes(p) if isinstance(n, ast.Raise)]
    # the loop over the file handle must be able to fail loudly at all: a try around it whose handler
    # completes normally, or no raise for an unclassifiable line, is decided below (R-EXC / R-CLASSIFY)
    for t in [n for n in own_nodes(p) if isinstance(n, ast.Try)]:
        for h in t.handlers:
            col.check(exc.body_always_raises(h.body), "R-EXC", p.qualname, p.loc(h),
                      f"handler `except {norm_src(h.type) if h.type else ''}` around the read loop re-raises on every path",
                      "", f"`except {norm_src(h.type) if h.type else ''}` can complete without raising: after a failure in the middle "
                      f"of the file the rows read so far are returned as if they were the whole table",
                      stmt=f"handler:{norm_src(h.type) if h.type else ''}")
    for r in raises:
        exc.check_raise_reaches(ctx, col, "R-EXC", p, r, exc.exc_class_name(r.exc), ENTRIES,
                                f"raise {exc.exc_class_name(r.exc)} reaches the caller")
    exc.check_raise_reaches(ctx, col, "R-EXC", p, loop, "UnicodeDecodeError", ENTRIES,
                            "a decode error while iterating the handle reaches the caller")
    # the converter call can raise ValueError too
    convs = [n for n in own_nodes(p) if isinstance(n, ast.Call) and isinstance(n.func, ast.Attribute)
             and n.func.attr == "append" and isinstance(n.func.value, ast.Subscript)
             and dotted(n.func.value.value) == "vals"]
    for c in convs:
        exc.check_raise_reaches(ctx, col, "R-EXC", p, c, "ValueError", ENTRIES,
                                "a converter failure reaches the caller")
    # Tree.from_swc wraps, never swallows
    fs = repo.get_def("swcgeom.core.tree.Tree.from_swc")
    for t in [n for n in own_nodes(fs) if isinstance(n, ast.Try)]:
        for h in t.handlers:
            col.check(exc.body_always_raises(h.body), "R-EXC", fs.qualname, fs.loc(h),
                      f"handler `except {norm_src(h.type) if h.type else ''}` re-raises on every path",
                      "", "the handler can complete without raising: a failed read yields a value",
                      stmt=f"handler:{norm_src(h.type) if h.type else ''}")

    # ---- R-CLASSIFY
    g = CFG(loop.body)
    is_row = lambda n: n.ast is not None and any(
        isinstance(x, ast.Call) and isinstance(x.func, ast.Attribute) and x.func.attr == "append"
        and isinstance(x.func.value, ast.Subscript) and dotted(x.func.value.value) == "vals"
        for x in ast.walk(n.ast)) and n.kind in ("stmt", "loop")  # loop: >= 7 columns (C01 R-TABLE)
    is_comment = lambda n: n.kind == "stmt" and n.ast is not None and any(
        isinstance(x, ast.Call) and norm_src(x.func) == "comments.append" for x in ast.walk(n.ast))

    def blank_edge(n, label):
        if n.kind != "test" or n.ast is None:
            return False
        t = n.ast
        neg = False
        if isinstance(t, ast.UnaryOp) and isinstance(t.op, ast.Not):
            neg, t = True, t.operand
        if isinstance(t, ast.Call) and isinstance(t.func, ast.Attribute) and t.func.attr == "isspace":
            return label == ("false" if neg else "true")
        return False

    def comment_arm(n, label):
        if not (n.kind == "test" and n.ast is not None):
            return False
        t, want = n.ast, "true"
        if isinstance(t, ast.UnaryOp) and isinstance(t.op, ast.Not):
            t, want = t.operand, "false"
        if isinstance(t, ast.Compare) and len(t.ops) == 1 and isinstance(t.ops[0], ast.Is) and norm_src(t.comparators[0]) == "None":
            want = "false" if want == "true" else "true"
        return label == want and any(isinstance(x, ast.Name) and x.id == "RE_COMMENT" for e_ in expand_names(p, t) for x in ast.walk(e_))

    def effect(n):
        """a statement on the path that may store the line somewhere in a way the classification does not know"""
        a = n.ast
        if a is None or n.kind == "test":
            return False
        if n.kind == "loop":
            return True
        if isinstance(a, ast.Expr) and isinstance(a.value, ast.Call):
            return (dotted(a.value.func) or "") not in ("warnings.warn", "warn", "print")
        if isinstance(a, (ast.Assign, ast.AugAssign, ast.AnnAssign)):
            tg = a.targets if isinstance(a, ast.Assign) else [a.target]
            return any(not isinstance(t, ast.Name) for t in tg)
        return False

    classes = {}
    npaths = 0
    for path in g.paths(g.entry, [g.exit, g.raise_exit], max_visits=2,
                        edge_ok=lambda a, b, l: l != "exc"):
        npaths += 1
        nodes = [n for n, _ in path]
        labels = [(path[i][0], path[i + 1][1]) for i in range(len(path) - 1)]
        if nodes[-1] is g.raise_exit:
            kind = "raise"
        elif any(is_row(n) for n in nodes):
            kind = "row"
        elif any(is_comment(n) for n in nodes):
            kind = "comment"
        elif any(blank_edge(n, l) for n, l in labels):
            kind = "blank"
        elif any(comment_arm(n, l) for n, l in labels):
            kind = "filtered-comment"
        elif any(effect(n) for n in nodes):
            kind = "UNRECOGNISED"   # the path does something the classification does not know: no verdict
        else:
            kind = "DROPPED"
        sig = " ".join(f"{n.lineno}{l[0].upper() if l else ''}" for n, l in labels if n.kind == "test")
        classes.setdefault(kind, []).append(sig)
    if getattr(g, "path_cap_hit", False):
        col.unresolved("R-CLASSIFY", p.qualname, p.loc(loop), "loop body paths", "path cap hit")
    for kind, sigs in sorted(classes.items()):
        if kind == "UNRECOGNISED":
            col.unresolved("R-CLASSIFY", p.qualname, p.loc(loop), "path class of every path is known",
                           f"{len(sigs)} path(s) have an effect the classification does not know (tests taken: {sigs[0]})", stmt="class:unrecognised")
            continue
        col.check(kind != "DROPPED", "R-CLASSIFY", p.qualname, p.loc(loop),
                  f"path class `{kind}`", f"{len(sigs)} paths",
                  f"{len(sigs)} path(s) through the line loop neither store, raise nor are blank: "
                  f"a line can be silently dropped (tests taken: {sigs[0]})",
                  stmt=f"class:{kind}", facts={"paths": len(sigs)})
    for need in ("row", "comment", "raise", "blank"):
        if need not in classes and "UNRECOGNISED" in classes:
            col.unresolved("R-CLASSIFY", p.qualname, p.loc(loop), f"path class `{need}` exists", "some paths are not classified", stmt=f"need:{need}")
        elif need not in classes:
            col.bad("R-CLASSIFY", p.qualname, p.loc(loop), f"path class `{need}` exists",
                    f"no path of the line loop ends in `{need}`"
                    + (": malformed lines are not rejected" if need == "raise" else ""),
                    stmt=f"need:{need}")
    col.analysed["line_loop_paths"] = npaths
    # row class must be reached only when the data regex matched; raise only in the last arm
    first = loop.body[0] if loop.body else None
    ok = isinstance(first, ast.If) and any(isinstance(x, ast.Name) and x.id == "re_swc"
                                          for x in ast.walk(first.test))
    col.shape(ok and len(loop.body) == 1, "R-CLASSIFY", p.qualname, p.loc(loop),
              "loop body is one classification ladder keyed on the row regex", "",
              "the loop body is not a single if/elif ladder starting with the row regex test",
              stmt="ladder")

    # ---- R-ROW
    for c in convs:
        inner = None
        x = repo.parent(c)
        while x is not None and x is not loop:
            if isinstance(x, ast.For):
                inner = x
            x = repo.parent(x)
        ok = inner is not None and isinstance(inner.iter, ast.Call) and \
            dotted(inner.iter.func) == "enumerate" and norm_src(inner.iter.args[0]) == "transforms" \
            and not any(isinstance(s, (ast.Break, ast.Continue)) for s in ast.walk(inner)) \
            and not any(isinstance(s, ast.Try) for s in ast.walk(inner))
        col.shape(ok, "R-ROW", p.qualname, p.loc(c), "converter loop runs over all columns without "
                  "break/continue/try", norm_src(inner.iter) if inner else "",
                  "the row append can stop early or skip a column", stmt="conv-loop")
    # the with-block covers the loop; the table is built after it from all rows
    body_nodes = list(ast.walk(w))
    col.shape(loop in body_nodes, "R-ROW", p.qualname, p.loc(w),
              "the read loop runs inside the handle's with-block", "", "", stmt="with-loop")


def sort_clause(ctx, col):
    from ..rules import roworder
    repo = ctx.repo
    NORM = "swcgeom.core.swc_utils.normalizer"
    sn = repo.get_def(f"{NORM}.sort_nodes_")
    col.text_group("R-SORT", sn.qualname, sn, [
        ("ids and parent ids as they stand in the table", ["ids, pids = df[names.id].to_numpy(), df[names.pid].to_numpy()"], "s:cols"),
        ("new numbering and row permutation from one traversal", ["(new_ids, new_pids), indices = sort_nodes_impl((ids, pids))"], "s:impl"),
        ("every column is permuted by the traversal order", ["for col in df.columns: df[col] = df[col][indices].to_numpy()"], "s:perm"),
        ("the new ids and parent ids replace the old", ["df[names.id], df[names.pid] = new_ids, new_pids"], "s:store")],
        fixed=("df", "names", "sort_nodes_impl"))
    roworder.check(ctx, col, "R-SORT", sn, "df")
    si = repo.get_def(f"{NORM}.sort_nodes_impl")
    col.text_group("R-SORT", si.qualname, si, [
        ("the table's ids and parent ids", ["old_ids, old_pids = topology"], "i:in"),
        ("slot k: the old id of the node that becomes k", ["id_map = np.full_like(old_ids, fill_value=_any)"], "i:map"),
        ("slot k: the new parent of node k", ["new_pids = np.full_like(old_ids, fill_value=_any)"], "i:pids"),
        ("new ids count from 0", ["new_id = 0"], "i:zero"),
        ("the traversal starts at the (first) root, whose parent stays -1", ["first_root = old_ids[(old_pids == -1).argmax()]"], "i:root"),
        ("...", ["s = [(first_root, -1)]"], "i:stack"),
        ("a node is numbered when it is popped", ["old_id, new_pid = s.pop()"], "i:pop"),
        ("its old id is recorded at its new number", ["id_map[new_id] = old_id"], "i:rec"),
        ("its parent's NEW number is recorded", ["new_pids[new_id] = new_pid"], "i:par"),
        ("its children are found by ID (rows whose parent id equals its old id) and get its new number as parent",
         ["s.extend((j, new_id) for j in old_ids[old_pids == old_id])"], "i:children"),
        ("numbers are consecutive", ["new_id = new_id + 1", "new_id += 1"], "i:next"),
        ("old id -> old row position through a dict (ids need not be positions)", ["id2idx = dict(zip(old_ids, range(len(old_ids))))"], "i:id2idx"),
        ("new number -> old row position", ["indices = np.array([id2idx[i] for i in id_map], dtype=_any)"], "i:indices"),
        ("new ids are 0..n-1", ["new_ids = np.arange(len(new_pids))", "new_ids = np.arange(len(id_map))", "new_ids = np.arange(len(old_ids))"], "i:ids"),
        ("both are returned", ["return (new_ids, new_pids), indices"], "i:ret")], fixed=("topology",))
    rd = repo.get_def(f"{IO}.read_swc")
    col.text_group("R-SORT", rd.qualname, rd, [
        ("sorting, when requested, is applied to the parsed table", ["if sort_nodes:\n    sort_nodes_(df)\nelif reset_index:\n    reset_index_(df)"], "r:sort")],
        fixed=("sort_nodes", "reset_index", "sort_nodes_", "reset_index_"))
    fd = repo.get_def("swcgeom.core.tree.Tree.from_data_frame")
    col.text_group("R-SORT", fd.qualname, fd, [
        ("a tree has one node per row, every column taken from the table",
         ["tree = Tree(df.shape[0], **{k: df[k].to_numpy() for k in names.cols()}, source=source, comments=comments, names=names)",
          "tree = Tree(len(df), **{k: df[k].to_numpy() for k in names.cols()}, source=source, comments=comments, names=names)",
          "return Tree(df.shape[0], **{k: df[k].to_numpy() for k in names.cols()}, source=source, comments=comments, names=names)"], "t:tree")],
        fixed=("df", "names", "source", "comments", "Tree"))
    # the node count handed to the constructor is a number of rows, not something computed from the ids
    for c in own_nodes(fd):
        if isinstance(c, ast.Call) and dotted(c.func) in ("Tree", "cls") and c.args:
            exprs, seen = [c.args[0]], set()
            while exprs:
                e = exprs.pop()
                for n in ast.walk(e):
                    if isinstance(n, ast.Name) and n.id not in seen:
                        seen.add(n.id)
                        exprs += [a.value for a in own_nodes(fd) if isinstance(a, ast.Assign) and len(a.targets) == 1 and norm_src(a.targets[0]) == n.id]
                    if isinstance(n, ast.Call) and isinstance(n.func, ast.Attribute) and n.func.attr in ("max", "min", "ptp", "nunique", "argmax", "argmin") \
                            or isinstance(n, ast.Call) and (dotted(n.func) or "").split(".")[-1] in ("max", "min", "ptp", "amax", "amin"):
                        col.bad("R-SORT", fd.qualname, fd.loc(c), "a tree has one node per row of the table",
                                f"the node count `{norm_src(c.args[0])}` is computed from column VALUES (`{norm_src(n)[:60]}`), not from the number of rows: "
                                f"ids are arbitrary distinct integers, so a table with gaps in its ids gets a different number of nodes than it has rows",
                                stmt="t:count-from-values", definite=True)
                        exprs = []
                        break


def reader_handle(ctx, col):
    """The text handle the line loop iterates: universal-newline text mode over the caller's bytes / file, lines as the file has them."""
    repo = ctx.repo
    col.rule("R-HANDLE", "the reader iterates a text handle in universal-newline mode (CRLF and LF end a line alike, nothing of the terminator stays in the "
             "text), opened with the requested encoding; the line loop iterates the handle itself (the last line need not end in a newline)", floor=4, shape=True)
    en = repo.get_def("swcgeom.utils.file.FileReader.__enter__")
    col.text_group("R-HANDLE", en.qualname, en, [
        ("bytes are wrapped as text with the requested encoding, default newline handling", ["self.f = TextIOWrapper(self.fb, encoding=self.encoding)"], "h:wrap"),
        ("a path is opened for reading as text with the requested encoding", ["self.f = open(self.fname, 'r', encoding=self.encoding, **self.kwargs)"], "h:open"),
        ("the handle is returned", ["return self.f"], "h:ret")])
    # newline= other than None switches universal newlines off
    for c in own_nodes(en):
        if isinstance(c, ast.Call) and (dotted(c.func) or "") in ("open", "TextIOWrapper", "io.TextIOWrapper", "io.open"):
            for k in c.keywords:
                if k.arg == "newline" and not (isinstance(k.value, ast.Constant) and k.value.value is None):
                    col.bad("R-HANDLE", en.qualname, en.loc(c), "universal-newline text mode",
                            f"`{norm_src(c)[:80]}` passes newline={norm_src(k.value)}: line terminators are no longer translated, so the `\\r` of a CRLF file stays at the "
                            f"end of every line (comment text comes back with it)", stmt="h:newline", definite=True)
        if isinstance(c, ast.Call) and isinstance(c.func, ast.Attribute) and c.func.attr in ("setdefault", "update", "__setitem__") and "kwargs" in norm_src(c.func.value) \
                and any(isinstance(a, ast.Constant) and a.value == "newline" for a in ast.walk(c)):
            col.bad("R-HANDLE", en.qualname, en.loc(c), "universal-newline text mode",
                    f"`{norm_src(c)[:80]}` sets a `newline` option for open(): line terminators are no longer translated", stmt="h:newline-kw", definite=True)
    # decoding is strict: undecodable bytes raise (and parse_swc turns that into its ValueError); errors='replace' / 'ignore' swallow them
    fr = repo.get_class("swcgeom.utils.file.FileReader")
    lenient = ("replace", "ignore", "surrogateescape", "backslashreplace", "xmlcharrefreplace", "namereplace", "surrogatepass")
    defaults = {}
    for m_ in fr.methods.values():
        if m_.is_lambda:
            continue
        a_ = m_.node.args
        names_ = [x.arg for x in a_.posonlyargs + a_.args]
        for nm_, dv_ in zip(names_[len(names_) - len(a_.defaults):], a_.defaults):
            if isinstance(dv_, ast.Constant) and isinstance(dv_.value, str):
                defaults[nm_] = dv_.value
        for nm_, dv_ in zip([x.arg for x in a_.kwonlyargs], a_.kw_defaults):
            if isinstance(dv_, ast.Constant) and isinstance(dv_.value, str):
                defaults[nm_] = dv_.value
    for m_ in fr.methods.values():
        for c in own_nodes(m_):
            if isinstance(c, ast.Call) and (dotted(c.func) or "").rsplit(".", 1)[-1] in ("open", "TextIOWrapper", "decode", "StringIO", "str"):
                for k in c.keywords:
                    if k.arg == "errors":
                        v = k.value
                        val = v.value if isinstance(v, ast.Constant) else None
                        if val is None:
                            nm = v.attr if isinstance(v, ast.Attribute) else (v.id if isinstance(v, ast.Name) else None)
                            val = defaults.get(nm) if nm else None
                        if isinstance(val, str) and val in lenient:
                            col.bad("R-HANDLE", m_.qualname, m_.loc(c), "bytes that cannot be decoded raise",
                                    f"`{norm_src(c)[:80]}` decodes with errors='{val}': an undecodable byte becomes a replacement character instead of raising, so a file that cannot be "
                                    f"decoded in the requested encoding comes back as a complete-looking table (with corrupted comments) and the UnicodeDecodeError arm of the reader is dead",
                                    stmt="h:errors", definite=True)
    # an in-memory text stream built from decoded text does no newline translation at all (io.StringIO(initial) has newline='\n')
    for c in own_nodes(en):
        if isinstance(c, ast.Call) and (dotted(c.func) or "").rsplit(".", 1)[-1] == "StringIO" and c.args:
            nl = next((k.value for k in c.keywords if k.arg == "newline"), c.args[1] if len(c.args) > 1 else None)
            if nl is None or not (isinstance(nl, ast.Constant) and nl.value is None):
                col.bad("R-HANDLE", en.qualname, en.loc(c), "universal-newline text mode",
                        f"`{norm_src(c)[:80]}` serves the decoded text from a StringIO, which (unlike TextIOWrapper / open) does not translate line terminators unless "
                        f"newline=None is given: for bytes with CRLF line ends every comment keeps a trailing `\r`, and CR-only files are one single line", stmt="h:stringio", definite=True)
    p = repo.get_def(f"{IO}.parse_swc")
    # cutting the text by hand and dropping the last piece loses an unterminated last line
    for lp in [n for n in own_nodes(p) if isinstance(n, (ast.For, ast.comprehension))]:
        for e_ in expand_names(p, lp.iter):
            for n in ast.walk(e_):
                if isinstance(n, ast.Subscript) and isinstance(n.slice, ast.Slice) and n.slice.upper is not None and norm_src(n.slice.upper) == "-1" \
                        and any(isinstance(c, ast.Call) and isinstance(c.func, ast.Attribute) and c.func.attr in ("split", "splitlines") for c in ast.walk(n.value)):
                    col.bad("R-HANDLE", p.qualname, p.loc(lp) if isinstance(lp, ast.For) else p.loc(), "every line of the text is looked at, the last one too",
                            f"`{norm_src(n)[:70]}` drops the last piece of the split text: when the text does not end in a newline that piece is the last data row",
                            stmt="h:lastline", definite=True)
    w, loop, handle = file_loop(ctx, p)
    it = loop.iter
    direct = (isinstance(it, ast.Name) and it.id == handle) or (isinstance(it, ast.Call) and dotted(it.func) == "enumerate" and it.args
                                                                and isinstance(it.args[0], ast.Name) and it.args[0].id == handle)
    col.shape(direct, "R-HANDLE", p.qualname, p.loc(loop), "the line loop iterates the handle itself", norm_src(it)[:60],
              f"the loop iterates `{norm_src(it)[:60]}`, not the handle: how the text is cut into lines is no longer the handle's", stmt="h:iter")



def r_rowlang(ctx, col):
    """A line is accepted as a data row only if it is made of numbers: the language of the reader's row regex (folded, as it is applied:
    search / match) is included in the lines over digits, signs, dots, exponent markers, blanks (and the comma, which the historic class
    `+-.` of the ignored-fields group spans).  A row regex that accepts a letter anywhere -- a wildcard tail, a dropped anchor that lets the
    match start after junk -- reads a malformed line as a shorter, valid one instead of raising."""
    from .c01 import reader_patterns
    from .. import relang
    from ..fold import Unfoldable
    from ..model import AnalysisError as _AE
    col.rule("R-ROWLANG", "only lines made of numbers are data rows: L(reader row regex, as applied) is included in the lines over digits, sign, dot, "
             "exponent marker and blanks (regex-language inclusion by automata product); a line containing any other character is rejected (and so raises)",
             floor=1, exhaustive=True)
    try:
        p, re_assign, pats = reader_patterns(ctx)
    except (Unfoldable, _AE) as e:
        col.unresolved("R-ROWLANG", "swcgeom.core.swc_utils.io.parse_swc", "", "reader regex", str(e), stmt="rowlang")
        return
    uses = [n for n in own_nodes(p) if isinstance(n, ast.Call) and isinstance(n.func, ast.Attribute) and isinstance(n.func.value, ast.Name) and n.func.value.id == "re_swc"]
    methods = {u.func.attr for u in uses}
    if not methods or methods - {"search", "match", "fullmatch"}:
        col.unresolved("R-ROWLANG", p.qualname, p.loc(), "reader regex application", f"{methods}", stmt="rowlang")
        return
    allowed = r"[\s+\-.,0-9eE]*"
    for tag, pat in pats.items():
        try:
            # the reader's language as applied: search = anything may precede the match, match = anything may follow an unanchored end
            lang = pat
            if "search" in methods and not pat.startswith("^"):
                lang = "(?:.|\\n)*" + lang
            if not pat.endswith("$") and "fullmatch" not in methods:
                lang = lang + "(?:.|\\n)*"
            inc, cex, nstates = relang.included(lang, allowed)
        except (relang.UnsupportedRegex, Exception) as ex:  # noqa: BLE001
            col.unresolved("R-ROWLANG", p.qualname, p.loc(re_assign), f"row language ({tag})", str(ex)[:120], stmt=f"rowlang:{tag}")
            continue
        col.check(inc, "R-ROWLANG", p.qualname, p.loc(re_assign), f"every line the row regex accepts is made of numbers ({tag})", f"{nstates} product states",
                  f"the row regex accepts {cex!r}: a line that is no data row is read as one (junk after or before the columns is swallowed) instead of raising",
                  stmt=f"rowlang:{tag}", definite=True)
